#!/bin/bash
# tools/seedtest.sh <PROP> <k> [srcdir]   verify a seeded breaking change and run the check against it
# srcdir defaults to /tmp/seed/<PROP>/SEED; result is kept in /verif/seeded/<PROP>-<k>/
set -u
P=$1; K=$2; SRC=${3:-/tmp/seed/$P/SEED}
D=/verif/seeded/$P-$K
mkdir -p $D
[ -f $SRC/patch_$K.diff ] && cp $SRC/patch_$K.diff $D/patch.diff && cp $SRC/demo_$K.py $D/demo.py && cp $SRC/meta_$K.json $D/meta_seed.json
WT=/tmp/sv/$P-$K
rm -rf $WT; mkdir -p /tmp/sv
git -C /repo worktree add -q --detach $WT HEAD || exit 2
cd $WT
cp $D/demo.py $WT/demo_seed.py
PYTHONPATH=$WT timeout 300 /venv/bin/python demo_seed.py > $D/demo_clean.log 2>&1; DC=$?
if ! git apply $D/patch.diff 2> $D/apply.log; then echo "PATCH DOES NOT APPLY"; cat $D/apply.log; git -C /repo worktree remove --force $WT; exit 3; fi
TESTS=$(timeout 900 /venv/bin/python -m pytest -q -p no:cacheprovider --timeout=900 test 2>&1 | grep -E "[0-9]+ passed" | tail -1)
PYTHONPATH=$WT timeout 300 /venv/bin/python demo_seed.py > $D/demo_patched.log 2>&1; DP=$?
rm -f $WT/demo_seed.py
cd /verif
START=$(date +%s)
VERIF_REPO=$WT ./check $P quick > $D/check_quick.log 2>&1; RC=$?
END=$(date +%s)
VIOL=$(grep -m1 '^VIOLATION' $D/check_quick.log)
REPLAY=$(echo "$VIOL" | sed -n 's/.*replay=\([^ ]*\).*/\1/p')
[ -n "$REPLAY" ] && [ -f "$REPLAY" ] && cp "$REPLAY" $D/replay.json
git -C /repo worktree remove --force $WT
# leave the generated fact file of this property as it is for /repo (the run above regenerated it from the patched tree)
(cd /verif && VERIF_REPO=/repo PYTHONPATH=/verif:/repo /venv/bin/python -c "import translator; translator.generate('$P')" > /dev/null 2>&1)
python3 - <<PY
import json
m = {}
try: m = json.load(open('$D/meta_seed.json'))
except Exception: pass
prev = {}
try: prev = json.load(open('$D/meta.json'))
except Exception: pass
out = {'property': '$P', 'seed': $K, 'breaks': m.get('clause'), 'needs': m.get('needs'), 'files_touched': m.get('files_touched'),
       'verified': {'demo_exit_on_clean_tree': $DC, 'demo_exit_with_patch': $DP, 'test_suite_with_patch': '''$TESTS'''.strip(),
                    'commands': ['git worktree add (HEAD of /repo)', 'python demo.py', 'git apply patch.diff', 'pytest -q test', 'python demo.py', 'VERIF_REPO=<worktree> ./check $P quick']},
       'check': {'exit': $RC, 'seconds': $END - $START, 'violation_line': '''$VIOL'''.strip(), 'caught': $RC == 1}}
# the report of the FIRST run against this change is kept; later runs (after the check was strengthened) are recorded as 'check'
first = prev.get('first_check') or prev.get('check')
if first:
    out['first_check'] = first
json.dump(out, open('$D/meta.json', 'w'), indent=1)
print(json.dumps(out['verified'])); print(json.dumps(out['check']))
PY
