#!/bin/bash
# tools/coqchk_all.sh [props...] : re-check the compiled development with the independent checker coqchk and list the axioms
# (run after ./check setup on a quiescent tree; several minutes and GBs for the Flocq-dependent properties); output in notes/coqchk.txt
cd /verif/coq || exit 2
PROPS=${@:-C01 C02 C03 C04 C05 C06 C07 C08 C09 C10 C11 C12 C13 C14 C15 C16 C17 C18 C19 C20}
MODS=""
for P in $PROPS; do MODS="$MODS FV.$P.Properties"; done
{ echo "# coqchk -o over: $MODS"; echo "# $(coqchk --version 2>&1 | head -1)"; date -u +"# %Y-%m-%dT%H:%MZ"; } > ../notes/coqchk.txt
/usr/bin/time -v timeout 7200 coqchk -silent -o -Q theories FV $MODS >> ../notes/coqchk.txt 2>&1
echo "exit $?" >> ../notes/coqchk.txt
tail -5 ../notes/coqchk.txt
