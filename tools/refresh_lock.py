#!/venv/bin/python
"""tools/refresh_lock.py Cxx [Cyy ...] — record the current fingerprints of the modelled functions in coq/fingerprints.lock
(after a reviewed change of /repo, e.g. a fix: commit, so that the quick tier is not escalated for ever)"""
import importlib
import json
import os
import sys

HERE = os.path.dirname(os.path.dirname(os.path.abspath(__file__)))
sys.path.insert(0, HERE)
os.environ.setdefault('VERIF_REPO', '/repo')
import translator  # noqa: E402

lockp = os.path.join(HERE, 'coq', 'fingerprints.lock')
lock = json.load(open(lockp))
for pid in sys.argv[1:]:
    m = importlib.import_module(f'translator.facts_{pid}')
    new = {k: translator.fingerprint(g()) for k, g in m.FINGERPRINTS.items()}
    changed = [k for k in new if lock.get(pid, {}).get(k) != new[k]]
    lock[pid] = new
    print(pid, 'changed:', changed)
json.dump(lock, open(lockp, 'w'), indent=1, sort_keys=True)
