"""dev aid: python tools/dev.py Cxx [n] — run generator + impl + oracle, print failure classes not covered by findings, and mismatches"""
import sys, json, os, collections
sys.path.insert(0, '/verif')
from harness import main, coqrun
import importlib
P = importlib.import_module('harness.props.' + sys.argv[1])
tier = sys.argv[2] if len(sys.argv) > 2 else 'quick'
known = main.load_known()
cases = P.gen_cases(int(os.environ.get('VERIF_SEED', '1')), tier)
obs = main.run_impl(P, cases)
by = collections.defaultdict(list)
for c, o in zip(cases, obs):
    if '__harness_error__' in o:
        by['HARNESS ' + o['__harness_error__'][:80]].append((c, o, None)); continue
    for f in P.oracle(c, o):
        kid = main.classify(P, known, c, o, f)
        by[(kid or 'UNLISTED') + ' / ' + f['class']].append((c, o, f))
for k, v in sorted(by.items()):
    print('==', k, len(v))
    for c, o, f in v[:int(os.environ.get('SHOW', '3'))]:
        print('   ', f['what'][:300] if f else o)
if os.environ.get('CORR', '1') == '1':
    idx = [i for i, o in enumerate(obs) if '__harness_error__' not in o]
    enc = [P.encode(cases[i], obs[i]) for i in idx]
    mism, errs, t = coqrun.run_shards(P.ID, enc, P.IMPORTS, P.CASE_TYPE, P.CHECK, shard_size=getattr(P, 'SHARD_SIZE', 300))
    print('mismatches', len(mism), 'errors', errs[:1], 'time', round(t, 1))
    for i in [idx[j] for j in mism[:5]]:
        print(json.dumps(P.sample_repr(cases[i], obs[i]))[:600])
        if hasattr(P, 'model_result_term'):
            print('   model:', coqrun.eval_terms(P.ID, P.IMPORTS, [P.model_result_term(cases[i], obs[i])])[0])
