#!/bin/bash
# usage: tools/goal.sh theories/C14/Lemmas.v <line>  -- shows goals after the given line (scratch copy, never part of the build)
f=$1; n=$2
mkdir -p /verif/.work/goal-$$
head -n "$n" "/verif/coq/$f" > /verif/.work/goal-$$/G.v
echo 'Show. ' >> /verif/.work/goal-$$/G.v
trap "rm -rf /verif/.work/goal-$$" EXIT
cd /verif/coq && timeout 120 coqc -Q theories FV -w none /verif/.work/goal-$$/G.v 2>&1 | grep -v '^File\|Error: There are pending proofs' | head -${3:-60}
