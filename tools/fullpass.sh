#!/bin/bash
# tools/fullpass.sh [tier] [props...] : run the registered checks one after the other on /repo, summary in .work/fullpass.log
cd /verif
T=${1:-quick}; shift
PROPS=${@:-C01 C02 C03 C04 C05 C06 C07 C08 C09 C10 C11 C12 C13 C14 C15 C16 C17 C18 C19 C20}
mkdir -p .work
: > .work/fullpass.log
for P in $PROPS; do
  S=$(date +%s)
  ./check $P $T > .work/fullpass-$P.log 2>&1; RC=$?
  E=$(date +%s)
  echo "$P exit=$RC $((E-S))s $(grep -c '^KNOWN-FINDING' .work/fullpass-$P.log) known; $(grep -m1 '^VIOLATION' .work/fullpass-$P.log) $(tail -1 .work/fullpass-$P.log)" >> .work/fullpass.log
done
echo FULLPASS-DONE >> .work/fullpass.log
