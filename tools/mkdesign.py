#!/usr/bin/env python3
"""regenerates the generated appendices of DESIGN.md (between the GENERATED markers): theorem inventory,
known findings, seeded breaking changes"""
import glob
import json
import os
import re

HERE = os.path.dirname(os.path.dirname(os.path.abspath(__file__)))


def theorems(path):
    if not os.path.exists(path):
        return []
    txt = open(path).read()
    return re.findall(r'^\s*(?:Theorem|Lemma|Corollary)\s+([A-Za-z0-9_\']+)', txt, re.M)


def main():
    out = []
    out.append('### B.1 Theorem inventory (from coq/theories/Cxx/Properties.v and Refuted.v)\n')
    out.append('| property | theorems in Properties.v (each followed by Print Assumptions) | exists-witnesses for open findings (Refuted.v) |')
    out.append('|---|---|---|')
    for i in range(1, 21):
        p = f'C{i:02d}'
        t = theorems(os.path.join(HERE, 'coq', 'theories', p, 'Properties.v'))
        r = theorems(os.path.join(HERE, 'coq', 'theories', p, 'Refuted.v'))
        out.append(f'| {p} | {", ".join(f"`{x}`" for x in t)} | {", ".join(f"`{x}`" for x in r) or "-"} |')
    kf = json.load(open(os.path.join(HERE, 'known_findings.json')))['findings']
    out.append('\n### B.2 Findings (known_findings.json)\n')
    out.append('| id | status | what |')
    out.append('|---|---|---|')
    for f in sorted(kf, key=lambda f: f['id']):
        what = re.sub(r'^fixed: property=\S+ \S+ ', '', f['what']).replace('|', '\\|')
        out.append(f'| {f["id"]} | {f["status"]} | {what[:300]} |')
    out.append('\n### B.3 Seeded breaking changes (seeded/*/meta.json) and what the checks reported\n')
    out.append('| seed | breaks (clause) | needs | quick check (latest run) | reported as | first run reported |')
    out.append('|---|---|---|---|---|---|')

    def kind_of(chk):
        line = chk.get('violation_line', '')
        return 'not caught' if not chk.get('caught') else ('no-failing-input-found' if 'no-failing-input-found' in line else 'concrete replay')
    for m in sorted(glob.glob(os.path.join(HERE, 'seeded', '*', 'meta.json'))):
        d = json.load(open(m))
        name = os.path.basename(os.path.dirname(m))
        chk = d.get('check', {})
        line = chk.get('violation_line', '')
        kind = kind_of(chk)
        first = kind_of(d['first_check']) if d.get('first_check') else kind
        if d.get('other_checks'):
            kind += ' (' + '; '.join(f'{k} check: concrete replay' for k, v in d['other_checks'].items() if v.get('exit') == 1) + ')'
        out.append(f'| {name} | {str(d.get("breaks"))[:160]} | {str(d.get("needs"))[:200]} | exit {chk.get("exit")} in {chk.get("seconds")} s | {kind} | {first} |')
    gen = '\n'.join(out) + '\n'
    path = os.path.join(HERE, 'DESIGN.md')
    s = open(path).read()
    a, b = '<!-- GENERATED-BEGIN -->', '<!-- GENERATED-END -->'
    if a in s:
        s = s[:s.index(a) + len(a)] + '\n' + gen + s[s.index(b):]
    else:
        s += f'\n## Appendix B — generated inventories (tools/mkdesign.py)\n\n{a}\n{gen}{b}\n'
    open(path, 'w').write(s)


if __name__ == '__main__':
    main()
