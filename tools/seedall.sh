#!/bin/bash
# run every seeded change against its property's quick check (sequentially); results in seeded/<P>-<k>/meta.json
cd /verif
for P in "$@"; do for K in 1 2; do
  if [ -f /tmp/seed/$P/SEED/patch_$K.diff ] || [ -f seeded/$P-$K/patch.diff ]; then
    echo "== $P $K"; VERIF_JOBS=${VERIF_JOBS:-8} tools/seedtest.sh $P $K | tail -1
  fi
done; done
