#!/usr/bin/env python3
"""writes MANIFEST.json from the table below (kept valid against /root/.vp/MANIFEST.schema.json)"""
import json
import os

HERE = os.path.dirname(os.path.dirname(os.path.abspath(__file__)))

CLAIMED = {k: tuple(v) for k, v in json.load(open(os.path.join(HERE, 'tools', 'claimed.json'))).items()}

NOT_YET = {}


def main():
    props = [json.loads(l) for l in open(os.path.join(HERE, 'properties.jsonl'))]
    checks = []
    na = []
    for p in props:
        pid = p['id']
        if pid in CLAIMED:
            tech, text, note, ref = CLAIMED[pid]
            checks.append({
                'property_id': pid,
                'quick_cmd': f'./check {pid} quick',
                'thorough_cmd': f'./check {pid} thorough',
                'evidence_file': f'/verif/evidence/{pid}.json',
                'replay_cmd_template': f'./check {pid} --replay {{path}}',
                'engine': 'coq-model+correspondence',
                'level_claimed': {'category': 'proof', 'text': text, 'design_ref': ref},
                'level_note': note,
                'technique': tech,
            })
        else:
            na.append({'property_id': pid,
                       'reason': NOT_YET.get(pid, 'model and theorems for this property are designed (DESIGN.md section 7) but not built yet; not claimed until the Coq model, its theorems and the correspondence check exist')})
    m = {
        'version': 1,
        'setup_cmd': './check setup',
        'hooks': {
            'guard': 'FRAPPY_VERIF',
            'enable': 'no source hooks: all instrumentation is monkey-patching from /verif/harness (PYTHONPATH=/verif:/repo)',
            'baseline_off_cmd': 'cd /repo && /venv/bin/python -m pytest -ra -q -p no:cacheprovider --timeout=900 --continue-on-collection-errors',
            'source_commits': [],
            'add_only': True,
        },
        'engines': [{
            'name': 'coq-model+correspondence', 'path': '/verif/check',
            'serves_properties': sorted(CLAIMED),
            'kind_free_text': 'Coq 8.16.1 development under /verif/coq (hand-written executable models, theorems, generated fact files) + python harness that runs the model with vm_compute and the real frappy code on the same generated cases',
        }],
        'checks': checks,
        'not_applicable': na,
        'notes': 'see DESIGN.md; known_findings.json lists genuine defects of the pinned tree (open) and repaired ones (fixed).',
    }
    with open(os.path.join(HERE, 'MANIFEST.json'), 'w') as f:
        json.dump(m, f, indent=1)
        f.write('\n')


if __name__ == '__main__':
    main()
