#!/venv/bin/python
"""tools/integrate.py Cxx — merge findings/Cxx.json into known_findings.json and record the fingerprints of the
modelled functions in coq/fingerprints.lock (run by the lead after reviewing a property)"""
import json
import os
import sys

HERE = os.path.dirname(os.path.dirname(os.path.abspath(__file__)))
sys.path.insert(0, HERE)
pid = sys.argv[1]
kfp = os.path.join(HERE, 'known_findings.json')
kf = json.load(open(kfp))
fp = os.path.join(HERE, 'findings', f'{pid}.json')
if os.path.exists(fp):
    new = json.load(open(fp))['findings']
    kf['findings'] = [f for f in kf['findings'] if f['property'] != pid] + \
        [{k: v for k, v in f.items() if k in ('property', 'id', 'status', 'classifier', 'what', 'commit')} for f in new]
    json.dump(kf, open(kfp, 'w'), indent=1)
    print('merged', len(new), 'findings')
os.environ.setdefault('VERIF_REPO', '/repo')
import translator
_, n, fails, fps = translator.generate(pid)
lockp = os.path.join(HERE, 'coq', 'fingerprints.lock')
lock = json.load(open(lockp)) if os.path.exists(lockp) else {}
lock[pid] = fps
json.dump(lock, open(lockp, 'w'), indent=1, sort_keys=True)
print('facts', n, 'failures', fails, 'fingerprints', len(fps))
