"""C12 -- callbacks that call back into the client (case kind 're', model coq/theories/C12/ReModel.v).

Private helper of harness/props/C12.py (like c12_e2e.py / c12_conc.py).

A case: a history of accepted update lines / register_callback / unregister_callback calls on the real
frappy.client.SecopClient (real __rxthread run synchronously on a scripted connection, as for the msgs cases) and a
program per callback function: what its j-th invocation does -- a list of register_callback / unregister_callback calls
on the same client (same or other key, same or other callback name), then return / raise UnregisterCallback / raise
another exception.  The calls are made by invocations that come from the dispatch of a message; immediate invocations
(made by a registration with the cached state) and handleError invocations only return or raise.

A callback that another callback unregisters during the dispatch and that then raises UnregisterCallback is generated
since repository commit 4741ef2 (before, `cblist.remove` of the absent callback raised ValueError and the rest of the
dispatch was lost: finding C12/unregister-then-oneshot-breaks-dispatch).  Generated domain (stated in ASSUMPTIONS of the
property module): a callback that some callback unregisters from inside is not registered from inside a callback (when
an inner unregister_callback leaves the dispatched list empty the dict entry is popped and the dispatch holds an
orphaned list: a re-registered callback raising UnregisterCallback would then stay registered: observation in
notes/C12.md; the model follows the code there, ReModel orph).
"""
import json
import random
from collections import Counter

from harness import gal

MODS = [['m', ['value', 'target']], ['dev', ['value']]]
PARS = [['m', 'value'], ['m', 'target'], ['dev', 'value']]
KEYS = [None, 'm', 'dev', ['m', 'value'], ['m', 'target'], ['dev', 'value']]
UPD = ['updateItem', 'updateEvent']
T0 = 1024000           # ticks
LIMIT = 3000           # invocations per case (a dispatch that iterates a growing list never ends)


class Runaway(BaseException):
    """not an Exception: passes the handlers of the code under test"""


def _P():
    from harness.props import C12
    return C12


def description():
    mods = {}
    for m, ps in MODS:
        mods[m] = {'accessibles': {p: {'datainfo': {'type': 'double'}, 'description': p} for p in ps},
                   'description': m}
    return {'modules': mods, 'equipment_id': 'gen', 'description': 'generated'}


def kj(key):
    return json.dumps(key)


def levels_of(m, p):
    """dispatch order for a message about (m, p): updateItem node, module, parameter, then updateEvent"""
    return [(cn, kj(k)) for cn in UPD for k in (None, m, [m, p])]


def prog_of(case, cb, j):
    pr = case['progs'].get(str(cb))
    if not pr:
        return [[], 'ok']
    return pr[min(j, len(pr) - 1)]


def now_of(i):
    return T0 + 1024 * i


# =================================================================== driver (real implementation)
def run_re(case):
    import frappy.client as fc
    from frappy.lib.asynconn import ConnectionClosed
    P = _P()

    ev = []
    st = {'n': 0, 'op': 0, 'reg': 0}
    count = Counter()
    excs = []
    ops = case['ops']
    funcs = {}

    def entry_of(value, timestamp, readerror):
        return [None if readerror else P.canon(value), P.canon_ts(timestamp), P.canon_err(readerror)]

    def do_reg(what, key, cbname, cb, where):
        ev.append([what, cbname, key, cb, where])
        try:
            if what == 'reg':
                st['reg'] += 1
                try:
                    client.register_callback(P.pykey(key), **{cbname: site(cb, cbname, key)})
                finally:
                    st['reg'] -= 1
                    ev.append(['regend'])
            else:
                client.unregister_callback(P.pykey(key), **{cbname: site(cb, cbname, key)})
        except Exception as e:
            excs.append([st['op'] - 1, f'{what}: {type(e).__name__}: {str(e)[:200]}'])

    def invoked(cb, cbname, key, m, p, entry):
        n = st['n']
        if n >= LIMIT:
            raise Runaway()
        st['n'] += 1
        j = count[cb]
        count[cb] += 1
        acts, fin = prog_of(case, cb, j)
        ctx = 'err' if cbname == 'handleError' else 'imm' if st['reg'] else 'disp'
        done = acts if ctx == 'disp' else []
        ev.append(['inv', n, ctx, cb, cbname, key, m, p, entry, fin, done])
        for a in done:
            do_reg(a[0], a[1], a[2], a[3], 'act')
        if fin == 'U':
            raise fc.UnregisterCallback()
        if fin == 'E':
            raise RuntimeError('scripted')

    class Client(fc.SecopClient):
        activate = False

        def handleError(self, exc):
            try:
                super().handleError(exc)
            finally:
                invoked(0, 'handleError', None, None, None, None)

    def site(cb, cbname, key):
        k = (cb, cbname, kj(key))
        if k not in funcs:
            if cbname == 'updateItem':
                def f(module, parameter, item):
                    invoked(cb, cbname, key, module, parameter, entry_of(item.value, item.timestamp, item.readerror))
            elif cbname == 'updateEvent':
                def f(module, parameter, value, timestamp, readerror):
                    invoked(cb, cbname, key, module, parameter, entry_of(value, timestamp, readerror))
            else:
                def f(exc):
                    invoked(cb, cbname, key, None, None, None)
            f.verif_id = cb
            funcs[k] = f
        return funcs[k]

    def snapshot():
        return [[m, p, entry_of(it.value, it.timestamp, it.readerror)] for (m, p), it in client.cache.items()]

    class IO:
        def readline(self, timeout=None):
            while True:
                if st['op'] > 0 and ops[st['op'] - 1][0] == 'msg':
                    ev.append(['endmsg'])
                i = st['op']
                if i >= len(ops):
                    raise ConnectionClosed()
                st['op'] += 1
                op = ops[i]
                Clock.now = now_of(i) / 1024
                if op[0] == 'msg':
                    ev.append(['msg', i, op[1], op[2], op[3]])
                    return f'update {op[1]}:{op[2]} [{json.dumps(float(op[3]))}, {{}}]'.encode('utf-8')
                do_reg(op[0], op[1], op[2], op[3], 'top')

        def shutdown(self):
            pass

        def disconnect(self):
            pass

        def send(self, line):
            pass

    class Clock:
        now = 0.0

        @classmethod
        def time(cls):
            return cls.now

    client = Client('fake:0', log=None)
    orig_time = fc.time
    fc.time = Clock
    try:
        client._init_descriptive_data(description())
        client.io = IO()
        client._running = True
        try:
            client._SecopClient__rxthread()
        except Runaway:
            excs.append([st['op'] - 1, f'runaway: more than {LIMIT} callback invocations'])
        except Exception as e:
            excs.append([st['op'] - 1, 'rxthread: ' + type(e).__name__ + ': ' + str(e)[:200]])
        lists = []
        for cbname in UPD:
            for key in KEYS:
                lst = client.callbacks[cbname].get(P.pykey(key), [])
                lists.append([cbname, key, [getattr(f, 'verif_id', 0) for f in lst]])
        lists.append(['handleError', None,
                      [getattr(f, 'verif_id', 0) for f in client.callbacks['handleError'].get(None, [])]])
        return {'events': ev, 'excs': excs, 'lists': lists, 'consumed': st['op'], 'cache': snapshot()}
    finally:
        fc.time = orig_time
        try:
            client.callbacks.clear()
        except Exception:
            pass


# =================================================================== oracle (property text, own bookkeeping)
def spec_entry(case, i):
    op = case['ops'][i]
    return [['f', float(op[3]).hex()], ['fin', now_of(i)], None]


def oracle_re(case, obs):
    """Every callback registered (for the node, the module or the parameter) when a message is processed is invoked
    exactly once for it, with the import of the message, updateItem before updateEvent, node / module / parameter,
    in registration order; a callback that raised UnregisterCallback is not registered any more (never invoked again
    unless registered again); a registration calls back at once with the cached state and counts from the next message
    on; a callback registered / unregistered WHILE the message is dispatched may get one dispatch call more / less
    for that message when its level is dispatched later (the property text does not decide that), never for a level
    already started."""
    fails = []

    def fail(cls, what, **kw):
        fails.append(dict({'class': cls, 'what': what}, **kw))

    for i, e in obs['excs']:
        fail('raised', f'op {i}: {e}')
    if obs['consumed'] != len(case['ops']):
        fail('not-consumed', f"{obs['consumed']} of {len(case['ops'])} ops")
    R = {('handleError', 'null'): [0]}
    cache = {}
    msg = None
    reg = None
    pend = None

    def herr():
        return R.setdefault(('handleError', 'null'), [])

    def fin_pending():
        nonlocal pend
        if pend is not None:
            exp = pend.get('exp', list(herr()))
            if pend['got'] != exp:
                fail('handleError-calls', f"after the failing callback {pend['cb']}: handleError callbacks {pend['got']}, "
                                          f"registered {exp}")
            pend = None

    for x in obs['events']:
        t = x[0]
        if t == 'msg':
            _, i, m, p, _v = x
            e = spec_entry(case, i)
            cache[(m, p)] = e
            msg = {'i': i, 'm': m, 'p': p, 'e': e, 'R0': {k: list(v) for k, v in R.items()}, 'added': [],
                   'removed': [], 'disp': [], 'lv': levels_of(m, p), 'cur': -1}
        elif t == 'endmsg':
            fin_pending()
            if msg is None:
                continue
            for li, L in enumerate(msg['lv']):
                D = [cb for (l, cb) in msg['disp'] if l == li]
                R0 = msg['R0'].get(L, [])
                plus = Counter(cb for (k, cb, at) in msg['added'] if k == L and at < li)
                minus = Counter(cb for (k, cb, at) in msg['removed'] if k == L and at <= li)
                cd, c0 = Counter(D), Counter(R0)
                for cb in sorted(set(cd) | set(c0)):
                    lo, hi = c0[cb] - minus[cb], c0[cb] + plus[cb]
                    if not lo <= cd[cb] <= hi:
                        fail('callback-count',
                             f"message {msg['i']} ({msg['m']}:{msg['p']}): callback {cb} registered {c0[cb]} time(s) for "
                             f"{L[0]} {L[1]} was invoked {cd[cb]} time(s)", cb=cb, level=list(L))
                E = R0 + [cb for (k, cb, at) in msg['added'] if k == L and at < li]
                it = iter(E)
                if not all(any(y == cb for y in it) for cb in D) and all(cd[cb] <= Counter(E)[cb] for cb in cd):
                    fail('callback-order', f"message {msg['i']}: {L[0]} {L[1]} invoked {D}, registered in order {E}")
            msg = None
        elif t == 'reg':
            _, cbname, key, cb, where = x
            if cbname in UPD:
                if key is None:
                    args = [[m, p, e] for (m, p), e in cache.items()]
                elif isinstance(key, str):
                    args = [[m, p, e] for (m, p), e in cache.items() if m == key]
                else:
                    args = [[key[0], key[1], cache[tuple(key)]]] if tuple(key) in cache else []
            else:
                args = []
            reg = {'cbname': cbname, 'key': key, 'cb': cb, 'exp': args, 'got': [], 'oneshot': False}
        elif t == 'regend':
            if reg is None:
                continue
            if reg['got'] != reg['exp']:
                fail('immediate-args', f"register {reg['cbname']} {reg['key']} callback {reg['cb']}: immediate calls "
                                       f"{reg['got']}, cached state {reg['exp']}")
            if not reg['oneshot']:
                k = (reg['cbname'], kj(reg['key']))
                R.setdefault(k, []).append(reg['cb'])
                if msg is not None:
                    msg['added'].append((k, reg['cb'], msg['cur']))
            reg = None
        elif t == 'unreg':
            _, cbname, key, cb, where = x
            k = (cbname, kj(key))
            if cb in R.get(k, []):
                R[k].remove(cb)
            if msg is not None:
                msg['removed'].append((k, cb, msg['cur']))
        elif t == 'inv':
            _, n, ctx, cb, cbname, key, m, p, entry, fin, done = x
            if ctx == 'err':
                if pend is None:
                    fail('handleError-unexpected', f'invocation {n}: handleError callback {cb} without a failing callback')
                else:
                    pend.setdefault('exp', list(herr()))
                    pend['got'].append(cb)
                if fin == 'U' and cb in herr():
                    herr().remove(cb)
            elif ctx == 'imm':
                if reg is None or (reg['cb'], reg['cbname'], reg['key']) != (cb, cbname, key):
                    fail('immediate-unexpected', f'invocation {n}: callback {cb} {cbname} {key} outside its registration')
                else:
                    reg['got'].append([m, p, entry])
                    if fin == 'U':
                        reg['oneshot'] = True
            else:
                fin_pending()
                L = (cbname, kj(key))
                if msg is None:
                    fail('dispatch-outside-message', f'invocation {n}: callback {cb} {cbname} {key}')
                    continue
                if [m, p, entry] != [msg['m'], msg['p'], msg['e']]:
                    fail('callback-args', f"message {msg['i']}: callback {cb} got {[m, p, entry]}, the message means "
                                          f"{[msg['m'], msg['p'], msg['e']]}")
                if L not in msg['lv']:
                    fail('callback-level', f"message {msg['i']} ({msg['m']}:{msg['p']}): callback {cb} registered for "
                                           f"{cbname} {key} was invoked")
                    continue
                li = msg['lv'].index(L)
                if li < msg['cur']:
                    fail('callback-order', f"message {msg['i']}: {cbname} {key} dispatched after a later level")
                msg['cur'] = max(msg['cur'], li)
                msg['disp'].append((li, cb))
                if fin == 'U' and cb in R.get(L, []):
                    R[L].remove(cb)
                if fin == 'E':
                    pend = {'cb': cb, 'got': []}
    fin_pending()
    for cbname, key, lst in obs['lists']:
        exp = R.get((cbname, kj(key)), [])
        if Counter(lst) != Counter(exp):
            fail('registry-mismatch', f'at the end {cbname} {key} holds {lst}; registered and not unregistered '
                                      f'(explicitly or by UnregisterCallback): {exp}')
    got = [[m, p, e] for m, p, e in obs['cache']]
    exp = [[m, p, e] for (m, p), e in cache.items()]
    if got != exp:
        fail('cache-mismatch', f'final cache {got}, last messages {exp}')
    return fails


# =================================================================== encoding
FIN = {'ok': 'BOk', 'U': 'BUnreg', 'E': 'BExc'}


def encode_re(case, obs):
    P = _P()
    if obs['excs']:
        raise ValueError('implementation raised: ' + obs['excs'][0][1])
    T = P.Tables()

    def act(a):
        return '(%s %s %s %s)' % ('AcReg' if a[0] == 'reg' else 'AcUnreg', P.enc_ckey(a[1]), P.CBN[a[2]], gal.nat(a[3]))

    ops = []
    for i, op in enumerate(case['ops']):
        if op[0] == 'msg':
            ops.append('(RMsg (%s, %s) %s)' % (gal.string(op[1]), gal.string(op[2]), P.enc_entry(spec_entry(case, i), T)))
        else:
            ops.append('(%s %s %s %s)' % ('RReg' if op[0] == 'reg' else 'RUnreg', P.enc_ckey(op[1]), P.CBN[op[2]],
                                         gal.nat(op[3])))
    bh, log = [], []
    for x in obs['events']:
        if x[0] != 'inv':
            continue
        _, n, ctx, cb, cbname, key, m, p, entry, fin, done = x
        if done or fin != 'ok':
            bh.append('(%s, {| r_acts := [%s]; r_fin := %s |})' % (gal.nat(n), '; '.join(act(a) for a in done), FIN[fin]))
        if ctx == 'err':
            log.append(f'(RErr {gal.nat(cb)} {FIN[fin]})')
        else:
            log.append('(%s %s %s %s (%s, %s) %s %s)' % (
                'RDisp' if ctx == 'disp' else 'RImm', gal.nat(cb), P.CBN[cbname], P.enc_ckey(key), gal.string(m),
                gal.string(p), P.enc_entry(entry, T), FIN[fin]))
    cache = '[' + '; '.join(f'(({gal.string(m)}, {gal.string(p)}), {P.enc_entry(e, T)})' for m, p, e in obs['cache']) + ']'
    lists = '[' + '; '.join('(%s, %s, %s)' % (P.CBN[cn], P.enc_ckey(k), gal.lst(l, gal.nat)) for cn, k, l in obs['lists']) + ']'
    return 'CRe [%s] [%s] %s [%s] %s' % ('; '.join(bh), '; '.join(ops), cache, '; '.join(log), lists)


# =================================================================== generators
def sanitize(case):
    """generated domain: a callback that some callback unregisters from inside is not registered from inside"""
    targets = set()
    for pr in case['progs'].values():
        for acts, _fin in pr:
            for a in acts:
                if a[0] == 'unreg':
                    targets.add((a[2], a[3]))
    for cb, pr in list(case['progs'].items()):
        case['progs'][cb] = [[[a for a in acts if not (a[0] == 'reg' and (a[2], a[3]) in targets)], fin]
                             for acts, fin in pr]
    return case


def unregistered_then_oneshot(case, obs):
    """the pattern of finding C12/unregister-then-oneshot-breaks-dispatch occurred: a dispatched callback raised
    UnregisterCallback after a callback of the same message had unregistered it (from its list) by unregister_callback"""
    removed = set()
    for x in obs['events']:
        if x[0] == 'msg':
            removed = set()
        elif x[0] == 'unreg' and x[4] == 'act':
            removed.add((x[1], kj(x[2]), x[3]))
        elif x[0] == 'inv' and x[2] == 'disp' and x[9] == 'U' and (x[4], kj(x[5]), x[3]) in removed:
            return True
    return False


def gen_act(rng, near):
    key = near[0] if near and rng.random() < 0.6 else rng.choice(KEYS)
    cbname = near[1] if near and rng.random() < 0.6 else rng.choice(UPD + UPD + ['handleError'])
    if cbname == 'handleError':
        key = None
    cb = rng.randint(1, 6) if cbname != 'handleError' else rng.choice([7, 8])
    return ['reg' if rng.random() < 0.65 else 'unreg', key, cbname, cb]


def gen_unreg_oneshot_case(rng):
    """a callback unregisters others (possibly itself, possibly all: the dict entry is popped) on the list being
    dispatched; the unregistered ones raise UnregisterCallback when they are called from the copy"""
    key, cbname = rng.choice(KEYS), rng.choice(UPD)
    ids = rng.sample(range(1, 7), rng.randint(2, 4))
    ops = [['reg', key, cbname, c] for c in ids]
    if rng.random() < 0.5:
        ops.insert(rng.randint(0, len(ops)), ['reg', rng.choice(KEYS), rng.choice(UPD), rng.choice(ids)])
    if rng.random() < 0.3:
        ops.append(['reg', None, 'handleError', 7])
    m = key[0] if isinstance(key, list) else key if isinstance(key, str) else rng.choice(['m', 'dev'])
    pars = [p for p in PARS if p[0] == m and (not isinstance(key, list) or p == key)]
    for i in range(rng.randint(1, 3)):
        mp = rng.choice(pars) if rng.random() < 0.85 else rng.choice(PARS)
        ops.append(['msg', mp[0], mp[1], i + 1.5])
    a = rng.choice(ids)
    victims = [c for c in ids if rng.random() < 0.6] or [rng.choice(ids)]
    progs = {str(a): [[[['unreg', key, cbname, v] for v in victims], rng.choice(['ok', 'U', 'E'])]]}
    for v in victims:
        if v != a:
            progs[str(v)] = [[[], rng.choice(['U', 'U', 'ok', 'E'])]]
    return {'kind': 're', 'ops': ops, 'progs': progs}


def gen_re_case(rng):
    if rng.random() < 0.15:
        return gen_unreg_oneshot_case(rng)
    ops = []
    sites = []
    for _ in range(rng.randint(2, 5)):
        key, cbname, cb = rng.choice(KEYS), rng.choice(UPD), rng.randint(1, 6)
        sites.append((key, cbname))
        ops.append(['reg', key, cbname, cb])
    if rng.random() < 0.3:
        ops.append(['reg', None, 'handleError', rng.choice([7, 8])])
    val = 0
    for _ in range(rng.randint(2, 7)):
        r = rng.random()
        if r < 0.65:
            m, p = rng.choice(PARS)
            val += 1
            ops.append(['msg', m, p, val + 0.5])
        elif r < 0.85:
            key, cbname, cb = rng.choice(KEYS), rng.choice(UPD), rng.randint(1, 6)
            ops.append(['reg', key, cbname, cb])
        else:
            key, cbname = rng.choice(sites)
            ops.append(['unreg', key, cbname, rng.randint(1, 6)])
    progs = {}
    for cb in range(0, 9):
        if rng.random() < (0.55 if cb in range(1, 7) else 0.3):
            pr = []
            for _ in range(rng.randint(1, 2)):
                acts = []
                if 1 <= cb <= 6:
                    for _ in range(rng.choice([0, 1, 1, 2])):
                        a = gen_act(rng, rng.choice(sites))
                        if a[0] == 'reg' and a[2] != 'handleError' and a[3] <= cb:
                            # callbacks register only callbacks with a higher id: no cycles through which the lists
                            # would grow exponentially per message (a callback that registers itself again: see
                            # handover_cases)
                            if cb == 6:
                                a[0] = 'unreg'
                            else:
                                a[3] = rng.randint(cb + 1, 6)
                        acts.append(a)
                pr.append([acts, rng.choice(['ok', 'ok', 'U', 'U', 'E'])])
            progs[str(cb)] = pr
    return sanitize({'kind': 're', 'ops': ops, 'progs': progs})


def handover_cases():
    """a one shot callback hands over to a permanent one registered from inside itself (same list / other list), and a
    callback that unregisters another one; three messages each"""
    out = []
    for cbname in UPD:
        for key in (None, 'm', ['m', 'value']):
            for other in (key, ['m', 'value'] if key != ['m', 'value'] else None):
                msgs = [['msg', 'm', 'value', 1.5], ['msg', 'm', 'value', 2.5], ['msg', 'm', 'target', 7.5],
                        ['msg', 'm', 'value', 3.5]]
                out.append({'kind': 're', 'ops': [['reg', None, cbname, 3], ['reg', key, cbname, 1]] + msgs,
                            'progs': {'1': [[[['reg', other, cbname, 2]], 'U']]}})
                out.append({'kind': 're', 'ops': [['reg', key, cbname, 1], ['reg', key, cbname, 3]] + msgs,
                            'progs': {'1': [[[['reg', other, cbname, 2]], 'U']], '3': [[[], 'E']]}})
                out.append({'kind': 're', 'ops': [['reg', key, cbname, 1], ['reg', key, cbname, 3]] + msgs,
                            'progs': {'1': [[[['reg', key, cbname, 1]], 'U'], [[['reg', key, cbname, 1]], 'ok'], [[], 'U']]}})
                out.append({'kind': 're', 'ops': [['reg', key, cbname, 1], ['reg', other, cbname, 2], ['reg', key, cbname, 3]]
                            + msgs, 'progs': {'1': [[[['unreg', other, cbname, 2], ['reg', key, cbname, 4]], 'ok']],
                                              '4': [[[], 'U']]}})
    return out


def gen_re_cases(rng, tier):
    n = {'quick': 700, 'thorough': 12000, 'search': 4000}[tier]
    return handover_cases() + [gen_re_case(rng) for _ in range(n)]


def shrink(case):
    ops = case['ops']
    for i in range(len(ops) - 1, -1, -1):
        yield dict(case, ops=ops[:i] + ops[i + 1:])
    for cb, pr in case['progs'].items():
        rest = {k: v for k, v in case['progs'].items() if k != cb}
        yield dict(case, progs=rest)
        if len(pr) > 1:
            yield dict(case, progs=dict(rest, **{cb: pr[:-1]}))
        for j, (acts, fin) in enumerate(pr):
            for a in range(len(acts)):
                yield dict(case, progs=dict(rest, **{cb: pr[:j] + [[acts[:a] + acts[a + 1:], fin]] + pr[j + 1:]}))
            if fin != 'ok':
                yield dict(case, progs=dict(rest, **{cb: pr[:j] + [[acts, 'ok']] + pr[j + 1:]}))


def nontrivial_key(case, obs):
    if obs['excs'] or not any(x[0] == 'inv' and x[2] == 'disp' for x in obs['events']):
        return None
    return json.dumps([case['ops'], case['progs']], sort_keys=True)


def outcome_labels(case, obs):
    labs = {'re'}
    for x in obs['events']:
        if x[0] == 'inv':
            labs.add(f're:inv:{x[2]}:{x[9]}')
            for a in x[10]:
                labs.add('re:act:' + a[0] + (':same-list' if (a[1], a[2]) == (x[5], x[4]) else ':other-list'))
    return labs
