"""C20 concurrent layer (private helper of harness/props/C20.py): the REAL RemoteLogHandler / Dispatcher / Modules run by
several real threads under harness/dsched.py, interleaved at the granularity of the dict operations on the subscription
table.

threads of a case
    {'conn': i, 'ops': [['log', i, spec, level] | ['idn', i] | ['disc', i], ...]}
        the thread serving connection i: requests go through Dispatcher.handle_request (dispatcher lock), 'disc' is
        Dispatcher.remove_connection called WITHOUT that lock (as frappy/protocol/interface/*.finish does)
    {'emit': [[module, levelno], ...]}
        a module thread logging records (RemoteLogHandler.handle iterates the module's dict)

switch points (nothing in /repo is touched; everything is instance-level instrumentation, undone with the objects):
    * Dispatcher._lock is replaced by a dsched RLock wrapped so that acquire AND release are switch points and events
    * RemoteLogHandler.subscriptions is replaced by an (empty) recording dict subclass: every operation on the outer dict
      is a switch point + event; the `{}` the code passes to setdefault for a new module is replaced by an empty recording
      dict subclass, whose pop / item assignment / items() are events
    * the fake connection objects (the keys of the inner dicts) have a __hash__ that is a switch point: the switch happens
      after the code decided to operate on the inner dict and before the in-place operation takes effect (CPython hashes
      the key first); for a copy-on-write variant this is exactly between `copy` and `store back`
    * items() of an inner dict (handle takes its snapshot with list(subscriptions.items())) is a switch point and an event
      carrying the content of the dict at that moment; the REAL items view is returned, so a handle that iterates the live
      dict instead of a snapshot behaves as CPython makes it behave (RuntimeError when the size changes)
    * every send_reply of a fake connection (one per delivered log message) is a switch point and an event
one event is recorded immediately after each dict operation took effect (no switch point in between), so the global event
list is the order in which the atomic operations happened.
"""
import json

MAX_STEPS = 4000


class Order:
    """policy: whenever more than one thread can run, the next entry of `order` (worker numbers) that names a thread able
    to run decides; entries naming finished / waiting threads are skipped; after the list: keep the running thread"""

    def __init__(self, order):
        self.order = list(order)
        self.p = 0

    def __call__(self, n, enabled, current):
        if len(enabled) == 1:
            return enabled[0]
        while self.p < len(self.order):
            name = 't%d' % self.order[self.p]
            self.p += 1
            if name in enabled:
                return name
        return current if current in enabled else enabled[0]


def policy(spec):
    from harness import dsched
    if 'order' in spec:
        return Order(spec['order'])
    if 'seed' in spec:
        return dsched.Seeded(spec['seed'], spec.get('stick', 0.0))
    if 'explicit' in spec:
        return dsched.Explicit(spec['explicit'])
    return dsched.Preempt(spec.get('points', {}))


class Ctx:
    def __init__(self, sched, mods):
        self.s = sched
        self.mods = set(mods)
        self.events = []
        self.on = False
        self.clock = 0            # advances at every switch point and event: orders operation / emission boundaries

    def tid(self):
        t = self.s.current
        if t is not None and t.name[:1] == 't' and t.name[1:].isdigit():
            return int(t.name[1:])
        return -1

    def point(self, label):
        if self.on:
            self.clock += 1
            self.s.switch(label)

    def event(self, *ev):
        if self.on:
            self.clock += 1
            e = [self.tid()] + list(ev)
            self.events.append(e)
            return e
        return None

    def last_of(self, tid):
        for e in reversed(self.events):
            if e[0] == tid:
                return e
        return None


def _lev(v):
    """level stored in the table as JSON-able data (check_level may hand through a float equal to an int)"""
    if isinstance(v, bool):
        return repr(v)
    if isinstance(v, int):
        return v
    if isinstance(v, float) and v == v and v not in (float('inf'), float('-inf')) and v == int(v):
        return int(v)
    return repr(v)


def _cid(c):
    return getattr(c, 'i', None) if getattr(c, 'i', None) is not None else repr(c)


def make_classes(ctx):
    class RecInner(dict):
        """the per-module dict {conn: level}; the switch point of its operations is the __hash__ of the key"""
        mod = '?'

        def pop(self, key, *default):
            r = dict.pop(self, key, *default)
            ctx.event('pop', self.mod, _cid(key))
            return r

        def __setitem__(self, key, value):
            dict.__setitem__(self, key, value)
            ctx.event('set', self.mod, _cid(key), _lev(value))

        def items(self):
            ctx.point('items:' + self.mod)
            ctx.event('snap', self.mod, [[_cid(c), _lev(v)] for c, v in dict.items(self)])
            return dict.items(self)

        # anything else the real code does not do: recorded as an event the model does not know
        def __delitem__(self, key):
            dict.__delitem__(self, key)
            ctx.event('bad', 'inner.__delitem__', self.mod)

        def setdefault(self, key, default=None):
            r = dict.setdefault(self, key, default)
            ctx.event('bad', 'inner.setdefault', self.mod)
            return r

        def update(self, *a, **k):
            dict.update(self, *a, **k)
            ctx.event('bad', 'inner.update', self.mod)

        def clear(self):
            dict.clear(self)
            ctx.event('bad', 'inner.clear', self.mod)

        def popitem(self):
            r = dict.popitem(self)
            ctx.event('bad', 'inner.popitem', self.mod)
            return r

        def __iter__(self):
            ctx.event('bad', 'inner.__iter__', self.mod)
            return dict.__iter__(self)

        def keys(self):
            ctx.event('bad', 'inner.keys', self.mod)
            return dict.keys(self)

        def values(self):
            ctx.event('bad', 'inner.values', self.mod)
            return dict.values(self)

        def copy(self):
            ctx.event('bad', 'inner.copy', self.mod)
            return dict.copy(self)

    class RecOuter(dict):
        """RemoteLogHandler.subscriptions; operations on names that are not modules of the case (the dispatcher's own
        logger also passes through the handler) are neither switch points nor events"""

        def _mine(self, key):
            return isinstance(key, str) and key in ctx.mods

        def setdefault(self, key, default=None):
            if not self._mine(key):
                return dict.setdefault(self, key, default)
            ctx.point('setdefault:' + key)
            if not dict.__contains__(self, key) and type(default) is dict and not default:
                default = RecInner()
                default.mod = key
            r = dict.setdefault(self, key, default)
            ctx.event('sd', key)
            return r

        def __getitem__(self, key):
            if not self._mine(key):
                return dict.__getitem__(self, key)
            ctx.point('getitem:' + key)
            try:
                r = dict.__getitem__(self, key)
            except KeyError:
                ctx.event('get', key, False)
                raise
            ctx.event('get', key, True)
            return r

        def _other(self, what, key):
            if self._mine(key):
                ctx.point(what + ':' + key)
                return True
            return False

        def get(self, key, default=None):
            mine = self._other('outer.get', key)
            r = dict.get(self, key, default)
            if mine:
                ctx.event('bad', 'outer.get', key)
            return r

        def __setitem__(self, key, value):
            mine = self._other('outer.__setitem__', key)
            dict.__setitem__(self, key, value)
            if mine:
                ctx.event('bad', 'outer.__setitem__', key)

        def __delitem__(self, key):
            mine = self._other('outer.__delitem__', key)
            dict.__delitem__(self, key)
            if mine:
                ctx.event('bad', 'outer.__delitem__', key)

        def pop(self, key, *default):
            mine = self._other('outer.pop', key)
            r = dict.pop(self, key, *default)
            if mine:
                ctx.event('bad', 'outer.pop', key)
            return r

        def __contains__(self, key):
            mine = self._other('outer.__contains__', key)
            r = dict.__contains__(self, key)
            if mine:
                ctx.event('bad', 'outer.__contains__', key)
            return r

    class RecLock:
        """Dispatcher._lock: a dsched RLock; acquire (dsched) and release (here) are switch points, both are events"""

        def __init__(self):
            self.inner = ctx.s.RLock()

        def acquire(self, blocking=True, timeout=-1):
            r = self.inner.acquire(blocking, timeout)
            if r:
                ctx.event('acq')
            return r

        def release(self, exc=None):
            ctx.point('release')
            self.inner.release()
            ctx.event('rel', exc)

        def __enter__(self):
            return self.acquire()

        def __exit__(self, t, v, tb):
            self.release(t.__name__ if t is not None else None)

    class CConn:
        """fake connection; hashing it (done by every dict / set operation with it as key) is a switch point"""

        def __init__(self, i):
            self.i = i
            self.got = []

        def __hash__(self):
            ctx.point('hash:c%d' % self.i)
            return self.i * 7919 + 13

        def __eq__(self, other):
            return self is other

        def send_reply(self, msg):
            ctx.point('send:c%d' % self.i)
            self.got.append(msg)
            if ctx.on:
                try:
                    action, spec, data = msg
                    modname, _, lev = spec.partition(':')
                    ctx.event('send', self.i, action, modname, lev, json.loads(json.dumps(data, default=repr)))
                except Exception:
                    ctx.event('bad', 'send', repr(msg))

    return RecOuter, RecLock, CConn


def run_conc(case, build_node, exec_op, collect):
    """build_node(case, conn_class, handler_hook) -> (disp, conns, mods, flog); exec_op / collect: the sequential helpers of
    run_route (one operation -> (exc, reply, pyname); collect -> messages per connection since the last call)"""
    from harness import dsched
    import logging

    s = dsched.Scheduler(policy(case['sched']), max_steps=MAX_STEPS)
    ctx = Ctx(s, case['mods'])
    RecOuter, RecLock, CConn = make_classes(ctx)
    handlers = []

    def hook(handler):
        handler.subscriptions = RecOuter()
        handlers.append(handler)

    disp, conns, mods, flog = build_node(case, CConn, hook)
    disp._lock = RecLock()        # instance attribute of this Dispatcher object only
    handler = handlers[0]

    def seq(ops, base):
        steps = []
        for k, op in enumerate(ops):
            exc, reply, pyname = exec_op(disp, conns, mods, op, base + k)
            steps.append({'exc': exc, 'sent': collect(conns), 'pyname': pyname, 'reply': reply})
        return steps

    pre_steps = seq(case['pre'], 0)
    nthreads = len(case['threads'])
    results = [[] for _ in range(nthreads)]

    def body(k, th):
        # t0 / t1: clock when the operation started / had returned
        if 'conn' in th:
            for j, op in enumerate(th['ops']):
                t0 = ctx.clock
                exc, reply, _ = exec_op(disp, conns, mods, op, 1000 * (k + 1) + j)
                results[k].append({'exc': exc, 'reply': reply, 't0': t0, 't1': ctx.clock})
        else:
            for j, (m, lv) in enumerate(th['emit']):
                t0 = ctx.clock
                exc, _, pyname = exec_op(disp, conns, mods, ['emit', m, lv], 1000 * (k + 1) + j)
                results[k].append({'exc': exc, 'pyname': pyname, 't0': t0, 't1': ctx.clock})

    def main():
        ts = [s.spawn(body, 't%d' % k, k, th) for k, th in enumerate(case['threads'])]
        s.block('joinall', lambda: all(not t.is_alive() for t in ts))

    ctx.on = True
    try:
        res = s.run(main)
    finally:
        ctx.on = False
    during = collect(conns)          # messages sent while the threads ran (also recorded inside the 'next' events)
    table = []
    for m, d in dict.items(handler.subscriptions):
        try:
            table.append([m, [[_cid(c), _lev(v)] for c, v in dict.items(d)]])
        except Exception as e:
            table.append([m, repr(e)])
    # message texts carry the position of the record in the history `pre + thread operations + sweep`
    sweep_steps = seq(case['sweep'], len(case['pre']) + sum(len(th.get('ops', [])) for th in case['threads']))
    return {'status': res.status, 'decisions': res.decisions, 'thread_errors': res.thread_errors,
            'main_error': res.error, 'events': ctx.events, 'results': results, 'pre': pre_steps, 'during': during,
            'table': table, 'sweep': sweep_steps, 'levels': [[k, v] for k, v in flog.LOG_LEVELS.items()]}
