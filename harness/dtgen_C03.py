"""C03 helpers on top of harness/dtgen.py: described datatypes (with unit, fmtstr, resolutions, enum name, TextType,
client flag) <-> real frappy datatypes <-> Gallina `xt` terms; datainfo JSON <-> Gallina `pyval`; generators.

Descriptor (generator side; optional keys may be absent):
  {'t':'float','min':F,'max':F,'abs':F,'rel':F,'unit':str,'fmt':str}       {'t':'int','min':int,'max':int}
  {'t':'scaled','scale':F,'min':F,'max':F,'abs':F,'rel':F,'unit':str,'fmt':str}
  {'t':'bool'}  {'t':'enum','name':str,'members':[[name,int],..]}
  {'t':'string','min':int,'max':int,'utf8':bool}  {'t':'text','max':int}  {'t':'blob','min':int,'max':int}
  {'t':'array','elem':D,'min':int,'max':int}  {'t':'tuple','elems':[D..]}
  {'t':'struct','members':[[name,D],..],'optional':[name..],'client':bool}
describe(obj) returns the same shape with every field read back from the real object (the `exact descriptor`).
"""
import math

from harness import gal
from harness import dtgen as G

UNL = 1 << 64


# ---------------------------------------------------------------- build / describe
def build(d):
    from frappy import datatypes as dt
    t = d['t']
    if t in ('float', 'scaled'):
        kw = {}
        for k, pk in (('abs', 'absolute_resolution'), ('rel', 'relative_resolution')):
            if k in d:
                kw[pk] = G.dec_float(d[k])
        if 'unit' in d:
            kw['unit'] = d['unit']
        if 'fmt' in d:
            kw['fmtstr'] = d['fmt']
        if t == 'float':
            return dt.FloatRange(G.dec_float(d['min']), G.dec_float(d['max']), **kw)
        return dt.ScaledInteger(G.dec_float(d['scale']), G.dec_float(d['min']), G.dec_float(d['max']), **kw)
    if t == 'int':
        return dt.IntRange(d['min'], d['max'])
    if t == 'bool':
        return dt.BoolType()
    if t == 'enum':
        return dt.EnumType(d.get('name', ''), members={n: v for n, v in d['members']})
    if t == 'string':
        return dt.StringType(d['min'], d['max'], isUTF8=d['utf8'])
    if t == 'text':
        return dt.TextType(d.get('max'))
    if t == 'blob':
        return dt.BLOBType(d['min'], d['max'])
    if t == 'array':
        return dt.ArrayOf(build(d['elem']), d['min'], d['max'])
    if t == 'tuple':
        return dt.TupleOf(*[build(x) for x in d['elems']])
    if t == 'struct':
        s = dt.StructOf(optional=list(d['optional']), **{n: build(x) for n, x in d['members']})
        s.client = bool(d.get('client', False))
        return s
    # TupleOf SUBCLASSES and the plain tuples they turn into (compat cases only; describe() erases them to 'tuple')
    if t == 'status':
        return dt.StatusType(*d['names'], **{n: v for n, v in d.get('extra', [])})
    if t == 'limits':
        return dt.LimitsType(build(d['member']))
    if t == 'via':
        o = build(d['of'])
        if d['how'] == 'copy':
            return o.copy()
        import json
        return dt.get_datatype(json.loads(json.dumps(o.export_datatype())), d.get('pname', ''))
    raise ValueError(d)


STATUS_CODES = {'DISABLED': 0, 'IDLE': 100, 'STANDBY': 130, 'PREPARED': 150, 'WARN': 200, 'WARN_STANDBY': 230,
                'WARN_PREPARED': 250, 'UNSTABLE': 270, 'BUSY': 300, 'DISABLING': 310, 'INITIALIZING': 320, 'PREPARING': 340,
                'STARTING': 360, 'RAMPING': 370, 'STABILIZING': 380, 'FINALIZING': 390, 'ERROR': 400, 'ERROR_STANDBY': 430,
                'ERROR_PREPARED': 450, 'UNKNOWN': 401}      # SECoP status codes (specification side)


def plain(d):
    """generator descriptor -> descriptor of the plain tree a subclass tuple is a description of (specification side:
    a status is the tuple (enum of status codes, string), limits are the tuple (member, member))"""
    t = d['t']
    if t == 'status':
        ms = sorted([[n, STATUS_CODES[n]] for n in d['names']] + [list(m) for m in d.get('extra', [])], key=lambda m: m[1])
        return {'t': 'tuple', 'elems': [{'t': 'enum', 'name': 'Status', 'members': ms},
                                        {'t': 'string', 'min': 0, 'max': UNL, 'utf8': False}]}
    if t == 'limits':
        m = plain(d['member'])
        return {'t': 'tuple', 'elems': [m, m]}
    if t == 'via':
        return plain(d['of'])
    if t == 'array':
        return dict(d, elem=plain(d['elem']))
    if t == 'tuple':
        return dict(d, elems=[plain(x) for x in d['elems']])
    if t == 'struct':
        return dict(d, members=[[n, plain(x)] for n, x in d['members']])
    return d


def describe(obj):
    """real datatype object -> exact descriptor"""
    from frappy import datatypes as dt
    f = lambda x: G.enc_float(float(x))
    if isinstance(obj, dt.FloatRange):
        return {'t': 'float', 'min': f(obj.min), 'max': f(obj.max), 'abs': f(obj.absolute_resolution),
                'rel': f(obj.relative_resolution), 'unit': obj.unit, 'fmt': obj.fmtstr}
    if isinstance(obj, dt.IntRange):
        return {'t': 'int', 'min': int(obj.min), 'max': int(obj.max)}
    if isinstance(obj, dt.ScaledInteger):
        return {'t': 'scaled', 'scale': f(obj.scale), 'min': f(obj.min), 'max': f(obj.max),
                'abs': f(obj.absolute_resolution), 'rel': f(obj.relative_resolution), 'unit': obj.unit, 'fmt': obj.fmtstr}
    if isinstance(obj, dt.BoolType):
        return {'t': 'bool'}
    if isinstance(obj, dt.EnumType):
        return {'t': 'enum', 'name': obj._enum.name, 'members': [[m.name, int(m.value)] for m in obj._enum.members]}
    if isinstance(obj, dt.StringType):
        return {'t': 'string', 'min': int(obj.minchars), 'max': int(obj.maxchars), 'utf8': bool(obj.isUTF8),
                'text': isinstance(obj, dt.TextType)}
    if isinstance(obj, dt.BLOBType):
        return {'t': 'blob', 'min': int(obj.minbytes), 'max': int(obj.maxbytes)}
    if isinstance(obj, dt.ArrayOf):
        return {'t': 'array', 'elem': describe(obj.members), 'min': int(obj.minlen), 'max': int(obj.maxlen)}
    if isinstance(obj, dt.TupleOf):
        return {'t': 'tuple', 'elems': [describe(m) for m in obj.members]}
    if isinstance(obj, dt.StructOf):
        return {'t': 'struct', 'members': [[n, describe(m)] for n, m in obj.members.items()],
                'optional': list(obj.optional), 'client': bool(obj.client)}
    raise ValueError(f'cannot describe {obj!r}')


def gal_xt(e):
    """exact descriptor -> Gallina xt term"""
    t = e['t']
    gf = G.gal_float
    s = gal.string
    if t == 'float':
        return '(XFloat %s %s %s %s %s %s)' % (gf(e['min']), gf(e['max']), gf(e['abs']), gf(e['rel']), s(e['unit']), s(e['fmt']))
    if t == 'int':
        return f'(XInt {gal.z(e["min"])} {gal.z(e["max"])})'
    if t == 'scaled':
        return '(XScaled %s %s %s %s %s %s %s)' % (gf(e['scale']), gf(e['min']), gf(e['max']), gf(e['abs']), gf(e['rel']),
                                                 s(e['unit']), s(e['fmt']))
    if t == 'bool':
        return 'XBool'
    if t == 'enum':
        return '(XEnum %s %s)' % (s(e['name']), gal.lst(e['members'], lambda p: f'({s(p[0])}, {gal.z(p[1])})'))
    if t == 'string':
        return f'(XString {gal.z(e["min"])} {gal.z(e["max"])} {gal.boolean(e["utf8"])} {gal.boolean(e.get("text", False))})'
    if t == 'blob':
        return f'(XBlob {gal.z(e["min"])} {gal.z(e["max"])})'
    if t == 'array':
        return f'(XArray {gal_xt(e["elem"])} {gal.z(e["min"])} {gal.z(e["max"])})'
    if t == 'tuple':
        return '(XTuple %s)' % gal.lst(e['elems'], gal_xt)
    if t == 'struct':
        return '(XStruct %s %s %s)' % (gal.lst(e['members'], lambda p: f'({s(p[0])}, {gal_xt(p[1])})'),
                                       gal.lst(e['optional'], s), gal.boolean(e['client']))
    raise ValueError(e)


def to_g(d):
    """(exact or generator) descriptor -> dtgen descriptor (validation-relevant part)"""
    t = d['t']
    if t in ('status', 'limits', 'via'):
        return to_g(plain(d))
    if t == 'text':
        return {'t': 'string', 'min': 0, 'max': UNL if d.get('max') is None else d['max'], 'utf8': False}
    if t == 'array':
        return dict(d, elem=to_g(d['elem']))
    if t == 'tuple':
        return dict(d, elems=[to_g(x) for x in d['elems']])
    if t == 'struct':
        return dict(d, members=[[n, to_g(x)] for n, x in d['members']])
    return d


# ---------------------------------------------------------------- datainfo JSON <-> tagged / Gallina
def tag_json(j):
    """JSON value -> tagged value; object keys sorted by code points, except for the name -> X table that is the
    "members" entry of a struct / enum description (its order is meaningful)"""
    if isinstance(j, dict):
        if not all(isinstance(k, str) for k in j):
            return ['opaque']
        ty = j.get('type')
        out = []
        for k in sorted(j):
            v = j[k]
            if k == 'members' and isinstance(v, dict) and ty in ('struct', 'enum') and all(isinstance(n, str) for n in v):
                out.append([G.cps(k), ['dict', [[G.cps(n), tag_json(x)] for n, x in v.items()]]])
            else:
                out.append([G.cps(k), tag_json(v)])
        return ['dict', out]
    if isinstance(j, (list, tuple)):
        return ['list', [tag_json(x) for x in j]]
    return G.tag(j)


def untag_json(t):
    return G.untag(t)


# ---------------------------------------------------------------- spec-side datainfo (SECoP), independent of the code
def spec_datainfo(d, rng=None, explicit=True):
    """datainfo of descriptor d as the SECoP specification writes it (all limits explicit)"""
    t = d['t']
    f = G.dec_float
    if t == 'float':
        r = {'type': 'double', 'min': f(d['min']), 'max': f(d['max'])}
        for k, pk in (('abs', 'absolute_resolution'), ('rel', 'relative_resolution')):
            if k in d:
                r[pk] = f(d[k])
        if 'unit' in d:
            r['unit'] = d['unit']
        if 'fmt' in d:
            r['fmtstr'] = d['fmt']
        return r
    if t == 'int':
        return {'type': 'int', 'min': d['min'], 'max': d['max']}
    if t == 'scaled':
        s = f(d['scale'])
        r = {'type': 'scaled', 'scale': s, 'min': round(f(d['min']) / s), 'max': round(f(d['max']) / s)}
        for k, pk in (('abs', 'absolute_resolution'), ('rel', 'relative_resolution')):
            if k in d:
                r[pk] = f(d[k])
        if 'unit' in d:
            r['unit'] = d['unit']
        if 'fmt' in d:
            r['fmtstr'] = d['fmt']
        return r
    if t == 'bool':
        return {'type': 'bool'}
    if t == 'enum':
        return {'type': 'enum', 'members': {n: v for n, v in d['members']}}
    if t == 'string':
        r = {'type': 'string', 'minchars': d['min'], 'isUTF8': d['utf8']}
        if d['max'] != UNL:
            r['maxchars'] = d['max']
        return r
    if t == 'text':
        return {'type': 'string'} if d.get('max') is None else {'type': 'string', 'maxchars': d['max']}
    if t == 'blob':
        return {'type': 'blob', 'minbytes': d['min'], 'maxbytes': d['max']}
    if t == 'array':
        return {'type': 'array', 'minlen': d['min'], 'maxlen': d['max'], 'members': spec_datainfo(d['elem'])}
    if t == 'tuple':
        return {'type': 'tuple', 'members': [spec_datainfo(x) for x in d['elems']]}
    r = {'type': 'struct', 'members': {n: spec_datainfo(x) for n, x in d['members']}}
    if set(d['optional']) != {n for n, _ in d['members']}:
        r['optional'] = list(d['optional'])
    return r


# ---------------------------------------------------------------- generators
UNITS = ['K', '$', '$/min', 'µm', 'mm/s']
FMTS = ['%.3f', '%g', '%d mm', '%.1e']


def _float_extras(rng, d, scale=None):
    if rng.random() < 0.35:
        d['abs'] = G.enc_float(rng.choice([0.0, 0.5, 1e-3] + ([scale] if scale else [1.0])))
    if rng.random() < 0.35:
        d['rel'] = G.enc_float(rng.choice([0.0, 1.2e-7, 0.01, 0.5]))
    if rng.random() < 0.4:
        d['unit'] = rng.choice(UNITS)
    if rng.random() < 0.3:
        d['fmt'] = rng.choice(FMTS)
    return d


def rand_xt(rng, depth, special=True):
    """random descriptor; special=True also draws the shapes known to be exported lossily (see findings)"""
    kinds = ['float', 'int', 'scaled', 'bool', 'enum', 'string', 'blob', 'text']
    if depth > 0:
        kinds += ['array', 'tuple', 'struct'] * 3
    t = rng.choice(kinds)
    if t == 'float':
        a, b = G.rand_float_limits(rng)
        a, b = a + 0.0, b + 0.0
        return _float_extras(rng, {'t': 'float', 'min': G.enc_float(a), 'max': G.enc_float(b)})
    if t == 'int':
        return G.rand_type(_Only(rng, 'int'), 0)
    if t == 'scaled':
        scale = rng.choice([0.1, 1e-3, 0.5, 0.25, 1.0, 2.0, 1 / 3, 1e-5, 10.0])
        ks = [-1000, -10, -1, 0, 1, 5, 10, 1000, 2 ** 24]
        k1, k2 = sorted([rng.choice(ks), rng.choice(ks)])
        if rng.random() < 0.2:
            k2 = k1
        a, b = k1 * scale, k2 * scale
        if special and rng.random() < 0.12:                       # limits off the grid
            a, b = a + scale / 3, b + scale / 2 + scale / 3
        return _float_extras(rng, {'t': 'scaled', 'scale': G.enc_float(scale), 'min': G.enc_float(a + 0.0),
                                   'max': G.enc_float(b + 0.0)}, scale)
    if t == 'bool':
        return {'t': 'bool'}
    if t == 'enum':
        n = rng.randint(1, 4)
        names = rng.sample(G.NAMES, n)
        vals = rng.sample([0, 1, 2, 3, 5, 10, -1, 100], n)
        return {'t': 'enum', 'name': rng.choice(['e', '', 'Status']), 'members': [[a, b] for a, b in zip(names, vals)]}
    if t == 'string':
        a = rng.choice([0, 0, 1, 3])
        b = rng.choice([a, a + 2, 10, UNL])
        if a and b == UNL and not special:
            b = 10
        return {'t': 'string', 'min': a, 'max': max(a, b), 'utf8': rng.random() < 0.5}
    if t == 'text':
        return {'t': 'text', 'max': rng.choice([None, 5, 100])}
    if t == 'blob':
        a = rng.choice([0, 0, 1, 3])
        b = max(a, rng.choice([a, a + 2, 10, 255]), 1)
        if special and rng.random() < 0.08:
            a, b = 0, 0
        return {'t': 'blob', 'min': a, 'max': b}
    if t == 'array':
        a = rng.choice([0, 0, 1, 2])
        b = rng.choice([a, a + 1, 3, 100])
        return {'t': 'array', 'elem': rand_xt(rng, depth - 1, special), 'min': a, 'max': max(a, b, 0 if rng.random() < 0.1 else 1)}
    if t == 'tuple':
        return {'t': 'tuple', 'elems': [rand_xt(rng, depth - 1, special) for _ in range(rng.randint(1, 3))]}
    n = rng.randint(1, 3)
    names = rng.sample(G.NAMES, n)
    members = [[nm, rand_xt(rng, depth - 1, special)] for nm in names]
    r = rng.random()
    optional = list(names) if r < 0.3 else [] if r < 0.6 else [nm for nm in names if rng.random() < 0.5]
    if rng.random() < 0.2:
        rng.shuffle(optional)
    return {'t': 'struct', 'members': members, 'optional': optional, 'client': False}


class _Only:
    """rng proxy forcing dtgen.rand_type to a given kind (first choice call)"""
    def __init__(self, rng, kind):
        self._rng, self._kind, self._first = rng, kind, True

    def choice(self, seq):
        if self._first:
            self._first = False
            return self._kind
        return self._rng.choice(seq)

    def __getattr__(self, k):
        return getattr(self._rng, k)


def widen(rng, d):
    """a descriptor whose value set contains (or nearly contains) that of d: the partner for compatible()"""
    t = d['t']
    f = G.dec_float
    r = rng.random()
    if t == 'int':
        a, b = d['min'], d['max']
        if r < 0.45:
            return {'t': 'int', 'min': max(-UNL, a - rng.choice([0, 0, 1, 10])), 'max': min(UNL, b + rng.choice([0, 0, 1, 10]))}
        if r < 0.6:
            lo, hi = float(a) - rng.choice([0, 1]), float(b) + rng.choice([0, 1])
            return {'t': 'float', 'min': G.enc_float(min(lo, hi)), 'max': G.enc_float(max(lo, hi))}
        if r < 0.7 and abs(a) < 10 ** 6 and abs(b) < 10 ** 6:
            s = rng.choice([0.5, 0.1, 1.0])
            return {'t': 'scaled', 'scale': G.enc_float(s), 'min': G.enc_float(round((a - 1) / s) * s),
                    'max': G.enc_float(round((b + 1) / s) * s)}
        if r < 0.85 and 0 <= b - a <= 4:
            vals = list(range(a, b + 1)) + ([b + 5] if rng.random() < 0.5 else [])
            if rng.random() < 0.3:
                vals = vals[1:] or vals
            return {'t': 'enum', 'name': 'w', 'members': [[f'm{i}', v] for i, v in enumerate(vals)]}
        return {'t': 'bool'}
    if t == 'float':
        a, b = f(d['min']), f(d['max'])
        if r < 0.6:
            lo = a - rng.choice([0, 0, 1, abs(a) * 1e-9]) if abs(a) < 1e300 else a
            hi = b + rng.choice([0, 0, 1, abs(b) * 1e-9]) if abs(b) < 1e300 else b
            return _float_extras(rng, {'t': 'float', 'min': G.enc_float(lo + 0.0), 'max': G.enc_float(hi + 0.0)})
        if r < 0.8 and abs(a) < 1e6 and abs(b) < 1e6:
            s = rng.choice([0.5, 0.1, 1e-3])
            return {'t': 'scaled', 'scale': G.enc_float(s), 'min': G.enc_float(math.floor(a / s) * s + 0.0),
                    'max': G.enc_float(math.ceil(b / s) * s + 0.0)}
        return {'t': 'float', 'min': G.enc_float(a + 0.0), 'max': G.enc_float(b + 0.0)}
    if t == 'scaled':
        a, b, s = f(d['min']), f(d['max']), f(d['scale'])
        if r < 0.5:
            return {'t': 'scaled', 'scale': d['scale'], 'min': G.enc_float(a - rng.choice([0, s, 5 * s]) + 0.0),
                    'max': G.enc_float(b + rng.choice([0, s, 5 * s]) + 0.0)}
        return {'t': 'float', 'min': G.enc_float(a - rng.choice([0, 0, 1]) + 0.0), 'max': G.enc_float(b + rng.choice([0, 0, 1]) + 0.0)}
    if t == 'bool':
        return rng.choice([{'t': 'bool'}, {'t': 'int', 'min': 0, 'max': 1}, {'t': 'int', 'min': 5, 'max': 10},
                           {'t': 'enum', 'name': 'b', 'members': [['off', 0], ['on', 1]]},
                           {'t': 'float', 'min': G.enc_float(2.0), 'max': G.enc_float(3.0)}])
    if t == 'enum':
        ms = [list(m) for m in d['members']]
        if r < 0.5:
            ms.append(['extra', 77])
        elif r < 0.65 and len(ms) > 1:
            ms = ms[1:]
        elif r < 0.75:
            return {'t': 'int', 'min': min(v for _, v in ms), 'max': max(v for _, v in ms)}
        elif r < 0.8:
            return {'t': 'bool'}
        return {'t': 'enum', 'name': 'w', 'members': [[n if rng.random() < 0.8 else n + '_', v] for n, v in ms]}
    if t in ('string', 'text'):
        g = to_g(d)
        a, b = g['min'], g['max']
        return {'t': 'string', 'min': max(0, a - rng.choice([0, 0, 1])), 'max': min(UNL, b + rng.choice([0, 0, 1, 5])),
                'utf8': g['utf8'] or rng.random() < 0.5}
    if t == 'blob':
        return {'t': 'blob', 'min': max(0, d['min'] - rng.choice([0, 0, 1])), 'max': d['max'] + rng.choice([0, 0, 1, 5])}
    if t == 'array':
        return {'t': 'array', 'elem': widen(rng, d['elem']), 'min': max(0, d['min'] - rng.choice([0, 0, 1])),
                'max': d['max'] + rng.choice([0, 0, 1])}
    if t == 'tuple':
        es = [widen(rng, x) for x in d['elems']]
        if r < 0.1:
            es = es + [{'t': 'bool'}]
        return {'t': 'tuple', 'elems': es}
    ms = [[n, widen(rng, x)] for n, x in d['members']]
    opt = list(d['optional'])
    if r < 0.25:
        ms.append(['zz', {'t': 'bool'}])
        if rng.random() < 0.6:
            opt.append('zz')
    elif r < 0.4 and opt:
        opt = opt[1:]                                          # an optional member becomes mandatory
    elif r < 0.55:
        opt = [n for n, _ in ms]
    elif r < 0.62 and len(ms) > 1:
        ms = ms[1:]
        opt = [n for n in opt if n in dict(ms)]
    return {'t': 'struct', 'members': ms, 'optional': opt, 'client': False}


def rand_subclass_pair(rng):
    """(a, b) for compatible(): a TupleOf SUBCLASS (StatusType / LimitsType) against the plain TupleOf it is exported
    as (JSON round trip, copy(), the same tree built directly, wider members), the reverse, and subclass pairs.
    Not drawn: plain TupleOf(m, m) -> LimitsType(m) (see notes/C03.md, 'subclass tuples')."""
    if rng.random() < 0.5:
        names = rng.sample(sorted(STATUS_CODES), rng.randint(1, 4))
        extra = [[n, v] for n, v in zip(rng.sample(['custom', 'x1', 'Odd'], rng.randint(0, 2)), rng.sample([7, 105, 999, -3], 2))]
        s = {'t': 'status', 'names': names, 'extra': extra}
    else:
        k = rng.choice(['float', 'float', 'int', 'scaled'])
        while True:
            m = rand_xt(rng, 0, special=False)
            if m['t'] == k:
                break
        s = {'t': 'limits', 'member': m}
    r = rng.random()
    if r < 0.2:
        return s, {'t': 'via', 'how': 'json', 'of': s, 'pname': rng.choice(['', 'p'])}
    if r < 0.35:
        return s, {'t': 'via', 'how': 'copy', 'of': s}
    if r < 0.45:
        return s, plain(s)
    if r < 0.65:
        return s, widen(rng, plain(s))
    if r < 0.72:
        return s, s
    if r < 0.8 and s['t'] == 'limits':
        return s, {'t': 'limits', 'member': widen(rng, s['member'])}
    if s['t'] == 'limits':                                    # narrower on the right: must not pass unsoundly
        return {'t': 'limits', 'member': widen(rng, s['member'])}, {'t': 'via', 'how': 'json', 'of': s}
    # reverse: the plain tuple on the left, the status subclass on the right
    a = rng.choice([{'t': 'via', 'how': 'json', 'of': s}, {'t': 'via', 'how': 'copy', 'of': s}, plain(s)])
    if rng.random() < 0.3 and len(s['names']) > 1:
        return a, dict(s, names=s['names'][1:])                # right side lacks a code
    return a, s
