"""C09 helper (private to property C09): runs small programs on the REAL frappy code in a FRESH interpreter.

Some state of frappy is process wide (class level dicts such as `HasProperties.propertyDict` of a datatype class, the
per class wrapper cache, ...).  A worker process of the harness has executed hundreds of other cases before, so a
defect that depends on "which classes were defined earlier in this process" cannot be observed there.  This script is
started as `python -m harness.c09_fresh` (PYTHONPATH inherited from ./check), reads {'runs': [prog, ...]} from stdin,
imports frappy ONCE and executes every prog in a child forked from that pristine interpreter (a child never sees what
another child did), prints the list of results as JSON.

prog = {'kind': 'arr', 'steps': [['class', spec] | ['inst', class index, cfg]]}
       class definitions (single inheritance chains below frappy.core.Readable) with ArrayOf / scalar parameters whose
       element properties are given through Parameter(..., unit=, min=, max=, fmtstr=, maxchars=) / an overriding
       Parameter(max=..) in a subclass / the configuration; a snapshot of every class and instance after every step
prog = {'kind': 'cfg', 'classes': [spec], 'pool': [dict], 'mods': [[name, class index, {param: pool index}, {prop: v}]],
        'rounds': n, 'direct': bool}
       a configuration (frappy.config.Mod / Param objects; a Param object of the pool may be used by several modules) is
       built ONCE, then the node is created `rounds` times from the same srv.module_cfg through the real
       SecNode.create_modules (= Server.restart(): Server.run calls _processCfg again, the configuration is not loaded
       again); the deep content of the configuration is recorded before the first and after every round
"""
import json
import os
import sys

ARR_PROBES = [[], [-1.0], [0.5], [7], [100.0], [275.0], [1000], [0.5] * 3, [0.5] * 9, ['a'], ['abcdefghijkl'], 3.0]
SCAL_PROBES = [-1000, -1, 0, 0.5, 3, 7, 20, 75, 100, 250, 1000]


class _Log:
    handlers = []
    parent = None

    def __init__(self):
        self.parent = self

    def getChild(self, *a):
        return self

    def debug(self, *a, **k):
        pass
    info = warning = error = exception = critical = log = debug


class _Dispatcher:
    def announce_update(self, *a, **k):
        pass


class _Srv:
    def __init__(self, module_cfg=None):
        self.module_cfg = module_cfg if module_cfg is not None else {}
        self.dispatcher = _Dispatcher()
        self.log = _Log()
        self.secnode = None


def _canon(v):
    """JSON-able canonical form of a value / configuration (deep)"""
    if isinstance(v, dict):
        return {str(k): _canon(x) for k, x in sorted(v.items(), key=lambda kv: str(kv[0]))}
    if isinstance(v, (list, tuple)):
        return [_canon(x) for x in v]
    if isinstance(v, bool) or v is None or isinstance(v, str):
        return v
    if isinstance(v, int):
        return v
    if isinstance(v, float):
        return int(v) if v == int(v) and abs(v) < 1e15 else v
    if isinstance(v, type):
        return f'<class {v.__name__}>'
    return repr(v)


def mk_dt(spec):
    from frappy.datatypes import FloatRange, IntRange, StringType
    kind = spec[0]
    if kind == 'float':
        kw = {}
        if len(spec) > 3 and spec[3] is not None:
            kw['unit'] = spec[3]
        return FloatRange(spec[1], spec[2], **kw)
    if kind == 'int':
        return IntRange(spec[1], spec[2])
    kw = {}
    if len(spec) > 1 and spec[1] is not None:
        kw['maxchars'] = spec[1]
    return StringType(**kw)


def define(idx, spec, classes):
    from frappy.core import Readable, Parameter
    from frappy.datatypes import ArrayOf
    body = {}
    for name, e in spec['dict']:
        kind, s = e
        if kind == 'arr':
            kw = dict(s.get('kw') or {})
            if s.get('default') is not None:
                kw['default'] = s['default']
            if s.get('readonly') is not None:
                kw['readonly'] = s['readonly']
            body[name] = Parameter(f'array {name}', ArrayOf(mk_dt(s['elem']), s.get('minlen', 0), s.get('maxlen', 16)), **kw)
        elif kind == 'scal':
            kw = dict(s.get('kw') or {})
            if s.get('default') is not None:
                kw['default'] = s['default']
            if s.get('readonly') is not None:
                kw['readonly'] = s['readonly']
            body[name] = Parameter(f'scalar {name}', mk_dt(s['dt']), **kw)
        elif kind == 'over':
            body[name] = Parameter(**s)
        if isinstance(e[1], dict) and e[1].get('wr'):
            body['write_' + name] = lambda self, value: value
    base = Readable if spec.get('base') is None else classes[spec['base']]
    return type(f'F{idx}', (base,), body)


def describe(x):
    """full description of a class (x.accessibles) or a module object: exported description of every accessible, the
    limits actually enforced (probe values through datatype.validate), for module objects also values and writeDict"""
    from frappy.params import Parameter
    from frappy.datatypes import ArrayOf
    acc = []
    for aname, aobj in x.accessibles.items():
        try:
            d = {'n': aname, 'export': _canon(aobj.for_export())}
        except Exception as e:     # the code under test: recorded as data
            d = {'n': aname, 'export': {'exc': f'{type(e).__name__}: {str(e)[:200]}'}}
        if isinstance(aobj, Parameter) and aname not in ('status',):
            dt = aobj.datatype
            probes = ARR_PROBES if isinstance(dt, ArrayOf) else SCAL_PROBES
            res = []
            for p in probes:
                try:
                    dt.validate(p)
                    res.append('ok')
                except Exception as e:
                    res.append(type(e).__name__)
            d['probes'] = res
            if not isinstance(x, type):
                for key in ('value', 'default', 'constant'):
                    try:
                        d[key] = _canon(getattr(aobj, key))
                    except Exception as e:
                        d[key] = f'exc {type(e).__name__}'
        acc.append(d)
    res = {'acc': acc}
    if not isinstance(x, type):
        res['writeDict'] = _canon(dict(x.writeDict))
        try:
            res['props'] = _canon({k: v for k, v in x.exportProperties().items() if k not in ('description', 'implementation')})
        except Exception as e:
            res['props'] = f'exc {type(e).__name__}: {str(e)[:200]}'
    return res


def run_arr(prog):
    import copy
    classes, insts, infos, snaps = [], [], [], []
    for step in prog['steps']:
        info = {'exc': None}
        try:
            if step[0] == 'class':
                classes.append(None)
                classes[-1] = define(len(classes) - 1, step[1], classes)
            else:
                insts.append(None)
                cls = classes[step[1]]
                if cls is None:
                    info['exc'] = 'skip'
                else:
                    cfg = copy.deepcopy(step[2])
                    cfg['description'] = 'module'
                    insts[-1] = cls(f'm{len(insts) - 1}', _Log(), cfg, _Srv())
        except Exception as e:
            info['exc'] = f'{type(e).__name__}: {str(e)[:200]}'
        infos.append(info)
        snap = {}
        for i, c in enumerate(classes):
            if c is not None:
                snap[f'c{i}'] = describe(c)
        for i, m in enumerate(insts):
            if m is not None:
                snap[f'i{i}'] = describe(m)
        snaps.append(snap)
    return {'infos': infos, 'snaps': snaps}


def run_cfg(prog):
    from frappy.config import Mod, Param
    from frappy.secnode import SecNode
    classes = []
    for spec in prog['classes']:
        classes.append(define(len(classes), spec, classes))
    pool = [Param(**p) for p in prog['pool']]
    module_cfg = {}
    for name, ci, params, props in prog['mods']:
        mod = Mod(name, classes[ci], f'module {name}', **{k: pool[i] for k, i in params.items()}, **props)
        mod.pop('name')
        module_cfg[name] = mod
    srv = _Srv(module_cfg)
    cfgs = [_canon(module_cfg)]
    rounds = []
    for _ in range(prog.get('rounds', 1)):
        res = {'mods': {}, 'errors': None, 'exc': None}
        try:
            if prog.get('direct'):
                # without a node: what SecNode.get_module_instance does with the configuration of one module
                for name, opts in module_cfg.items():
                    opts = dict(opts)
                    cls = opts.pop('cls')
                    try:
                        res['mods'][name] = describe(cls(name, _Log(), opts, srv))
                    except Exception as e:
                        res['mods'][name] = {'exc': f'{type(e).__name__}: {str(e)[:300]}'}
            else:
                node = SecNode('fresh', _Log(), {}, srv)
                srv.secnode = node
                node.add_secnode_property('description', 'fresh node')
                node.create_modules()
                for name in list(node.modules):
                    node.get_module(name)
                res['errors'] = [str(e)[:300] for e in node.errors]
                for name, m in node.modules.items():
                    res['mods'][name] = describe(m)
        except Exception as e:
            res['exc'] = f'{type(e).__name__}: {str(e)[:300]}'
        rounds.append(res)
        cfgs.append(_canon(module_cfg))
    return {'rounds': rounds, 'cfgs': cfgs}


def run_prog(prog):
    return run_arr(prog) if prog['kind'] == 'arr' else run_cfg(prog)


def main():
    req = json.load(sys.stdin)
    import frappy.core  # noqa: F401  pylint: disable=unused-import
    import frappy.secnode
    import frappy.config  # noqa: F401
    from frappy.lib import generalConfig
    frappy.secnode.get_version = lambda *a: 'fresh'
    generalConfig.testinit(omit_unchanged_within=0)
    out = []
    for prog in req['runs']:
        r, w = os.pipe()
        pid = os.fork()
        if pid == 0:
            os.close(r)
            try:
                res = run_prog(prog)
            except BaseException as e:   # pylint: disable=broad-except
                res = {'error': f'{type(e).__name__}: {str(e)[:300]}'}
            with os.fdopen(w, 'w') as f:
                json.dump(res, f)
            os._exit(0)
        os.close(w)
        with os.fdopen(r) as f:
            data = f.read()
        os.waitpid(pid, 0)
        out.append(json.loads(data) if data else {'error': 'child died'})
    json.dump(out, sys.stdout)


if __name__ == '__main__':
    main()
