"""c07conc - private helper of C07: the REAL send path (TCPRequestHandler.send_reply of several connections of one
server) run with real threads under the deterministic scheduler harness/dsched.py.

Threads: one handler thread per connection (the real TCPRequestHandler constructor: setup / handle / finish on a fake
socket with scripted recv() segments) and any number of sender threads that call send_reply of the connection objects the
way the server does it (directly, through Dispatcher.broadcast_event, Dispatcher.send_log_msg, Module.announceUpdate).
The fake socket's sendall delivers a frame in partial writes of scripted sizes with a switch point before each write and
can fail at a scripted write (BrokenPipeError, OSError, time-out, ...).  send_lock is a dsched lock (patched into
frappy.protocol.interface.handler.threading), so is every lock of the dispatcher and the modules (a thread parked at a
switch point must never hold a real lock another managed thread may want).

Recorded in execution order: every send_reply call (thread, connection, message triple with the text json.dumps produced),
lock acquisitions/releases, partial writes, failures.  From this record `model_terms` derives the thread programs and the
schedule for the Coq model (Conc.v): call -> encode step, acquire -> acquire step, write n -> Write n, fail -> Fail c."""
import contextlib
import io
import json
import socket
import threading

from harness import dsched

EXC = {'BrokenPipeError': BrokenPipeError, 'OSError': OSError, 'timeout': socket.timeout,
       'ConnectionResetError': ConnectionResetError, 'ValueError': ValueError, 'RuntimeError': RuntimeError}
_LOCK_T = type(threading.Lock())
_RLOCK_T = type(threading.RLock())


def hx(b):
    return bytes(b).hex()


def run_conc(env, case):
    tcp, iface = env['tcp'], env['iface']
    import frappy.protocol.interface.handler as hmod
    if case.get('decisions'):
        policy = dsched.Explicit(case['decisions'])
    else:
        policy = dsched.Seeded(case.get('seed', 0), case.get('stick', 0.3))
    s = dsched.Scheduler(policy, max_steps=case.get('max_steps', 8000))
    scripts = [[bytes.fromhex(c) for c in conn] for conn in case['conns']]
    nconn = len(scripts)
    senders = case.get('senders', [])
    events = []
    handlers = {}
    raised = []
    sender_exc = []
    state = {'senders_done': 0}
    last = {'dumps': None}
    cur_call = {}

    def tname():
        t = s.current_thread()
        return t.name if t is not None else 'ext'

    class LoggedLock:
        def __init__(self):
            self.inner = s.Lock()

        def acquire(self, *a, **k):
            r = self.inner.acquire(*a, **k)
            if r:
                events.append(['acq', tname(), id(self)])
            return r

        def release(self):
            events.append(['rel', tname(), id(self)])
            self.inner.release()

        def __enter__(self):
            return self.acquire()

        def __exit__(self, *a):
            self.release()

        def locked(self):
            return self.inner.locked()

    class FakeThreading:
        Lock = LoggedLock

        def __getattr__(self, name):
            return getattr(threading, name)

    class CSock:
        def __init__(self, cid, script, sizes, fail):
            self.cid, self.script, self.sizes, self.fail = cid, list(script), list(sizes) or [1 << 20], fail
            self.nwrite = 0
            self.nrecv = 0
            self.stream = bytearray()

        def settimeout(self, t):
            pass

        def recv(self, n):
            self.nrecv += 1
            if self.nrecv > 4000:
                return b''
            if self.script:
                s.switch(f'recv:c{self.cid}')
                c = self.script.pop(0)
                if len(c) > n:
                    self.script.insert(0, c[n:])
                    c = c[:n]
                return c
            if s.block(f'idle:c{self.cid}', lambda: state['senders_done'] >= len(senders), 1.0):
                return b''
            raise socket.timeout()

        def sendall(self, b):
            b = bytes(b)
            pos = 0
            while True:
                s.switch(f'write:c{self.cid}')
                k = self.nwrite
                self.nwrite += 1
                if self.nwrite > 20000:
                    raise MemoryError('harness: too many writes')
                if self.fail and self.fail[0] <= k:
                    events.append(['fail', tname(), self.cid])
                    raise EXC[self.fail[1]]('scripted failure')
                n = max(1, self.sizes[k % len(self.sizes)])
                chunk = b[pos:pos + n]
                self.stream.extend(chunk)
                pos += len(chunk)
                events.append(['write', tname(), self.cid, len(chunk)])
                if pos >= len(b):
                    return

        def shutdown(self, *a):
            pass

        def close(self):
            pass

    class J:
        JSONDecodeError = json.JSONDecodeError
        loads = staticmethod(json.loads)

        @staticmethod
        def dumps(*a, **k):
            r = json.dumps(*a, **k)
            last['dumps'] = r
            return r

    real_encode = tcp.encode_msg_frame

    def encode_msg_frame(action, specifier=None, data=None):
        last['dumps'] = None
        ev = cur_call.get(tname())
        try:
            r = real_encode(action, specifier, data)
        except BaseException:
            if ev is not None:
                ev[3] = [action, specifier, None if data is None else last['dumps']]
                ev[4] = 'encode-raised'
            raise
        if ev is not None:
            ev[3] = [action, specifier, None if data is None else
                     (last['dumps'] if last['dumps'] is not None else json.dumps(data))]
            ev[4] = hx(r)
        return r

    orig_send_reply = tcp.TCPRequestHandler.send_reply
    orig_setup = tcp.TCPRequestHandler.setup
    orig_handle = tcp.TCPRequestHandler.handle

    def send_reply(self, data):
        ev = ['call', tname(), self.request.cid, None, None]
        events.append(ev)
        cur_call[tname()] = ev
        try:
            return orig_send_reply(self, data)
        except dsched.SchedAbort:
            raise
        except BaseException as e:
            events.append(['raise', tname(), self.request.cid, type(e).__name__])
            raise

    def setup(self):
        orig_setup(self)
        handlers[self.request.cid] = self

    def handle(self):
        try:
            return orig_handle(self)
        except dsched.SchedAbort:
            raise
        except BaseException as e:
            raised.append([self.request.cid, type(e).__name__, str(e)[:200]])
            raise

    saved = (tcp.encode_msg_frame, iface.json, env['secnode_mod'].get_version, hmod.threading)
    tcp.encode_msg_frame = encode_msg_frame
    iface.json = J
    env['secnode_mod'].get_version = lambda: 'X'
    hmod.threading = FakeThreading()
    tcp.TCPRequestHandler.send_reply = send_reply
    tcp.TCPRequestHandler.setup = setup
    tcp.TCPRequestHandler.handle = handle
    try:
        srv = env['mknode']()
        for obj in [srv.dispatcher, srv.secnode] + list(srv.secnode.modules.values()):
            for k, v in list(vars(obj).items()):
                if isinstance(v, _RLOCK_T):
                    setattr(obj, k, s.RLock())
                elif isinstance(v, _LOCK_T):
                    setattr(obj, k, s.Lock())
        fails = {int(k): v for k, v in (case.get('fail') or {}).items()}
        writes = case.get('writes') or [[]] * nconn
        socks = [CSock(c, scripts[c], writes[c % len(writes)], fails.get(c)) for c in range(nconn)]

        def handler_thread(c):
            try:
                tcp.TCPRequestHandler(socks[c], ('10.0.1.%d' % c, 1000 + c), srv)
            except dsched.SchedAbort:
                raise
            except BaseException as e:
                raised.append([c, 'constructor:' + type(e).__name__, str(e)[:200]])

        def sender_thread(j, prog):
            try:
                s.block('wait-conns', lambda: len(handlers) == nconn)
                for item in prog:
                    try:
                        if item[0] == 'send':
                            handlers[item[1]].send_reply(tuple(item[2]))
                        elif item[0] == 'bcast':
                            srv.dispatcher.broadcast_event(tuple(item[1]), reallyall=True)
                        elif item[0] == 'log':
                            srv.dispatcher.send_log_msg(handlers[item[1]], item[2], item[3], item[4])
                        elif item[0] == 'update':
                            srv.secnode.modules[item[1]].announceUpdate('value', float(item[2]))
                    except dsched.SchedAbort:
                        raise
                    except Exception as e:
                        sender_exc.append([f's{j}', item[0], type(e).__name__, str(e)[:120]])
            finally:
                state['senders_done'] += 1

        def main():
            ths = [s.spawn(handler_thread, f'h{c}', c) for c in range(nconn)]
            ths += [s.spawn(sender_thread, f's{j}', j, prog) for j, prog in enumerate(senders)]
            for t in ths:
                t.join()

        with contextlib.redirect_stdout(io.StringIO()):
            res = s.run(main)
        lock_cid = {id(h.send_lock): c for c, h in handlers.items()}
        evs = []
        for e in events:
            if e[0] in ('acq', 'rel'):
                evs.append([e[0], e[1], lock_cid.get(e[2], -1)])
            else:
                evs.append(list(e))
        return {
            'streams': [hx(sk.stream) for sk in socks],
            'running': [bool(getattr(handlers.get(c), 'running', None)) for c in range(nconn)],
            'locked': [bool(handlers[c].send_lock.locked()) if c in handlers and hasattr(handlers[c].send_lock, 'locked')
                       else None for c in range(nconn)],
            'events': evs,
            'status': res.status,
            'thread_errors': res.thread_errors,
            'blocked_at_end': getattr(res, 'blocked_at_end', {}) if res.status != 'ok' else {},
            'raised': raised,
            'sender_exc': sender_exc,
            'leftover': len(srv.dispatcher._connections),
            'decisions': res.decisions if case.get('keep_decisions') else None,
            'nsteps': len(res.decisions),
            'failed': [c for c in range(nconn) if any(e[0] == 'fail' and e[2] == c for e in events)],
        }
    finally:
        tcp.encode_msg_frame, iface.json, env['secnode_mod'].get_version, hmod.threading = saved
        tcp.TCPRequestHandler.send_reply = orig_send_reply
        tcp.TCPRequestHandler.setup = orig_setup
        tcp.TCPRequestHandler.handle = orig_handle


def thread_names(case):
    return [f'h{c}' for c in range(len(case['conns']))] + [f's{j}' for j in range(len(case.get('senders', [])))]


def model_inputs(case, obs):
    """(progs, sched): progs[t] = [(cid, triple)] in call order; sched = [(t, ('W', n) | ('F', cid))]"""
    names = thread_names(case)
    idx = {n: i for i, n in enumerate(names)}
    progs = [[] for _ in names]
    sched = []
    for e in obs['events']:
        if e[1] not in idx:
            raise ValueError(f'send path used by unmanaged thread {e[1]}')
        t = idx[e[1]]
        if e[0] == 'call':
            if e[3] is None:        # send_reply returned before encoding (empty data): no job
                continue
            progs[t].append((e[2], e[3]))
            sched.append((t, ('W', 0)))
        elif e[0] == 'acq':
            sched.append((t, ('W', 0)))
        elif e[0] == 'write':
            sched.append((t, ('W', e[3])))
        elif e[0] == 'fail':
            sched.append((t, ('F', e[2])))
    return progs, sched
