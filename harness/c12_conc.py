"""C12, concurrent cases (kind 'conc'): callers of SecopClient.setParameter / readParameter / getParameter run
concurrently with the real receive and transmit threads under the deterministic scheduler harness/dsched.py.

Private helper of harness/props/C12.py (like c12_e2e.py).

One case = description + value tables + caller programs + registered recording callbacks + a peer script + a
schedule.  The peer (a fake AsynConn, as in harness/props/C11.py) answers the requests it received (reply / changed /
error_read / error_change, with the identifier of the request, a payload that is a valid wire value of the parameter's
datatype and a 't' qualifier relative to the virtual clock) and sends unsolicited update / error_update lines and junk
in between.  `SecopClient.updateValue` gets one more synchronisation point at its entry (instance of a subclass that
calls `sched.switch('updateValue')` first): with it a schedule can run a released caller before a cache update that
the code under test does AFTER `entry[1].set()`; when the update precedes the `set()` in the program order of the
receive thread no schedule can do that.

What is recorded: every delivered line with the clock value of its delivery, for every call of a caller the returned
cache item and the cache entry read in the same scheduler step (so nothing can run in between), every callback
invocation with the thread that made it, the final cache, the whole step trace.
"""
import json
import random

from harness import gal

STEP_TICKS = 1            # virtual clock: one tick (1/1024 s) per executed step
START_TICKS = 1000 * 1024


def _P():
    from harness.props import C12
    return C12


def _policy(spec):
    from harness import dsched
    k = spec['kind']
    if k == 'seed':
        return dsched.Seeded(spec['seed'], spec.get('stick', 0.0))
    if k == 'explicit':
        return dsched.Explicit(spec['decisions'])
    if k == 'preempt':
        return dsched.Preempt(spec['points'])
    if k == 'none':
        return dsched.NonPreemptive()
    raise ValueError(k)


REPLY_OF = {'read': 'reply', 'change': 'changed'}      # SECoP specification


def dt_of(case, m, p):
    """datatype index of the parameter with internal name p of module m"""
    P = _P()
    for mod, accs in case['desc']:
        if mod == m:
            for a, kind, dt in accs:
                if kind == 'p' and P.internal_name(a) == p:
                    return dt
    raise KeyError((m, p))


def wire_name(case, m, p):
    P = _P()
    for mod, accs in case['desc']:
        if mod == m:
            for a, kind, dt in accs:
                if P.internal_name(a) == p:
                    return a
    raise KeyError((m, p))


def resolve_ident(case, action, ident):
    """(module, internal name, datatype index) a line with this identifier is about, None if unknown / a command"""
    P = _P()
    r = P.spec_resolve(case['desc'], action, ident)
    if r is None or r[2] != 'p':
        return None
    return r[0], r[1], r[3]


# =================================================================== implementation driver
def run_conc(case):
    import frappy.client as fc
    from frappy.lib.asynconn import AsynConn, ConnectionClosed
    from harness import dsched
    P = _P()

    s = dsched.Scheduler(_policy(case['sched']), max_steps=4000, start_time=START_TICKS / 1024,
                         step_cost=STEP_TICKS / 1024)
    calls = case['callers']
    n = len(calls)
    script = case['peer']
    st = {'pos': 0, 'closed': False}
    outstanding = []         # [caller, action, ident]
    lines = []               # [line, now in ticks, caller answered or None]
    sends = []               # [caller, action, ident, now]
    invs = []
    returns = []
    writes = []              # cache updates made by caller threads: [thread, module, parameter, entry]

    def ticks():
        k = s.now * 1024
        if k != int(k):
            raise ValueError('virtual clock left the tick grid')
        return int(k)

    def qual(tspec):
        if tspec is None:
            return '{}'
        return '{"t": %s}' % json.dumps((ticks() + int(tspec)) / 1024)

    def payload(ident, action, what):
        """data part of a line"""
        r = resolve_ident(case, action, ident)
        if 'err' in what:
            return [what['err'][0], what['err'][1]]
        vals = case['vals'][r[2]]
        return [vals[what['ok'] % len(vals)]]

    class FakeConn(AsynConn):
        def __new__(cls, *a, **k):
            return object.__new__(cls)

        def shutdown(self):
            st['closed'] = True

        def disconnect(self):
            st['closed'] = True

        def send(self, data):
            s.switch('send')
            if st['closed']:
                raise BrokenPipeError('send on closed connection')
            parts = data.decode('utf-8').strip().split(' ', 2)
            action, ident = parts[0], parts[1] if len(parts) > 1 else ''
            who = -1
            entry = client.active_requests.get((fc.REQUEST2REPLY.get(action), ident))
            if entry is not None and entry[1].name.startswith('ev_c'):
                who = int(entry[1].name[4:])
            sends.append([who, action, ident, ticks()])
            s.annotate(send=who)
            outstanding.append([who, action, ident])

        def recv(self):
            # after the script: every further request is answered with the first value of the datatype
            d = script[st['pos']] if st['pos'] < len(script) else ['R', 0, {'ok': 0}, None, 0.0]
            delay = float(d[-1])
            s.block('recv', lambda: st['closed'], delay)
            if d[0] == 'R' and not outstanding and not st['closed']:
                # an answer waits for a request to answer (at most one idle second per recv call)
                s.block('recv', lambda: st['closed'] or bool(outstanding), 1.0)
                if not outstanding and not st['closed']:
                    s.annotate(idle=True)
                    return b''
            if st['closed']:
                raise ConnectionClosed()
            st['pos'] += 1
            line = None
            who = None
            if d[0] == 'R' and outstanding:
                o = outstanding[d[1] % len(outstanding)]
                outstanding.remove(o)
                who, action, ident = o
                if action == 'ping':
                    line = f'pong {ident} [null, {qual(None)}]'
                elif 'err' in d[2]:
                    line = 'error_%s %s %s' % (action, ident, json.dumps(payload(ident, action, d[2]))[:-1]
                                               + ', ' + qual(d[3]) + ']')
                else:
                    line = '%s %s %s' % (REPLY_OF[action], ident, json.dumps(payload(ident, action, d[2]))[:-1]
                                         + ', ' + qual(d[3]) + ']')
            elif d[0] == 'U':
                ident = d[1]
                if 'err' in d[2]:
                    line = 'error_update %s %s' % (ident, json.dumps(payload(ident, 'update', d[2]))[:-1]
                                                   + ', ' + qual(d[3]) + ']')
                else:
                    line = 'update %s %s' % (ident, json.dumps(payload(ident, 'update', d[2]))[:-1]
                                             + ', ' + qual(d[3]) + ']')
            elif d[0] == 'J':
                line = d[1]
            if line is None:
                s.annotate(idle=True)
                return b''
            lines.append([line, ticks(), who if who is not None and who >= 0 else None])
            s.annotate(line=len(lines) - 1)
            return line.encode('utf-8') + b'\n'

    def event_factory():
        e = s.Event()
        cur = s.current_thread()
        if cur is not None:
            e.name = 'ev_' + cur.name
        return e

    def entry_repr(value, timestamp, readerror):
        return [None if readerror else P.canon(value), P.canon_ts(timestamp), P.canon_err(readerror)]

    def item_repr(item):
        if item is None or isinstance(item.readerror, fc.Cache.Undefined):
            return None
        return entry_repr(item.value, item.timestamp, item.readerror)

    def tname():
        cur = s.current_thread()
        return cur.name if cur is not None else 'setup'

    class Client(fc.SecopClient):
        activate = False

        def handleError(self, exc):
            invs.append(['err', 0, tname()])
            super().handleError(exc)

        def updateValue(self, module, param, value, timestamp, readerror):
            s.annotate(call_ts=P.canon_ts(timestamp))     # (belongs to the step that makes the call)
            s.switch('updateValue')          # one more synchronisation point: entry of the cache update
            s.annotate(upd_key=[module, param], upd_line=len(lines) - 1)
            if tname() != 'rx':
                writes.append([tname(), module, param, entry_repr(None, timestamp, readerror)])
            return super().updateValue(module, param, value, timestamp, readerror)

    def site(cbid, cbname, key):
        kr = P.keyrepr(key)
        if cbname == 'updateItem':
            def f(module, parameter, item):
                invs.append(['upd', cbid, cbname, kr, module, parameter,
                             entry_repr(item.value, item.timestamp, item.readerror), tname()])
        else:
            def f(module, parameter, value, timestamp, readerror):
                invs.append(['upd', cbid, cbname, kr, module, parameter, entry_repr(value, timestamp, readerror),
                             tname()])
        f.verif_id = cbid
        return f

    saved = {k: getattr(fc, k) for k in ('Event', 'RLock', 'queue', 'time', 'mkthread', 'current_thread')}
    client = None
    try:
        fc.Event = event_factory
        fc.RLock = s.RLock
        fc.queue = s.queue_module
        fc.time = s.time_module
        fc.mkthread = s.mkthread
        fc.current_thread = s.current_thread
        client = Client('fake://peer', log=None)
        client.txq.name, client.pending.name = 'txq', 'pending'
        client._lock.name, client._shutdown.name = 'lock', 'shutdown'
        client._init_descriptive_data(P.description_json(case))
        client.io = FakeConn('fake://peer')
        client._running = True
        client.online, client.state = True, 'connected'
        for key, cbname, cbid in case['cbs']:
            client.register_callback(P.pykey(key), **{cbname: site(cbid, cbname, P.pykey(key))})

        def snapshot():
            return [[m, p, item_repr(it)] for (m, p), it in client.cache.items()]

        def caller(i):
            for k, (op, m, p, arg) in enumerate(calls[i]):
                rec = {'caller': i, 'call': k, 'op': op, 'key': [m, p], 'result': None, 'raised': None}
                try:
                    if op == 'set':
                        r = client.setParameter(m, p, P.to_python(arg))
                    elif op == 'read':
                        r = client.readParameter(m, p)
                    else:
                        r = client.getParameter(m, p)
                    rec['result'] = item_repr(r)
                except fc.SECoPError as e:
                    rec['raised'] = P.canon_err(e)
                except Exception as e:
                    rec['raised'] = [type(e).__name__, str(e)[:200]]
                # same scheduler step as the return of the call: nothing ran in between
                rec['cache'] = item_repr(client.cache.get((m, p)))
                rec['nlines'] = len(lines)
                rec['now'] = ticks()
                s.annotate(ret=[i, k, ticks()])
                returns.append(rec)

        workers = {}

        def main():
            workers['tx'] = client._txthread = s.spawn(client._SecopClient__txthread, 'tx')
            workers['rx'] = client._rxthread = s.spawn(client._SecopClient__rxthread, 'rx')
            cs = [s.spawn(caller, f'c{i}', i) for i in range(n)]
            for t in cs:
                t.join()
            # every delivered line has been treated when the receive thread is back at recv
            s.wait_until(lambda: s.parked_label(workers['rx']) == 'recv' or not workers['rx'].is_alive(), 30)

        res = s.run(main)
        trace = [[a, b, c] for a, b, c in res.trace if a != 'main']
        return {'status': res.status, 'main_error': res.error, 'trace': trace, 'decisions': res.decisions,
                'lines': lines, 'returns': returns, 'invs': invs, 'cache': snapshot(), 'sends': sends,
                'caller_writes': writes,
                'thread_errors': res.thread_errors, 'blocked_at_end': res.blocked_at_end,
                'rx_alive': 'rx' in res.alive_at_end}
    finally:
        for k, v in saved.items():
            setattr(fc, k, v)
        if client is not None:
            try:
                client.callbacks.clear()
                client._txthread = client._rxthread = client._connthread = None
                client.io = None
            except Exception:
                pass


# =================================================================== encoding into Gallina (case CConc of Run.v)
def enc_call(case, call):
    P = _P()
    op, m, p, arg = call
    ident = f'{m}:{wire_name(case, m, p)}'
    return '{| k_kind := %s; k_ident := %s; k_key := (%s, %s) |}' % (
        'RChange' if op == 'set' else 'RRead', gal.string(ident), gal.string(m), gal.string(p))


def model_steps(case, obs, T):
    """the steps of the trace the model contains, as Gallina terms; collects the first payloads for the import table"""
    P = _P()
    steps = []
    payloads = []
    for t, lab, info in obs['trace']:
        if t == 'rx':
            if lab == 'recv' and 'line' in info:
                line, now, who = obs['lines'][info['line']]
                term, val = P.enc_msg(line, T)
                action = P.split_line(line)[0]
                other = 'Some RChange' if action == 'error_change' else 'None'
                if isinstance(val, list) and val:
                    payloads.append(val[0])
                steps.append('(SRecv {| cm_msg := %s; cm_other := %s |} %s)' % (term, other, gal.z(now)))
            elif lab == 'updateValue':
                steps.append('SRxUpdate')
            elif lab.startswith('set:ev_c'):
                steps.append(f'(SRxSet {gal.nat(int(lab[8:]))})')
        elif t == 'tx':
            if lab == 'send' and info.get('send', -1) >= 0:
                steps.append(f'(SSend {gal.nat(info["send"])})')
        elif t[0] == 'c':
            i = int(t[1:])
            if lab == f'wait:ev_c{i}':
                if info.get('timeout'):
                    raise ValueError(f'caller {i} timed out: outside the model')
                steps.append(f'(SWake {gal.nat(i)})')
            elif lab == 'updateValue':
                # since repository commit 276f60f no caller updates the cache for an error that came from a reply
                raise ValueError(f'caller {i} called updateValue itself: outside the model')
    return steps, payloads


def encode_conc(case, obs):
    P = _P()
    if obs['status'] != 'ok' or obs['main_error'] or obs['thread_errors']:
        raise ValueError(f"run did not complete: {obs['status']} {obs['main_error']} {obs['thread_errors']}")
    T = P.Tables()
    d = '[' + '; '.join(
        '(%s, [%s])' % (gal.string(m), '; '.join(
            '{| a_name := %s; a_cmd := %s; a_dt := %s |}' % (gal.string(a), gal.boolean(kind == 'c'), gal.nat(dt))
            for a, kind, dt in accs)) for m, accs in case['desc']) + ']'
    steps, payloads = model_steps(case, obs, T)
    imp = []
    done = set()
    for j in payloads:
        pid = T.payload(j)
        for dt, di in enumerate(case['dts']):
            if (dt, pid) in done:
                continue
            done.add((dt, pid))
            try:
                c = P.spec_import(di, j)
                imp.append(f'({gal.nat(dt)}, {gal.nat(pid)}, Some {gal.nat(T.value(c))})')
            except P.Reject:
                imp.append(f'({gal.nat(dt)}, {gal.nat(pid)}, None)')
            except P.Unclear:
                pass
    regs = '[' + '; '.join(f'({P.enc_ckey(key)}, {P.CBN[cbname]}, {gal.nat(cbid)})' for key, cbname, cbid in case['cbs']) + ']'
    progs = '[' + '; '.join('[' + '; '.join(enc_call(case, c) for c in prog) + ']' for prog in case['callers']) + ']'

    def enc_opt_entry(e):
        return 'None' if e is None else f'(Some {P.enc_entry(e, T)})'
    seen = []
    for r in obs['returns']:
        o = 'ORaised' if r['raised'] is not None else f'(OSeen {enc_opt_entry(r["cache"])})'
        seen.append(f'({gal.nat(r["caller"])}, {gal.nat(r["call"])}, {o})')
    cache = []
    for m, p, e in obs['cache']:
        if e is None:
            raise ValueError('undefined item stored in the cache')
        cache.append(f'(({gal.string(m)}, {gal.string(p)}), {P.enc_entry(e, T)})')
    log = []
    for i in obs['invs']:
        if i[0] == 'err':
            log.append(f'(InvErr {gal.nat(i[1])})')
        else:
            log.append('(InvUpd %s %s (%s, %s) %s)' % (gal.nat(i[1]), P.CBN[i[2]], gal.string(i[4]), gal.string(i[5]),
                                                      P.enc_entry(i[6], T)))
    return 'CConc %s [%s] %s %s [%s] [%s] [%s] [%s]' % (d, '; '.join(imp), regs, progs, '; '.join(steps),
                                                        '; '.join(seen), '; '.join(cache), '; '.join(log))


# =================================================================== direct oracle (property text on the observation)
def oracle_conc(case, obs):
    """written from the property text:
    * when a write / read request returns, the cache entry of the parameter is the import of the message that answered
      it (value or rebuilt error, timestamp of the message, never later than the clock at its arrival) -- or of a
      message for the same parameter that arrived after it (the cache mirrors the LAST message);
    * every message leads to exactly one invocation of every callback registered for the node, the module or the
      parameter, in arrival order, with the import of that message;
    * at the end the cache entry of every parameter is the import of the last message for it."""
    P = _P()
    fails = []

    def fail(cls, what, **kw):
        fails.append(dict({'class': cls, 'what': what}, **kw))

    if obs['status'] != 'ok' or obs['main_error']:
        fail('run-' + obs['status'], f"the run did not complete: {obs['status']} {obs['main_error']} "
             f"blocked: {obs['blocked_at_end']}")
        return fails
    for t, e in obs['thread_errors'].items():
        fail('thread-died', f'thread {t} died: {e}')
    if not obs['rx_alive']:
        fail('thread-died', 'the receive thread ended')
    meaning = []
    for line, now, who in obs['lines']:
        sp = P.spec_message(case, line, now)
        if sp[0] == 'unclear':
            return fails
        meaning.append(sp)
    upd = [(i, sp[1], sp[2]) for i, sp in enumerate(meaning) if sp[0] == 'upd']
    # ---- calls
    answered_by = {}
    for i, (line, now, who) in enumerate(obs['lines']):
        if who is not None:
            answered_by.setdefault(who, []).append(i)
    done = {(r['caller'], r['call']) for r in obs['returns']}
    for i, prog in enumerate(case['callers']):
        for k in range(len(prog)):
            if (i, k) not in done:
                fail('caller-never-returned', f'call {k} of caller {i} did not return')
    for r in obs['returns']:
        i, k = r['caller'], r['call']
        m, p = r['key']
        mine = answered_by.get(i, [])
        if k >= len(mine):
            fail('no-answer', f'call {k} of caller {i} returned ({r["result"]}, {r["raised"]}) but the peer sent no answer')
            continue
        a = mine[k]
        line = obs['lines'][a][0]
        sp = meaning[a]
        if sp[0] != 'upd':
            # error_change: nothing to mirror
            if r['raised'] is None:
                fail('error-reply-swallowed', f'call {k} of caller {i}: answered by {line!r} but no error was raised')
            continue
        if tuple(sp[1]) != (m, p):
            fail('internal', f'answer {line!r} is about {sp[1]}, the call about {(m, p)}')
            continue
        # entries the cache may hold at the moment of return: the answering message or a later one for this parameter
        allowed = [e for j, key, e in upd if tuple(key) == (m, p) and a <= j < r['nlines']]
        if r['cache'] not in allowed:
            fail('stale-cache-at-return',
                 f'caller {i} call {k} ({r["op"]} {m}:{p}) was answered by line {a} {line!r} (import: {sp[2]}), '
                 f'but when the call returned the cache entry was {r["cache"]}', caller=i, call=k, key=[m, p],
                 entry=r['cache'])
        elif r['raised'] is not None:
            fail('call-raised', f'caller {i} call {k} ({r["op"]} {m}:{p}) raised {r["raised"]} on answer {line!r}')
        elif r['result'] not in allowed:
            fail('stale-result',
                 f'caller {i} call {k} ({r["op"]} {m}:{p}) was answered by line {a} {line!r} (import: {sp[2]}), '
                 f'but the call returned {r["result"]}', caller=i, call=k, key=[m, p], entry=r['result'])
    # ---- callbacks: per registered callback the invocations are exactly the accepted messages it covers, in order
    for key, cbname, cbid in case['cbs']:
        want = [[key_[0], key_[1], e] for j, key_, e in upd
                if key is None or key == key_[0] or list(key) == [key_[0], key_[1]]]
        mine = [v for v in obs['invs'] if v[0] == 'upd' and v[1:4] == [cbid, cbname, key]]
        got = [[v[4], v[5], v[6]] for v in mine]
        if got != want:
            # invocations made by the receive thread / by callers
            by_rx = [[v[4], v[5], v[6]] for v in mine if v[7] == 'rx']
            by_callers = [[v[7], v[4], v[5], v[6]] for v in mine if v[7] != 'rx']
            fail('callback-count',
                 f'callback {cbid} ({cbname}, registered for {key}) was invoked {len(got)} times for {len(want)} '
                 f'messages; invocations made by caller threads: {by_callers[:2]}; '
                 f'expected {want[:3]}, got {got[:3]}', rx_exact=(by_rx == want), by_callers=by_callers)
    # ---- final cache
    expected = {}
    for j, key, e in upd:
        expected[tuple(key)] = e
    snap = {(m, p): e for m, p, e in obs['cache']}
    if snap != expected:
        bad = [k for k in sorted(set(snap) | set(expected)) if snap.get(k) != expected.get(k)]
        k = bad[0]
        fail('cache-mismatch', f'at the end cache[{k}] = {snap.get(k)}, the last message for it means {expected.get(k)}',
             key=list(k), entry=snap.get(k))
    for m, p, e in obs['cache']:
        if e is not None and e[1][0] in ('pinf', 'nan', 'bad'):
            fail('timestamp-future', f'cache[{(m, p)}] has timestamp {e[1]}')
    return fails


# =================================================================== known finding: classifier
def fallback_writes(case, obs):
    """the cache writes of readParameter's fallback that belong to the finding
    C12/read-error-fallback-overwrites-later-update: the caller was answered by an error_read line a; after the
    receive thread had updated the cache for line a and before the caller ran, the cache entry of the same parameter
    was written again -- by the receive thread for a LATER line, or by another caller's fallback write that itself
    belongs to the finding (cascade) --; the caller then did the update itself.
    Returns [[thread, module, parameter, entry written]]."""
    P = _P()
    answered_by = {}
    for i, (line, now, who) in enumerate(obs['lines']):
        if who is not None:
            answered_by.setdefault(who, []).append(i)
    ncall = {}                 # caller -> number of finished calls
    rewrites = []              # (trace index, key, line index or None for a fallback write of the finding)
    updated_at = {}            # line index -> trace index of the receive thread's cache update for it
    res = []
    pending = {}               # thread -> does its coming fallback write belong to the finding
    writes = list(obs.get('caller_writes', []))
    for idx, (t, lab, info) in enumerate(obs['trace']):
        if t == 'rx':
            if lab == 'updateValue' and 'upd_line' in info:
                rewrites.append((idx, tuple(info['upd_key']), info['upd_line']))
                updated_at[info['upd_line']] = idx
        elif t[0] == 'c' and t[1:].isdigit():
            i = int(t[1:])
            if lab == f'wait:ev_c{i}' and 'call_ts' in info:
                k = ncall.get(i, 0)
                prog = case['callers'][i] if i < len(case['callers']) else []
                mine = answered_by.get(i, [])
                ok = False
                if k < len(prog) and k < len(mine) and prog[k][0] in ('read', 'get') and mine[k] in updated_at:
                    a = mine[k]
                    key = (prog[k][1], prog[k][2])
                    if P.split_line(obs['lines'][a][0])[0] == 'error_read' and \
                            any(at > updated_at[a] and kk == key and (j is None or j > a) for at, kk, j in rewrites):
                        ok = True
                pending[t] = ok
            if lab == 'updateValue' and t in pending:
                ok = pending.pop(t)
                w = next((x for x in writes if x[0] == t), None)
                if w is not None:
                    writes.remove(w)
                    if ok:
                        res.append(w)
                        rewrites.append((idx, (w[1], w[2]), None))
            if 'ret' in info:
                ncall[i] = ncall.get(i, 0) + 1
    return res


def is_read_error_fallback(case, obs, f):
    """the failure is nothing but the effect of such a fallback write"""
    fbs = fallback_writes(case, obs)
    if not fbs:
        return False
    entries = [[w[1], w[2], w[3]] for w in fbs]
    if f['class'] in ('stale-cache-at-return', 'stale-result', 'cache-mismatch'):
        return f.get('key') is not None and [f['key'][0], f['key'][1], f.get('entry')] in entries
    if f['class'] == 'callback-count':
        return bool(f.get('rx_exact')) and bool(f.get('by_callers')) and all(list(x) in [list(w) for w in fbs]
                                                                            for x in f['by_callers'])
    return False


# =================================================================== generators
def gen_conc_case(rng, sched=None):
    P = _P()
    dts = [P.gen_datainfo(rng, depth=rng.choice([0, 0, 1])) for _ in range(rng.randint(1, 3))]
    mods = rng.sample(['m', 'dev', 'T1'], rng.randint(1, 2))
    desc = []
    for m in mods:
        names = rng.sample(['value', 'target', '_x', 'ramp', '_mode'], rng.randint(1, 3))
        desc.append([m, [[a, 'p', rng.randrange(len(dts))] for a in names]])
    case = {'kind': 'conc', 'desc': desc, 'dts': dts}
    vals = []
    for di in dts:
        vs = []
        for _ in range(3):
            w = P.gen_wire(di, rng)
            try:
                P.spec_import(di, w)
            except (P.Reject, P.Unclear):
                continue
            vs.append(w)
        if not vs:
            return None
        vals.append(vs)
    case['vals'] = vals
    params = [(m, P.internal_name(a), dt, a) for m, accs in desc for a, kind, dt in accs]
    ncall = rng.choice([1, 2, 2, 3])
    hot = rng.choice(params)               # callers mostly meet on one parameter
    callers = []
    used = set()
    for i in range(ncall):
        prog = []
        for _ in range(rng.choice([1, 1, 2])):
            m, p, dt, a = hot if rng.random() < 0.7 else rng.choice(params)
            op = rng.choice(['set', 'read', 'read', 'get'])
            arg = None
            if op == 'set':
                arg = P.spec_import(dts[dt], rng.choice(vals[dt]))
            prog.append([op, m, p, arg])
        callers.append(prog)
    case['callers'] = callers
    cbs = []
    for cbid in range(1, rng.choice([1, 2, 3, 4]) + 1):
        m, p, dt, a = hot if rng.random() < 0.7 else rng.choice(params)
        key = rng.choice([None, m, [m, p], [m, p]])
        cbs.append([key, rng.choice(['updateItem', 'updateEvent']), cbid])
    case['cbs'] = cbs
    peer = []
    nreq = sum(len(c) for c in callers)

    def tspec():
        return rng.choice([None, -1, -1024, -5000, 0, 7, 3000])

    def what():
        if rng.random() < 0.3:
            return {'err': [rng.choice(['HardwareError', 'CommunicationFailed', 'Foo', 'IsBusy']),
                            rng.choice(['sensor broken', 'RangeError: too big', 'x: y', ''])]}
        return {'ok': rng.randrange(3)}

    for _ in range(rng.randint(nreq, 2 * nreq + 4)):
        r = rng.random()
        d = rng.choice([0.0, 0.0, 0.0, 0.25])
        if r < 0.55:
            peer.append(['R', rng.randrange(3), what(), tspec(), d])
        elif r < 0.92:
            m, p, dt, a = hot if rng.random() < 0.7 else rng.choice(params)
            ident = f'{m}:{a}' if rng.random() < 0.85 or a not in ('value',) else m
            peer.append(['U', ident, what(), tspec(), d])
        else:
            peer.append(['J', rng.choice(['update m:value [1,', 'pong', 'update nomod:value [1, {}]', 'update m:value 5',
                                          'update . [1, {}]', 'error_update m:value ["E", "t"]', 'active']), d])
    case['peer'] = peer
    case['sched'] = sched or rand_sched(rng)
    return case


def rand_sched(rng):
    r = rng.random()
    if r < 0.45:
        return {'kind': 'seed', 'seed': rng.randrange(1 << 30), 'stick': 0.0}
    if r < 0.75:
        return {'kind': 'seed', 'seed': rng.randrange(1 << 30), 'stick': rng.choice([0.5, 0.8])}
    k = rng.choice([1, 2, 2, 3])
    return {'kind': 'preempt', 'points': {str(rng.randrange(4, 60)): rng.randrange(5) for _ in range(k)}}


def systematic_conc(stride=1, pairs=60):
    """small fixed scenarios x every single preemption point (and some pairs)"""
    desc = [['m', [['value', 'p', 0], ['target', 'p', 0]]]]
    dts = [{'type': 'double'}]
    vals = [[1.5, 2.5, -3.0]]
    base = {'kind': 'conc', 'desc': desc, 'dts': dts, 'vals': vals}
    f25 = ['f', (2.5).hex()]
    scenarios = [
        # a write answered, an update of another parameter in between
        dict(base, callers=[[['set', 'm', 'target', f25]]], cbs=[[None, 'updateItem', 1]],
             peer=[['U', 'm:target', {'ok': 0}, -5, 0.0], ['R', 0, {'ok': 1}, -3, 0.0], ['U', 'm:value', {'ok': 2}, None, 0.0]]),
        # a read answered with an error report
        dict(base, callers=[[['read', 'm', 'value', None]]], cbs=[[['m', 'value'], 'updateItem', 1], ['m', 'updateEvent', 2]],
             peer=[['U', 'm:value', {'ok': 0}, -5, 0.0], ['R', 0, {'err': ['HardwareError', 'sensor broken']}, -2, 0.0],
                   ['U', 'm:target', {'ok': 2}, None, 0.0]]),
        # two callers on the same parameter: write and read
        dict(base, callers=[[['set', 'm', 'target', f25]], [['read', 'm', 'target', None]]], cbs=[['m', 'updateItem', 1]],
             peer=[['R', 1, {'ok': 1}, -3, 0.0], ['R', 0, {'ok': 2}, None, 0.0], ['U', 'm:value', {'ok': 0}, 5, 0.0]]),
        # read then write by one caller, getParameter by another
        dict(base, callers=[[['read', 'm', 'value', None], ['set', 'm', 'target', f25]], [['get', 'm', 'value', None]]],
             cbs=[[None, 'updateEvent', 1], [['m', 'target'], 'updateItem', 2]],
             peer=[['R', 0, {'ok': 0}, -1, 0.0], ['R', 0, {'err': ['IsBusy', 'x: y']}, -1, 0.0], ['R', 0, {'ok': 1}, None, 0.0]]),
        # a read answered with an error report, the next line is an update of the SAME parameter (the known finding
        # C12/read-error-fallback-overwrites-later-update shows when the caller runs after that update)
        dict(base, callers=[[['read', 'm', 'value', None]]], cbs=[[None, 'updateItem', 1]],
             peer=[['R', 0, {'err': ['HardwareError', 'sensor broken']}, -2, 0.0], ['U', 'm:value', {'ok': 2}, None, 0.0]]),
    ]
    out = []
    for sc in scenarios:
        out.append(dict(sc, sched={'kind': 'none'}))
        for step in range(2, 46, stride):
            for idx in range(3):
                out.append(dict(sc, sched={'kind': 'preempt', 'points': {str(step): idx}}))
        rng = random.Random(len(out))
        for _ in range(pairs):
            a, b = rng.randrange(2, 46), rng.randrange(2, 46)
            out.append(dict(sc, sched={'kind': 'preempt', 'points': {str(a): rng.randrange(3), str(b): rng.randrange(3)}}))
    return out


def gen_conc_cases(rng, tier):
    n = {'quick': 400, 'thorough': 20000, 'search': 6000}[tier]
    out = systematic_conc(1, 10 if tier == 'quick' else 600)
    for _ in range(n):
        c = gen_conc_case(rng)
        if c is not None:
            out.append(c)
    return out


def shrink(case):
    peer = case['peer']
    for i in range(len(peer) - 1, -1, -1):
        yield dict(case, peer=peer[:i] + peer[i + 1:])
    cbs = case['cbs']
    for i in range(len(cbs) - 1, -1, -1):
        yield dict(case, cbs=cbs[:i] + cbs[i + 1:])
    callers = case['callers']
    if len(callers) > 1:
        for i in range(len(callers) - 1, -1, -1):
            yield dict(case, callers=callers[:i] + callers[i + 1:])
    for i, prog in enumerate(callers):
        if len(prog) > 1:
            yield dict(case, callers=callers[:i] + [prog[:-1]] + callers[i + 1:])


def nontrivial_key(case, obs):
    if obs['status'] != 'ok' or not obs['returns']:
        return None
    return repr((case['callers'], case['peer'], [(t, l) for t, l, _ in obs['trace']]))


def outcome_labels(case, obs):
    labs = {'conc'}
    for r in obs['returns']:
        labs.add('conc:' + r['op'] + (':raised' if r['raised'] else ':error-entry' if r['result'] and r['result'][2]
                                      else ':value' if r['result'] else ':none'))
    for v in obs['invs']:
        labs.add('conc-inv:' + (v[2] if v[0] == 'upd' else 'handleError') + ':' + v[-1][:1])
    labs.add('conc-sched:' + case['sched']['kind'])
    labs.add('conc-status:' + obs['status'])
    return labs
