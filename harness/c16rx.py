"""C16, receive layer alone (private helper of harness/props/C16.py): one real frappy.lib.asynconn.AsynTcp object on a
scripted fake socket with arrival times and a fake clock (single thread, no scheduler), a script of readline /
readbytes / flush_recv calls; encoder into the Gallina type rxcase (coq/theories/C16/Run.v), direct oracle written from
the property text, exhaustive chunking generators."""

from harness import gal

TICK = 8               # ticks per second
T0 = 1000.0            # virtual start time (seconds)


MAX_SOCKET_CALLS = 2000     # per case: a receive loop of the code under test that does not end is cut off here


class Runaway(BaseException):
    """the code under test keeps calling the socket without end (never caught by `except Exception`)"""


def _ticks(t):
    v = t * TICK
    r = round(v)
    if abs(v - r) > 1e-9:
        raise ValueError(f'time {t} is not on the tick grid')
    return int(r)


# ------------------------------------------------------------------ implementation driver
def run_rx(case):
    """case: {'rx': True, 'eol': str (latin-1), 'queue': [[arrival_ticks, [bytes] | None], ...],
              'calls': [['readline', timeout_ticks] | ['readbytes', n, timeout_ticks] | ['flush'] | ['wait', ticks]]}"""
    import socket as real_socket
    import frappy.lib.asynconn as fa

    clock = {'now': T0}
    queue = [[T0 + a / TICK, None if d is None else bytes(d)] for a, d in case['queue']]
    info = {'slice': None, 'recvs': 0, 'selects': 0}

    class Clock:
        @staticmethod
        def time():
            return clock['now']

        @staticmethod
        def sleep(d):
            clock['now'] += d

    class Sock:
        def recv(self, n):
            info['recvs'] += 1
            if info['recvs'] > MAX_SOCKET_CALLS:
                raise Runaway(f'more than {MAX_SOCKET_CALLS} recv calls')
            sl = info['slice']
            if queue and queue[0][0] <= clock['now'] + sl:
                clock['now'] = max(clock['now'], queue[0][0])
                data = queue[0][1]
                if not data:
                    return b''          # end of the stream: stays
                queue.pop(0)
                return data
            clock['now'] += sl
            raise real_socket.timeout('timed out')

        def sendall(self, data):
            pass

        def shutdown(self, how):
            pass

        def close(self):
            pass

        def fileno(self):
            return -1

    class SockMod:
        timeout = real_socket.timeout
        gaierror = real_socket.gaierror
        error = real_socket.error
        SHUT_RDWR = real_socket.SHUT_RDWR

        @staticmethod
        def create_connection(addr, timeout=None):
            info['slice'] = timeout
            return Sock()

    class SelMod:
        @staticmethod
        def select(r, w, x, timeout=None):
            info['selects'] += 1
            if info['selects'] > MAX_SOCKET_CALLS:
                raise Runaway(f'more than {MAX_SOCKET_CALLS} select calls')
            return ([k for k in r if queue and queue[0][0] <= clock['now']], [], [])

    saved = [(fa, 'time', fa.time), (fa, 'socket', fa.socket), (fa, 'select', fa.select)]
    conn = None
    steps = []
    runaway = None
    try:
        fa.time = Clock
        fa.socket = SockMod
        fa.select = SelMod
        conn = fa.AsynConn('tcp://dev:1234', case['eol'].encode('latin-1'))
        for call in case['calls']:
            kind = call[0]
            try:
                if kind == 'readline':
                    r = conn.readline(call[1] / TICK)
                elif kind == 'readbytes':
                    r = conn.readbytes(call[1], call[2] / TICK)
                elif kind == 'flush':
                    r = conn.flush_recv()
                elif kind == 'wait':
                    clock['now'] += call[1] / TICK
                    r = None
                else:
                    raise ValueError(kind)
                out = ['none'] if r is None else ['data', list(r)]
            except fa.ConnectionClosed:
                out = ['closed']
            except TimeoutError:
                out = ['timeout']
            except Exception as e:         # anything else the code under test raises is data
                out = ['other', type(e).__name__]
            except Runaway as e:
                runaway = f'call {len(steps)} {call}: {e}'
                break
            steps.append({'out': out, 'now': _ticks(clock['now'] - T0), 'buf': list(conn._rxbuffer)[:4096],
                          'left': len(queue)})
        return {'rx': True, 'steps': steps, 'runaway': runaway, 'slice': _ticks(info['slice']), 'cls': type(conn).__name__,
                'recvs': info['recvs'], 'selects': info['selects']}
    finally:
        for mod, name, val in saved:
            setattr(mod, name, val)
        if conn is not None:
            conn.connection = None


# ------------------------------------------------------------------ encoding into Gallina
def _bytes(bs):
    return gal.lst(list(bs), gal.N)


def _item(it):
    a, d = it
    return f'(mkItem {gal.z(a)} {gal.option(d, _bytes)})'


def _call(c):
    if c[0] == 'readline':
        return f'(KReadline {gal.z(c[1])})'
    if c[0] == 'readbytes':
        return f'(KReadbytes {gal.nat(c[1])} {gal.z(c[2])})'
    if c[0] == 'flush':
        return 'KFlush'
    if c[0] == 'wait':
        return f'(KWait {gal.z(c[1])})'
    raise ValueError(c[0])


def _out(o):
    if o[0] == 'data':
        return f'(UData {_bytes(o[1])})'
    if o[0] == 'none':
        return 'UNone'
    if o[0] == 'timeout':
        return 'UTimeout'
    if o[0] == 'closed':
        return 'UClosed'
    raise ValueError(f'outcome outside the model: {o}')


def rx_term(case, obs):
    steps = []
    for c, s in zip(case['calls'], obs['steps']):
        steps.append('{| k_call := %s; k_out := %s; k_now := %s; k_buf := %s; k_left := %s |}' % (
            _call(c), _out(s['out']), gal.z(s['now']), _bytes(s['buf']), gal.nat(s['left'])))
    return '{| r_eol := %s; r_slice := %s; r_t0 := 0%%Z; r_queue := %s; r_steps := [%s] |}' % (
        _bytes(case['eol'].encode('latin-1')), gal.z(obs['slice']), gal.lst(case['queue'], _item), '; '.join(steps))


def encode_rx(case, obs):
    if obs.get('runaway') or len(obs['steps']) != len(case['calls']):
        raise ValueError('run did not complete')
    return f'(TRx {rx_term(case, obs)})'


# ------------------------------------------------------------------ direct oracle (from the property text: reply
# framing is independent of how the device's bytes are chunked; data that arrived before a command is sent - i.e. before
# the flush that precedes every send - is never returned; a call fails only if its frame did not arrive within its
# time-out).  Uses only what the fake socket saw (which chunks were taken when) and what the calls returned.
def oracle_rx(case, obs):
    fails = []

    def fail(cls, what):
        fails.append({'class': cls, 'what': what})

    eol = case['eol'].encode('latin-1')
    items = case['queue']
    # index of the end of the stream: nothing behind it is ever delivered
    end = next((k for k, (a, d) in enumerate(items) if not d), len(items))
    has_eof = end < len(items)
    if obs.get('cls') != 'AsynTcp':
        fail('rx-wrong-class', f"tcp uri gave {obs.get('cls')}")
        return fails
    if obs.get('runaway'):
        # every call has to end (with its reply or, within its time-out, with an error)
        fail('rx-receive-loop-does-not-end', f"{obs['runaway']}: the call kept polling the socket and was cut off")
    taken = 0              # chunks the code has taken from the socket so far
    pend = b''             # bytes taken and neither returned nor flushed
    now = 0
    for k, (call, st) in enumerate(zip(case['calls'], obs['steps'])):
        out = st['out']
        t0 = now
        now = st['now']
        ntaken = len(items) - st['left']
        if ntaken < taken or ntaken > end:
            fail('rx-socket-misuse', f'call {k} {call}: {ntaken} chunks taken after {taken} (stream has {end})')
            return fails
        new = b''.join(bytes(items[j][1]) for j in range(taken, ntaken))
        future = b''.join(bytes(items[j][1]) for j in range(ntaken, end))
        if out[0] == 'other':
            fail('rx-wrong-exception', f'call {k} {call} raised {out[1]}')
            return fails
        if call[0] == 'wait':
            continue
        if call[0] == 'flush':
            if out[0] == 'data':
                late = [j for j in range(ntaken, end) if items[j][0] <= t0]
                if late:
                    fail('rx-flush-incomplete', f'flush at {t0} left chunk {late[0]} (arrived at {items[late[0]][0]}) in the socket')
                pend = b''
            elif out[0] == 'closed':
                if not (has_eof and items[end][0] <= t0):
                    fail('rx-spurious-close', f'flush at {t0} reported a closed connection, the stream had not ended')
                return fails          # the communicator closes the connection now
            else:
                fail('rx-wrong-result', f'flush returned {out}')
            taken = ntaken
            continue
        # readline / readbytes
        total = pend + new + future
        timeout = call[-1]
        if call[0] == 'readline':
            pos = total.find(eol)
            want = None if pos < 0 else total[:pos]
            used = None if pos < 0 else pos + len(eol)
        else:
            n = call[1]
            want = total[:n] if len(total) >= n else None
            used = n
        if out[0] == 'data':
            got = bytes(out[1])
            if want is None or got != want:
                fail('rx-wrong-frame', f'call {k} {call} returned {got!r}; the first frame of the bytes not yet handed out '
                     f'({total!r}) is {want!r}' + (' [a flush precedes this call]'
                                                    if any(c[0] == 'flush' for c in case['calls'][:k]) else ''))
                return fails
            if len(pend + new) < used:
                fail('rx-wrong-frame', f'call {k} {call} returned {got!r} before its bytes were taken from the socket')
                return fails
            pend = (pend + new)[used:]
        else:
            if out[0] == 'closed' and not (has_eof and items[end][0] <= now):
                fail('rx-spurious-close', f'call {k} {call} reported a closed connection at {now}, the stream had not ended')
            if out[0] == 'none' and timeout:
                fail('rx-wrong-result', f'call {k} {call} returned None although a time-out was given')
            if out[0] == 'timeout' and not timeout:
                fail('rx-wrong-result', f'call {k} {call} raised TimeoutError although no time-out was given')
            if timeout:
                # chunks arriving up to the deadline are received; if they complete the frame it must be returned
                arrived = pend + b''.join(bytes(items[j][1]) for j in range(taken, end) if items[j][0] <= t0 + timeout)
                done = (eol in arrived) if call[0] == 'readline' else (len(arrived) >= call[1])
                if done:
                    fail('rx-frame-lost', f'call {k} {call} started at {t0} ended with {out[0]} at {now}, but its frame was '
                         f'complete in time: {arrived!r}')
                    return fails
                if out[0] == 'timeout':
                    last = max([t0 + timeout] + [items[j][0] for j in range(taken, ntaken)])
                    if now > last + obs['slice']:
                        fail('rx-timeout-exceeded', f'call {k} {call} started at {t0} failed only at {now} '
                             f'(time-out {timeout}, last chunk or deadline at {last})')
            pend += new
        taken = ntaken
    return fails


# ------------------------------------------------------------------ generators
def chunkings(data):
    """all cuts of data into non-empty chunks (2^(n-1))"""
    n = len(data)
    for mask in range(1 << max(0, n - 1)):
        parts, start = [], 0
        for i in range(1, n):
            if mask >> (i - 1) & 1:
                parts.append(data[start:i])
                start = i
        parts.append(data[start:])
        yield parts


LINE_STREAMS = [
    ('\n', b'ab\ncd\n'), ('\n', b'\n\na\nb'), (';', b'a;;b;c'),
    ('\r\n', b'ab\r\ncd\r\n'), ('\r\n', b'a\r\r\nb\r\n'), ('\r\n', b'\r\n\r\nx\r'), ('\r\n', b'a\rb\n\r\nc'),
    (';;', b'a;;;b;;'), (';;', b';;;;;x'), ('ab', b'aabbab'),
]
BYTE_STREAMS = [(3, b'ABCDEFGH'), (4, b'ABCDEFG'), (1, b'XYZ')]


def _timing(parts, gap):
    return [[k * gap, list(p)] for k, p in enumerate(parts)]


def exhaustive_cases():
    cases = []
    for eol, data in LINE_STREAMS:
        nlines = data.count(eol.encode('latin-1'))
        for idx, parts in enumerate(chunkings(data)):
            # (a) chunks 1 tick apart, generous time-out; (b) chunks 9 ticks apart (an empty slice between any two),
            # short time-out: calls fail in between and the buffer must survive; (c) a flush somewhere in the middle
            gap, tmo = ((1, 16), (9, 16), (3, 24))[idx % 3]
            calls = [['readline', tmo] for _ in range(nlines + (len(parts) * gap) // tmo + 2)]
            if idx % 3 == 2:
                w = (idx // 3) % (len(parts) * gap + 2)
                calls = [['wait', w], ['flush']] + calls
            if idx % 7 == 0:
                calls.append(['readline', 0])
            cases.append({'rx': True, 'eol': eol, 'queue': _timing(parts, gap), 'calls': calls, 'origin': 'exhaustive'})
    for n, data in BYTE_STREAMS:
        for idx, parts in enumerate(chunkings(data)):
            gap, tmo = ((1, 16), (9, 16), (3, 24))[idx % 3]
            calls = [['readbytes', n, tmo] for _ in range(len(data) // n + (len(parts) * gap) // tmo + 2)]
            if idx % 3 == 2:
                w = (idx // 3) % (len(parts) * gap + 2)
                calls = [['wait', w], ['flush']] + calls
            cases.append({'rx': True, 'eol': '\n', 'queue': _timing(parts, gap), 'calls': calls, 'origin': 'exhaustive'})
    return cases


def random_case(rng):
    eol = rng.choice(['\n', '\r\n', '\r\n', ';', ';;', 'ab'])
    alphabet = sorted(set(eol + 'xy' + eol))
    data = ''.join(rng.choice(alphabet) for _ in range(rng.randrange(0, 14))).encode('latin-1')
    queue = []
    t = 0
    pos = 0
    while pos < len(data):
        k = rng.choice([1, 1, 2, 3, 5])
        t += rng.choice([0, 0, 1, 3, 8, 9, 20])
        queue.append([t, list(data[pos:pos + k])])
        pos += k
    r = rng.random()
    if r < 0.3:
        queue.insert(rng.randrange(len(queue) + 1), [0, None])
        # keep arrival times sorted: the end of the stream takes the time of its successor / predecessor
        for k in range(len(queue)):
            if queue[k][1] is None:
                queue[k][0] = queue[k - 1][0] if k else 0
    elif r < 0.35 and queue:
        queue.append([queue[-1][0] + rng.choice([0, 4]), []])
    calls = []
    for _ in range(rng.randrange(1, 8)):
        r = rng.random()
        if r < 0.45:
            calls.append(['readline', rng.choice([0, 4, 8, 16, 16, 24])])
        elif r < 0.65:
            calls.append(['readbytes', rng.choice([0, 1, 2, 3, 5]), rng.choice([0, 8, 16, 20])])
        elif r < 0.85:
            calls.append(['flush'])
        else:
            calls.append(['wait', rng.choice([1, 5, 8, 30])])
    return {'rx': True, 'eol': eol, 'queue': queue, 'calls': calls, 'origin': 'random'}


def gen_rx_cases(rng, tier):
    n = {'quick': 400, 'thorough': 6000, 'search': 6000}[tier]
    return exhaustive_cases() + [random_case(rng) for _ in range(n)]


# ------------------------------------------------------------------ reporting helpers
def nontrivial_key_rx(case, obs):
    outs = [s['out'][0] for s in obs['steps']]
    if outs.count('data') < 1:
        return None
    return repr(('rx', case['eol'], case['queue'], case['calls']))


def outcome_labels_rx(case, obs):
    labs = {'rx'}
    for c, s in zip(case['calls'], obs['steps']):
        labs.add(f"rx:{c[0]}:{s['out'][0]}")
    if len(case['eol']) > 1:
        labs.add('rx:multi-byte-eol')
    return sorted(labs)


def sample_repr_rx(case, obs):
    return {'case': case, 'steps': obs['steps'][:12]}


def shrink_rx(case):
    calls = case['calls']
    for k in range(len(calls) - 1, 0, -1):
        yield dict(case, calls=calls[:k])
    for k in range(len(calls) - 1):
        if calls[k][0] in ('wait', 'readline', 'readbytes') and len(calls) > 1:
            yield dict(case, calls=calls[:k] + calls[k + 1:])
    q = case['queue']
    if len(q) > 1:
        yield dict(case, queue=q[:-1])
