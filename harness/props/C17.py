"""C17 — persistent parameters: implementation driver (in-memory file system around the real
frappy.persistent.PersistentMixin that records every file-system call and injects a crash or an OSError at any of
them), case encoder, direct oracle, generators"""
import base64
import functools
import io
import json
import os
import pathlib
import random
import struct

from harness import gal

ID = 'C17'
MODEL_TARGETS = ['theories/C17/Run.vo']
PROOF_TARGETS = ['theories/C17/Properties.vo']
PROPERTIES_V = 'theories/C17/Properties.v'
IMPORTS = 'Require Import FV.Gen.C17 FV.C17.Model FV.C17.ConcModel FV.C17.Run.'
CASE_TYPE = 'case'
CHECK = 'check_case'
SHARD_SIZE = 150
RULE = ('a case = a generated module class (1-4 parameters over int/bool/enum/string/double/scaled/blob/array/tuple/'
        'struct datatypes, persistent off/on/auto, with/without write method or writable flag, explicit defaults) + a '
        'history of operations on the real PersistentMixin (create module with a configuration, assign a parameter, '
        'saveParameters, writeInitParams, loadParameters, factory_reset, replace/remove the stored file by a corruption) '
        'where every operation carries at most one injected fault (crash before / crash after / OSError) at one '
        'file-system call: EVERY call made through the names frappy.persistent uses (open, os.*, pathlib objects below '
        'generalConfig.logdir, the file objects) is recorded, is a crash point and a fault point; a fault is addressed '
        'by the index of the call in the operation (whatever the call is) or by the name of the call; the recorded call '
        'sequence is compared with the one of the model; after a crash the module is re-created from the surviving '
        'directory.  Exhaustive part: for fixed modules every fault kind at every call index of a save (live module and '
        'start-up, 4 indices beyond the calls made today); corruptions: truncation at every byte, single bit flips, '
        'per-entry type changes, unknown keys, non-object documents, outdated shapes.  String values (utf-8 and plain '
        'StringType, also inside struct/array/tuple; assigned, configured, in stored documents) cover every class of '
        'code points: control characters, JSON-escaped characters, BMP non-ASCII, non-BMP, lone high and low surrogates '
        '(json.loads of an escaped half pair, surrogateescape) - each followed by assignments of other parameters, '
        'saves and restarts.  A case is non-trivial when at '
        'least one file write-out was attempted or a stored/corrupted file was loaded; distinct = distinct (module, '
        'history) pairs')
ASSUMPTIONS = [
    'os.rename within one directory is atomic with respect to crashes; a crash leaves every other file untouched; '
    'the in-memory file system is write-through (every f.write reaches the disk immediately), which exposes more '
    'intermediate states than a buffered file does',
    'one injected fault per operation; crash points lie before and after every file-system call made through open / os / '
    'pathlib / file objects as named in frappy/persistent.py (a call through another module, e.g. shutil or tempfile, '
    'bypasses the recorder: files it creates are noticed and the case is refused); an OSError injected at the reading '
    'open or at os.makedirs propagates out of start-up / loadParameters (observed, outside the quantifier of the property)',
    'the persistent directory exists once a module has been created (os.makedirs in __init__); nobody removes it',
    'the module clock advances by 1 s per time.time() call so that announceUpdate never omits an unchanged update '
    '(omit_unchanged_within = 0.1 s); values assigned and configured are valid canonical members of their datatype',
    'model = repaired code (fix: b610a07, 6518f2a, 66c61e0 and the datatype repairs): stored entries pass '
    'import_value, validate and export_value or are ignored',
    'json.dump/json.load, float(int), float*int, round(x/scale), base64 are CPython: their results enter the model as data '
    '(chunk count of a dump, integral floats as FInt, scaled and base64 tables) and are exercised by the correspondence',
    'durability without fsync and real power loss are file-system semantics and not covered',
    'the file objects of the in-memory file system have the text layer of the real open(): write(str) encodes at once '
    'with the encoding and error handler given to open (strict by default: a lone surrogate raises UnicodeEncodeError out '
    'of write, before any file-system call); model side: the text of a document is ASCII (facts dump_text_is_ascii, '
    'tmp_file_is_utf8_text), so no write fails for encoding reasons',
    'string values holding a high surrogate directly followed by a low surrogate as two code points are generated (a '
    'small share) and modelled: the JSON text reads back with the pair joined into one code point (jtext of Model.v); '
    'that the value is not restored is the open finding C17/adjacent-surrogate-pair-not-restored',
]

WORKDIR = os.path.join(os.path.dirname(os.path.dirname(os.path.dirname(os.path.abspath(__file__)))), '.work', 'C17-fs')
EQ = 'eq'
MODNAME = 'm'


class Crash(BaseException):
    """simulated death of the process"""


# ------------------------------------------------------------------ case values  <->  python values
# cv: None | bool | int | str | {'f': hex} | {'b': [ints]} | [cv...] | {'s': {key: cv}}
def to_py(cv, internal=True):
    if isinstance(cv, dict):
        if 'f' in cv:
            return float.fromhex(cv['f'])
        if 'b' in cv:
            return bytes(cv['b'])
        return {k: to_py(v, internal) for k, v in cv['s'].items()}
    if isinstance(cv, list):
        return tuple(to_py(v, internal) for v in cv) if internal else [to_py(v, internal) for v in cv]
    return cv


def from_py(obj):
    if obj is None or isinstance(obj, (bool, str)):
        return obj
    if isinstance(obj, int):
        return int(obj)
    if isinstance(obj, float):
        return {'f': obj.hex()}
    if isinstance(obj, (bytes, bytearray)):
        return {'b': list(obj)}
    if isinstance(obj, (tuple, list)):
        return [from_py(v) for v in obj]
    if isinstance(obj, dict):
        return {'s': {str(k): from_py(v) for k, v in obj.items()}}
    if type(obj).__name__ == 'EnumMember':
        return int(obj)
    return {'opaque': type(obj).__name__}


def cv_eq(a, b):
    """python == on case values (True == 1 == 1.0, dicts without order)"""
    return to_py(a) == to_py(b)


# ------------------------------------------------------------------ datatypes of a case
# dt: ['int', lo, hi] ['bool'] ['enum', [[name, value]...]] ['str', minc, maxc, utf8] ['float'] ['scaled', 'scale']
#     ['blob', minb, maxb] ['array', dt, minlen, maxlen] ['tuple', [dt...]] ['struct', [[name, dt]...], optional|None]
SCALED_RANGE = 8


def mk_datatype(dt):
    from frappy import datatypes as D
    k = dt[0]
    if k == 'int':
        return D.IntRange(dt[1], dt[2])
    if k == 'bool':
        return D.BoolType()
    if k == 'enum':
        return D.EnumType('e', members={n: v for n, v in dt[1]})
    if k == 'str':
        return D.StringType(dt[1], dt[2], isUTF8=dt[3])
    if k == 'float':
        return D.FloatRange()
    if k == 'scaled':
        s = float(dt[1])
        return D.ScaledInteger(s, -1000 * s, 1000 * s)
    if k == 'blob':
        return D.BLOBType(dt[1], dt[2])
    if k == 'array':
        return D.ArrayOf(mk_datatype(dt[1]), dt[2], dt[3])
    if k == 'tuple':
        return D.TupleOf(*[mk_datatype(d) for d in dt[1]])
    if k == 'struct':
        return D.StructOf(optional=dt[2], **{n: mk_datatype(d) for n, d in dt[1]})
    raise ValueError(dt)


def spec_export(dt, cv):
    """transport (JSON) form of a valid internal value, from the SECoP data model (not from the code)"""
    k = dt[0]
    if k in ('int', 'bool', 'str', 'enum'):
        return cv
    if k == 'float':
        return cv
    if k == 'scaled':
        return int(round(float.fromhex(cv['f']) / float(dt[1])))
    if k == 'blob':
        return base64.b64encode(bytes(cv['b'])).decode('ascii')
    if k == 'array':
        return [spec_export(dt[1], v) for v in cv]
    if k == 'tuple':
        return [spec_export(d, v) for d, v in zip(dt[1], cv)]
    if k == 'struct':
        md = dict((n, d) for n, d in dt[1])
        return {'s': {n: spec_export(md[n], v) for n, v in cv['s'].items()}}
    raise ValueError(dt)


def _is_int(j):
    return isinstance(j, int) and not isinstance(j, bool)


def spec_usable(dt, j, strict=True):
    """strict reading of a stored JSON entry: ('ok', internal cv) when j is a valid transport value of the datatype,
    else None (unusable); strict=False: do not look at the limits of int and the length of blob leaves"""
    k = dt[0]
    if k == 'int':
        return ('ok', j) if _is_int(j) and (not strict or dt[1] <= j <= dt[2]) else None
    if k == 'bool':
        return ('ok', j) if isinstance(j, bool) else None
    if k == 'enum':
        return ('ok', j) if _is_int(j) and j in [v for _, v in dt[1]] else None
    if k == 'str':
        if not isinstance(j, str) or not dt[1] <= len(j) <= dt[2] or '\0' in j:
            return None
        if not dt[3] and any(ord(c) > 127 for c in j):
            return None
        return ('ok', j)
    if k == 'float':
        if isinstance(j, dict) and 'f' in j:
            return ('ok', j)
        if _is_int(j) and abs(j) < 2 ** 53:
            return ('ok', {'f': float(j).hex()})
        return None
    if k == 'scaled':
        if _is_int(j) and abs(j) <= 1000:
            return ('ok', {'f': (float(dt[1]) * j).hex()})
        return None
    if k == 'blob':
        if not isinstance(j, str):
            return None
        try:
            b = base64.b64decode(j, validate=True)
        except Exception:
            return None
        return ('ok', {'b': list(b)}) if not strict or dt[1] <= len(b) <= dt[2] else None
    if k == 'array':
        if not isinstance(j, list) or not dt[2] <= len(j) <= dt[3]:
            return None
        r = [spec_usable(dt[1], x, strict) for x in j]
        return None if any(x is None for x in r) else ('ok', [x[1] for x in r])
    if k == 'tuple':
        if not isinstance(j, list) or len(j) != len(dt[1]):
            return None
        r = [spec_usable(d, x, strict) for d, x in zip(dt[1], j)]
        return None if any(x is None for x in r) else ('ok', [x[1] for x in r])
    if k == 'struct':
        if not (isinstance(j, dict) and 's' in j):
            return None
        names = [n for n, _ in dt[1]]
        optional = names if dt[2] is None else dt[2]      # StructOf(optional=None): every member is optional
        if set(j['s']) - set(names) or set(names) - set(j['s']) - set(optional):
            return None
        md = dict((n, d) for n, d in dt[1])
        r = {n: spec_usable(md[n], x, strict) for n, x in j['s'].items()}
        return None if any(x is None for x in r.values()) else ('ok', {'s': {n: x[1] for n, x in r.items()}})
    raise ValueError(dt)


def spec_valid(dt, cv):
    """is the internal value a member of the datatype's value set"""
    try:
        return spec_usable(dt, spec_export(dt, cv)) is not None
    except Exception:
        return False


# ------------------------------------------------------------------ in-memory file system with fault injection
# EVERY file-system call made through the names frappy/persistent.py uses (the builtin `open`, the module `os`, the
# pathlib objects derived from generalConfig.logdir, the file objects handed out) goes through FakeFS.call: it is
# appended to the call log of the operation, it is a crash point (before / after) and a fault point (OSError).  Nothing
# is specific to the calls the code makes today: a new call (os.remove of the target, Path.exists, os.fsync ...) is
# recorded, faulted and compared with the model like the others.
class Unmodelled(Exception):
    """a file-system call the in-memory file system cannot perform (it is in the call log: the model does not
    know it, the comparison fails closed)"""


FAKE_FD = 1 << 20


def base_name(call):
    b = call.split(':', 1)[0]
    return 'open' if b == 'open_w' else b


class FakeFS:
    def __init__(self, root):
        self.root = root
        self.pdir = os.path.join(root, 'persistent')
        self.target = os.path.join(self.pdir, f'{EQ}.{MODNAME}.json')
        self.tmp = self.target + '.tmp'
        self.files = {}       # path -> {'chunks': [str], 'data': json obj or None, 'n': int, 'closed': bool} | {'raw': bytes}
        self.dirs = {root}
        self.fault = None
        self.fired = None
        self.dead = False
        self.dumps = []       # data objects passed to json.dump in the current op
        self.oplog = []
        self.handles = {}     # fake fd -> Writer
        self.sched = None     # harness.dsched.Scheduler of a concurrent case: every call is a switch point
        self.conc = False     # concurrent case: files are inodes shared by all writers (POSIX semantics)
        self.events = []      # concurrent case: [thread, call, change of the stored file]
        self.cdumps = []      # concurrent case: [thread, dumped object, chunk count]

    def arm(self, fault):
        self.fault = fault
        self.fired = None
        self.dumps = []
        self.oplog = []

    # -- paths
    def norm(self, path):
        return os.path.normpath(os.path.join(self.root, os.fspath(path)))

    def is_fake(self, x):
        if isinstance(x, FakePath):
            return True
        if isinstance(x, int) and not isinstance(x, bool):
            return x >= FAKE_FD
        try:
            p = os.fspath(x)
        except TypeError:
            return False
        if isinstance(p, bytes):
            p = p.decode('utf-8', 'replace')
        p = os.path.normpath(p)
        return p == self.root or p.startswith(self.root + os.sep)

    def role(self, path):
        if isinstance(path, int):
            w = self.handles.get(path)
            return 'fd' if w is None else self.role(w.path)
        p = self.norm(path)
        if p == self.target:
            return 'target'
        if p == self.tmp:
            return 'tmp'
        if p == self.pdir:
            return 'dir'
        return os.path.relpath(p, self.root)

    # -- one file-system call
    def thread_name(self):
        t = self.sched.current_thread() if self.sched is not None else None
        return t.name if t is not None else 'main'

    def call(self, func, roles, effect, idx=None):
        if self.dead:
            raise Crash()
        name = func + (':' + roles if roles else '') + ('' if idx is None else f':{idx}')
        if self.conc:
            return self.conc_call(name, effect)
        index = len(self.oplog)
        kind = None
        f = self.fault
        if f and self.fired is None:
            if 'at' in f:
                hit = f['at'] == index
            else:
                hit = f['op'] in (func, base_name(name)) and (func != 'write' or f.get('i') == idx)
            if hit:
                self.fired = dict(f, index=index, call=name)
                kind = f['kind']
        self.oplog.append(name)
        if kind == 'cb':
            self.dead = True
            raise Crash()
        if kind == 'err':
            raise OSError(5, 'injected I/O error')
        if kind == 'ca':
            try:
                effect()
            except Exception:
                pass       # the process dies right after the system call returned, whatever it returned
            self.dead = True
            raise Crash()
        return effect()

    def conc_call(self, name, effect):
        """concurrent case: the call is a switch point of the deterministic scheduler BEFORE it takes effect; the
        stored file is looked at after every call (these are all the points at which a crash can find it)"""
        if self.sched is not None:
            self.sched.switch('fs:' + name)
        who = self.thread_name()
        before = file_bytes(self.files.get(self.target))
        ev = [who, name, None]
        self.events.append(ev)
        self.oplog.append(name)
        try:
            return effect()
        finally:
            after = file_bytes(self.files.get(self.target))
            if after != before:
                ev[2] = {'gone': True} if after is None else {'raw': list(after)}

    def unmodelled(self, func, *paths):
        roles = '>'.join(self.role(p) for p in paths if self.is_fake(p))

        def effect():
            raise Unmodelled(f'{func}({roles})')
        return self.call(func, roles, effect)

    def _need_parent(self, p):
        if os.path.dirname(p) not in self.dirs:
            raise FileNotFoundError(2, 'No such file or directory', p)

    # -- the calls
    def open(self, path, mode='r', buffering=-1, encoding=None, errors=None, newline=None, **kw):
        if isinstance(path, int):
            return self.unmodelled('open_fd', path)
        p = self.norm(path)
        if any(c in mode for c in 'wxa+'):
            def effect():
                self._need_parent(p)
                if p in self.dirs:
                    raise IsADirectoryError(21, 'Is a directory', p)
                if 'x' in mode and p in self.files:
                    raise FileExistsError(17, 'File exists', p)
                old = self.files.get(p)
                if self.conc:
                    if 'a' in mode or '+' in mode or 'x' in mode:
                        raise Unmodelled('open mode ' + mode)
                    if old is None:
                        old = self.files[p] = {'raw': b''}
                    else:                      # O_TRUNC: the SAME inode, whoever else has it open
                        for k in [k for k in old if k != 'raw']:
                            del old[k]
                        old['raw'] = b''
                    return ConcWriter(self, old, p, TextLayer(mode, encoding, errors, newline))
                if ('a' in mode or ('+' in mode and 'r' in mode)) and old is not None:
                    if 'raw' in old:
                        old = {'chunks': [old['raw'].decode('utf-8', 'surrogateescape')], 'data': None, 'n': 0}
                    f = {'chunks': list(old['chunks']), 'data': old.get('data'), 'n': old.get('n', 0), 'closed': False}
                elif '+' in mode and 'r' in mode:
                    raise FileNotFoundError(2, 'No such file or directory', p)
                else:
                    f = {'chunks': [], 'data': None, 'n': 0, 'closed': False}
                self.files[p] = f
                return Writer(self, f, p, TextLayer(mode, encoding, errors, newline))
            return self.call('open_w', self.role(p), effect)

        def reffect():
            if p in self.dirs:
                raise IsADirectoryError(21, 'Is a directory', p)
            f = self.files.get(p)
            if f is None:
                raise FileNotFoundError(2, 'No such file or directory', p)
            raw = file_bytes(f)
            if 'b' in mode:
                return io.BytesIO(raw)
            return io.TextIOWrapper(io.BytesIO(raw), encoding=encoding or 'utf-8', errors=errors, newline=newline)
        return self.call('open_r', self.role(p), reffect)

    def rename(self, a, b, func='rename'):
        a, b = self.norm(a), self.norm(b)

        def effect():
            if a in self.dirs:
                raise Unmodelled('rename of a directory')
            if a not in self.files:
                raise FileNotFoundError(2, 'No such file or directory', a)
            self._need_parent(b)
            if b in self.dirs:
                raise IsADirectoryError(21, 'Is a directory', b)
            self.files[b] = self.files.pop(a)
        return self.call(func, f'{self.role(a)}>{self.role(b)}', effect)

    def remove(self, a, missing_ok=False):
        a = self.norm(a)

        def effect():
            if a in self.dirs:
                raise IsADirectoryError(21, 'Is a directory', a)
            if a not in self.files:
                if missing_ok:
                    return
                raise FileNotFoundError(2, 'No such file or directory', a)
            del self.files[a]
        return self.call('remove', self.role(a), effect)

    def makedirs(self, path, mode=0o777, exist_ok=False):
        p = self.norm(path)

        def effect():
            if p in self.files:
                raise FileExistsError(17, 'File exists', p)
            if p in self.dirs:
                if exist_ok:
                    return
                raise FileExistsError(17, 'File exists', p)
            q = p
            while q not in self.dirs and q.startswith(self.root):
                self.dirs.add(q)
                q = os.path.dirname(q)
        return self.call('makedirs', self.role(p), effect)

    def mkdir(self, path, mode=0o777, parents=False, exist_ok=False):
        p = self.norm(path)

        def effect():
            if p in self.dirs or p in self.files:
                if exist_ok and p in self.dirs:
                    return
                raise FileExistsError(17, 'File exists', p)
            if os.path.dirname(p) not in self.dirs and not parents:
                raise FileNotFoundError(2, 'No such file or directory', p)
            q = p
            while q not in self.dirs and q.startswith(self.root):
                self.dirs.add(q)
                q = os.path.dirname(q)
        return self.call('mkdir', self.role(p), effect)

    def rmdir(self, path):
        p = self.norm(path)

        def effect():
            if p not in self.dirs:
                raise FileNotFoundError(2, 'No such file or directory', p)
            if any(os.path.dirname(q) == p for q in list(self.files) + list(self.dirs)):
                raise OSError(39, 'Directory not empty', p)
            self.dirs.discard(p)
        return self.call('rmdir', self.role(p), effect)

    def query(self, func, path):
        p = self.norm(path)

        def effect():
            if func == 'exists':
                return p in self.files or p in self.dirs
            if func == 'is_dir':
                return p in self.dirs
            if func == 'is_file':
                return p in self.files
            if func == 'listdir':
                if p not in self.dirs:
                    raise FileNotFoundError(2, 'No such file or directory', p)
                return sorted(os.path.basename(q) for q in list(self.files) + list(self.dirs)
                              if os.path.dirname(q) == p)
            if func == 'getsize':
                if p not in self.files:
                    raise FileNotFoundError(2, 'No such file or directory', p)
                return len(file_bytes(self.files[p]))
            raise Unmodelled(func)
        return self.call(func, self.role(p), effect)

    def touch(self, path, exist_ok=True):
        p = self.norm(path)

        def effect():
            self._need_parent(p)
            if p in self.files:
                if not exist_ok:
                    raise FileExistsError(17, 'File exists', p)
                return
            self.files[p] = {'chunks': [], 'data': None, 'n': 0, 'closed': True}
        return self.call('touch', self.role(p), effect)


class TextLayer:
    """the text layer of a file object as the real `open(path, mode, encoding=..., errors=..., newline=...)` builds it
    (io.TextIOWrapper): str.write(s) ENCODES s at once with the codec and the error handler given to open - the
    default handler is 'strict', so a lone surrogate handed to a utf-8 file raises UnicodeEncodeError out of write()
    before anything of that chunk reaches the file (what was written before stays; close() still works) - and
    translates '\n' as newline= says.  Binary mode: bytes-like objects only."""
    def __init__(self, mode='w', encoding=None, errors=None, newline=None):
        self.binary = 'b' in mode
        if self.binary:
            if encoding is not None or errors is not None or newline is not None:
                raise ValueError("binary mode doesn't take an encoding/errors/newline argument")
            self.encoding = self.errors = None
            return
        if encoding is None or encoding == 'locale':
            import locale
            encoding = locale.getpreferredencoding(False)
        import codecs
        codecs.lookup(encoding)                       # LookupError like the real open
        if errors is not None:
            codecs.lookup_error(errors)
        if newline not in (None, '', '\n', '\r', '\r\n'):
            raise ValueError(f'illegal newline value: {newline!r}')
        self.encoding, self.errors = encoding, errors or 'strict'
        self.nl = os.linesep if newline is None else (newline or '\n')
        # the incremental encoder io.TextIOWrapper uses (stateful codecs write their BOM once)
        self.enc = codecs.getincrementalencoder(encoding)(self.errors)

    def encode(self, s):
        """bytes that reach the file for write(s); raises what the real file object raises"""
        if self.binary:
            if isinstance(s, str):
                raise TypeError("a bytes-like object is required, not 'str'")
            return bytes(s)
        if not isinstance(s, str):
            raise TypeError(f'write() argument must be str, not {type(s).__name__}')
        if self.nl != '\n':
            s = s.replace('\n', self.nl)
        return self.enc.encode(s)


class Writer:
    """file object of a file opened for writing: write, flush and close are file-system calls"""
    def __init__(self, fs, f, path, layer=None):
        self.fs, self.f, self.path, self.count = fs, f, path, 0
        self.fd = FAKE_FD + len(fs.handles)
        fs.handles[self.fd] = self
        self.name = path
        self.layer = layer or TextLayer('w', 'utf-8')
        self.mode = 'wb' if self.layer.binary else 'w'
        self.encoding = self.layer.encoding
        self.errors = self.layer.errors

    @property
    def closed(self):
        return self.f['closed']

    def write(self, s):
        if self.f['closed']:
            raise ValueError('I/O operation on closed file.')
        i = self.count
        # the text layer encodes first (UnicodeEncodeError / TypeError come out of write() before any file-system call)
        b = self.layer.encode(s)
        text = b.decode('utf-8', 'surrogateescape')     # chunks are kept as text; file_bytes() inverts this exactly

        def effect():
            self.f['chunks'].append(text)
        self.fs.call('write', self.fs.role(self.path), effect, i)
        self.count += 1
        return len(s)

    def writelines(self, lines):
        for ln in lines:
            self.write(ln)

    def flush(self):
        if self.f['closed']:
            raise ValueError('I/O operation on closed file.')
        self.fs.call('flush', self.fs.role(self.path), lambda: None)

    def fileno(self):
        return self.fd

    def close(self):
        if self.f['closed']:
            return

        def effect():
            self.f['closed'] = True
        self.fs.call('close', self.fs.role(self.path), effect)

    def writable(self):
        return True

    def readable(self):
        return False

    def __enter__(self):
        return self

    def __exit__(self, *exc):
        self.close()
        return False

    def __getattr__(self, name):
        if name.startswith('__'):
            raise AttributeError(name)
        return lambda *a, **k: self.fs.unmodelled('file.' + name, self.path)


class ConcWriter:
    """file object of a concurrent case: writes go to the inode at the offset of THIS file object (holes are
    filled with NUL bytes), wherever the inode is linked now"""
    def __init__(self, fs, inode, path, layer=None):
        self.fs, self.f, self.path, self.count, self.pos, self.closed = fs, inode, path, 0, 0, False
        self.name = path
        self.layer = layer or TextLayer('w', 'utf-8')
        self.mode = 'wb' if self.layer.binary else 'w'
        self.encoding = self.layer.encoding
        self.errors = self.layer.errors

    def write(self, s):
        if self.closed:
            raise ValueError('I/O operation on closed file.')
        b = self.layer.encode(s)        # strict text layer: see TextLayer

        def effect():
            raw = self.f['raw']
            if len(raw) < self.pos:
                raw = raw + b'\0' * (self.pos - len(raw))
            self.f['raw'] = raw[:self.pos] + b + raw[self.pos + len(b):]
            self.pos += len(b)
        self.fs.call('write', self.fs.role(self.path), effect, self.count)
        self.count += 1
        return len(s)

    def flush(self):
        self.fs.call('flush', self.fs.role(self.path), lambda: None)

    def close(self):
        if self.closed:
            return

        def effect():
            self.closed = True
        self.fs.call('close', self.fs.role(self.path), effect)

    def __enter__(self):
        return self

    def __exit__(self, *exc):
        self.close()
        return False

    def __getattr__(self, name):
        if name.startswith('__'):
            raise AttributeError(name)
        return lambda *a, **k: self.fs.unmodelled('file.' + name, self.path)


_PATH_UNMODELLED = ('stat', 'lstat', 'is_mount', 'is_symlink', 'is_junction', 'is_block_device', 'is_char_device',
                    'is_fifo', 'is_socket', 'samefile', 'iterdir', 'glob', 'rglob', 'walk', 'owner', 'group', 'readlink',
                    'chmod', 'lchmod', 'symlink_to', 'hardlink_to', 'link_to')


class FakePath(pathlib.PosixPath):
    """generalConfig.logdir of a case: every path frappy.persistent derives from it (/, .parent, with_name ...) is a
    FakePath again, whose file-system methods go to the in-memory file system"""
    _fs = None

    def exists(self, *, follow_symlinks=True):
        return self._fs.query('exists', self)

    def is_dir(self):
        return self._fs.query('is_dir', self)

    def is_file(self):
        return self._fs.query('is_file', self)

    def mkdir(self, mode=0o777, parents=False, exist_ok=False):
        return self._fs.mkdir(self, mode, parents, exist_ok)

    def rmdir(self):
        return self._fs.rmdir(self)

    def unlink(self, missing_ok=False):
        return self._fs.remove(self, missing_ok)

    def rename(self, target):
        self._fs.rename(self, target)
        return self.with_segments(target)

    def replace(self, target):
        self._fs.rename(self, target)
        return self.with_segments(target)

    def open(self, mode='r', buffering=-1, encoding=None, errors=None, newline=None):
        return self._fs.open(self, mode, buffering, encoding, errors, newline)

    def touch(self, mode=0o666, exist_ok=True):
        return self._fs.touch(self, exist_ok)

    def absolute(self):
        return self

    def resolve(self, strict=False):
        return self

    def expanduser(self):
        return self


def _mk_unmodelled(name):
    def method(self, *a, **k):
        return self._fs.unmodelled('path.' + name, self, *[x for x in a if self._fs.is_fake(x)])
    method.__name__ = name
    return method


for _n in _PATH_UNMODELLED:
    if hasattr(pathlib.Path, _n):
        setattr(FakePath, _n, _mk_unmodelled(_n))


def chunks_of(data):
    return list(json.JSONEncoder(indent=2).iterencode(data)) + ['\n']


_OS_PURE = {'fspath', 'fsencode', 'fsdecode', 'getpid', 'getppid', 'getcwd', 'getenv', 'strerror', 'urandom',
            'cpu_count', 'getuid', 'geteuid', 'getgid', 'getlogin', 'uname', 'times', 'get_terminal_size', 'PathLike'}


class FakeOsPath:
    def __init__(self, fs):
        self._fs = fs

    def _q(self, func, real, path):
        if self._fs.is_fake(path):
            return self._fs.query(func, path)
        return real(path)

    def exists(self, path):
        return self._q('exists', os.path.exists, path)

    lexists = exists

    def isdir(self, path):
        return self._q('is_dir', os.path.isdir, path)

    def isfile(self, path):
        return self._q('is_file', os.path.isfile, path)

    def getsize(self, path):
        return self._q('getsize', os.path.getsize, path)

    def __getattr__(self, name):
        attr = getattr(os.path, name)
        if not callable(attr) or name in ('join', 'dirname', 'basename', 'split', 'splitext', 'normpath', 'isabs',
                                          'abspath', 'relpath', 'commonpath', 'commonprefix', 'expanduser',
                                          'expandvars', 'normcase', 'splitdrive', 'realpath'):
            return attr

        def wrapper(*a, **k):
            fake = [x for x in a if self._fs.is_fake(x)]
            if fake:
                return self._fs.unmodelled('os.path.' + name, *fake)
            return attr(*a, **k)
        return wrapper


class FakeOs:
    """stands for the module `os` inside frappy.persistent: calls on paths below the log directory of the case go to
    the in-memory file system (known ones are performed, unknown ones are recorded and fail), the rest is the real os"""
    def __init__(self, fs):
        self._fs = fs
        self.path = FakeOsPath(fs)

    def makedirs(self, name, mode=0o777, exist_ok=False):
        return self._fs.makedirs(name, mode, exist_ok)

    def mkdir(self, path, mode=0o777, **kw):
        return self._fs.mkdir(path, mode)

    def rmdir(self, path, **kw):
        return self._fs.rmdir(path)

    def rename(self, a, b, **kw):
        return self._fs.rename(a, b)

    def replace(self, a, b, **kw):
        return self._fs.rename(a, b)

    def remove(self, a, **kw):
        return self._fs.remove(a)

    def unlink(self, a, **kw):
        return self._fs.remove(a)

    def listdir(self, path='.'):
        if self._fs.is_fake(path):
            return self._fs.query('listdir', path)
        return os.listdir(path)

    def fsync(self, fd):
        if self._fs.is_fake(fd):
            return self._fs.call('fsync', self._fs.role(fd), lambda: None)      # the file system is write-through
        return os.fsync(fd)

    fdatasync = fsync

    def __getattr__(self, name):
        attr = getattr(os, name)
        if not callable(attr) or name in _OS_PURE or isinstance(attr, type):
            return attr

        def wrapper(*a, **k):
            fake = [x for x in list(a) + list(k.values()) if self._fs.is_fake(x)]
            if fake:
                return self._fs.unmodelled('os.' + name, *fake)
            return attr(*a, **k)
        return wrapper


class FakeJson:
    """records the object given to json.dump (instrumentation only), delegates to the real module"""
    def __init__(self, fs):
        self._fs = fs

    def dump(self, obj, fp, **kw):
        try:
            n = len(chunks_of(obj))
        except Exception:
            n = 0
        self._fs.dumps.append((obj, n))
        if self._fs.conc:
            self._fs.cdumps.append([self._fs.thread_name(), obj, n])
        if isinstance(fp, Writer):
            fp.f['data'] = obj
            fp.f['n'] = n
        return json.dump(obj, fp, **kw)

    def __getattr__(self, name):
        return getattr(json, name)


class FakeTime:
    def __init__(self):
        self.t = 1000.0

    def time(self):
        self.t += 1.0
        return self.t

    def __getattr__(self, name):
        import time
        return getattr(time, name)


class Log:
    handlers = []

    def __getattr__(self, name):
        return lambda *a, **k: None


_classes = {}


def mk_class(params):
    """params: [{'dt', 'pers': 'off'|'on'|'auto'|None, 'w': 'none'|'flag'|'method', 'default': cv}]; names p0, p1, ..."""
    key = json.dumps(params, sort_keys=True)
    if key in _classes:
        return _classes[key]
    from frappy.modules import Module
    from frappy.params import Parameter
    from frappy.persistent import PersistentParam, PersistentMixin
    ns = {}
    for i, p in enumerate(params):
        name = f'p{i}'
        kw = {'default': to_py(p['default']), 'readonly': p['w'] == 'none'}
        if p['pers'] is None:
            ns[name] = Parameter('', mk_datatype(p['dt']), **kw)
        else:
            ns[name] = PersistentParam('', mk_datatype(p['dt']), persistent=p['pers'], **kw)
        if p['w'] == 'method':
            def wfunc(self, value, name=name):
                self.hwlog.append(name)
                return value
            wfunc.__name__ = 'write_' + name
            ns['write_' + name] = wfunc
    ns['hwlog'] = []
    cls = type('Mod%d' % len(_classes), (PersistentMixin, Module), ns)
    _classes[key] = cls
    return cls


class SecNodeStub:
    equipment_id = EQ


class DispatcherStub:
    def announce_update(self, moduleobj, pobj):
        pass


class ServerStub:
    def __init__(self):
        self.dispatcher = DispatcherStub()
        self.secnode = SecNodeStub()


def parse_foreign(raw):
    """what json.load makes of foreign bytes: 'invalid' | ['obj', {name: cv}] | 'other'  (CPython, spec side)"""
    try:
        v = json.loads(raw.decode('utf-8'))
    except ValueError:
        return 'invalid'
    if isinstance(v, dict):
        return ['obj', {k: from_py(x) for k, x in v.items()}]
    return 'other'


def file_bytes(f):
    if f is None:
        return None
    return f['raw'] if 'raw' in f else ''.join(f['chunks']).encode('utf-8', 'surrogateescape')


def to_json(cv):
    """case value -> python object as json.load would return it"""
    return to_py(cv, internal=False)


def corrupt_bytes(spec, f):
    """new content of the stored file (None = no file) for a corruption spec"""
    cur = file_bytes(f)
    if 'remove' in spec:
        return None
    if 'raw' in spec:
        return bytes(spec['raw'])
    if 'text' in spec:
        return spec['text'].encode('utf-8')
    if 'doc' in spec:
        return json.dumps(to_json(spec['doc']), indent=spec.get('indent')).encode('utf-8')
    if cur is None:
        return None
    if 'trunc' in spec:
        return cur[:spec['trunc'] % (len(cur) + 1)]
    if 'flip' in spec:
        if not cur:
            return cur
        pos = spec['flip'][0] % len(cur)
        return cur[:pos] + bytes([cur[pos] ^ (1 << (spec['flip'][1] % 8))]) + cur[pos + 1:]
    raise ValueError(spec)


def canon_file(f):
    if f is None:
        return None
    if 'raw' in f:
        return {'foreign': parse_foreign(f['raw'])}
    k = len(f['chunks'])
    text = ''.join(f['chunks'])
    data = f['data']
    ok = True
    if k:
        try:
            ok = chunks_of(data)[:k] == f['chunks']
        except Exception:
            ok = False
    return {'k': k, 'n': f['n'], 'data': None if data is None else {kk: from_py(v) for kk, v in data.items()}
            if isinstance(data, dict) else {'opaque': 'nondict'},
            'consistent': ok, 'text': text}


def run_case(case):
    if case.get('kind') == 'conc':
        return run_conc(case)
    return run_seq(case)


def run_seq(case):
    import frappy.persistent as P
    import frappy.modulebase as MB
    from frappy.lib import generalConfig
    from pathlib import Path

    os.makedirs(os.path.join(WORKDIR, 'persistent'), exist_ok=True)    # (real, stays empty: stray writes are noticed)
    fs = FakeFS(WORKDIR)
    params = case['params']
    names = [f'p{i}' for i in range(len(params))]
    target, tmp = fs.target, fs.tmp
    saved = {}
    prev_fs = FakePath._fs
    FakePath._fs = fs
    sentinel = object()
    for modobj, attr, new in ((P, 'open', fs.open), (P, 'os', FakeOs(fs)), (P, 'json', FakeJson(fs)),
                              (MB, 'time', FakeTime())):
        saved[(modobj, attr)] = modobj.__dict__.get(attr, sentinel)
        setattr(modobj, attr, new)
    try:
        try:
            prev_logdir = generalConfig.logdir
        except Exception:
            prev_logdir = sentinel
        generalConfig.logdir = FakePath(WORKDIR)
        cls = mk_class(params)
        m = None
        steps = []
        for op in case['ops']:
            kind = op[0]
            fs.arm(op[-1] if kind != 'corrupt' else None)
            exc = None
            crashed = False
            if fs.dead and kind == 'init':
                fs.dead = False      # a new process starts on the surviving directory
            try:
                if kind == 'corrupt':
                    raw = corrupt_bytes(op[1], fs.files.get(target))
                    if raw is None:
                        fs.files.pop(target, None)
                    else:
                        fs.dirs.update((fs.root, fs.pdir))
                        fs.files[target] = {'raw': raw}
                elif kind == 'init':
                    m = None
                    cfg = {n: {'value': to_py(v)} for n, v in op[1].items()}
                    cfg['description'] = ''
                    cls.hwlog = []
                    m = cls(MODNAME, Log(), cfg, ServerStub())
                elif m is None:
                    exc = 'NoModule'
                elif kind == 'set':
                    setattr(m, op[1], to_py(op[2]))
                elif kind == 'save':
                    m.saveParameters()
                elif kind == 'writeinit':
                    m.writeInitParams()
                elif kind == 'load':
                    m.loadParameters()
                elif kind == 'reset':
                    m.factory_reset()
                else:
                    raise ValueError(kind)
            except Crash:
                crashed = True
                m = None
            except Exception as e:
                exc = type(e).__name__
                if kind == 'init':
                    m = None
            st = {'exc': exc, 'crashed': crashed, 'fired': fs.fired is not None,
                  'fired_at': None if fs.fired is None else [fs.fired['index'], fs.fired['call']],
                  'oplog': list(fs.oplog),
                  'n': fs.dumps[0][1] if fs.dumps else 0, 'ndumps': len(fs.dumps),
                  'target': canon_file(fs.files.get(target)), 'tmp': canon_file(fs.files.get(tmp)),
                  'raw': None if file_bytes(fs.files.get(target)) is None else list(file_bytes(fs.files.get(target))),
                  'other': sorted(p for p in fs.files if p not in (target, tmp)),
                  'mod': None}
            if m is not None:
                pd = m.persistentData
                st['mod'] = {
                    'vals': {n: from_py(m.parameters[n].value) for n in names},
                    'wd': [[n, from_py(v)] for n, v in m.writeDict.items()],
                    'pd': {k: from_py(v) for k, v in pd.items()} if isinstance(pd, dict) else 'nondict',
                    'init': {n: from_py(v) for n, v in m.initData.items()},
                }
            steps.append(st)
        stray = []
        for root, _, files in os.walk(WORKDIR):
            for fn in files:
                stray.append(fn)
                try:
                    os.remove(os.path.join(root, fn))
                except OSError:
                    pass
        return {'steps': steps, 'stray': stray}
    finally:
        FakePath._fs = prev_fs
        for (modobj, attr), old in saved.items():
            if old is sentinel:
                try:
                    delattr(modobj, attr)
                except AttributeError:
                    pass
            else:
                setattr(modobj, attr, old)
        try:
            if prev_logdir is not sentinel:
                generalConfig.logdir = prev_logdir
        except Exception:
            pass



# ------------------------------------------------------------------ concurrent cases (real threads under harness/dsched.py)
# case: {'kind': 'conc', 'params': [...], 'threads': [[[pname, value], ...], ...], 'sched': {'seed': k, 'stick': x} |
#        {'points': {step: index}} | {'decisions': [thread names]}}
# The module is created (fault free) on an empty directory; then thread Ti assigns its values one after the other with
# `m.<pname> = value` (Parameter.__set__ -> announceUpdate -> callbacks -> saveParameters for persistent='auto').
# Switch points of the deterministic scheduler: the acquisition of updateLock (a dsched RLock) and EVERY recorded
# file-system call (before it takes effect).  The stored file is looked at after every file-system call.
def _sched_policy(spec):
    from harness import dsched
    if 'decisions' in spec:
        return dsched.Explicit(spec['decisions'])
    if 'points' in spec:
        return dsched.Preempt(spec['points'])
    return dsched.Seeded(spec['seed'], spec.get('stick', 0.0))


def run_conc(case):
    import frappy.persistent as P
    import frappy.modulebase as MB
    from frappy.lib import generalConfig
    from harness import dsched

    os.makedirs(os.path.join(WORKDIR, 'persistent'), exist_ok=True)
    fs = FakeFS(WORKDIR)
    params = case['params']
    names = [f'p{i}' for i in range(len(params))]
    saved = {}
    prev_fs = FakePath._fs
    FakePath._fs = fs
    sentinel = object()
    for modobj, attr, new in ((P, 'open', fs.open), (P, 'os', FakeOs(fs)), (P, 'json', FakeJson(fs)),
                              (MB, 'time', FakeTime())):
        saved[(modobj, attr)] = modobj.__dict__.get(attr, sentinel)
        setattr(modobj, attr, new)
    try:
        try:
            prev_logdir = generalConfig.logdir
        except Exception:
            prev_logdir = sentinel
        generalConfig.logdir = FakePath(WORKDIR)
        cls = mk_class(params)
        cls.hwlog = []
        fs.arm(None)
        res = {'init_exc': None, 'stray': []}
        try:
            m = cls(MODNAME, Log(), {'description': ''}, ServerStub())
        except Exception as e:
            res['init_exc'] = type(e).__name__
            return res
        res['n0'] = fs.dumps[0][1] if fs.dumps else 0
        res['init_raw'] = None if file_bytes(fs.files.get(fs.target)) is None else list(file_bytes(fs.files.get(fs.target)))
        sched = dsched.Scheduler(_sched_policy(case['sched']), max_steps=4000)
        m.updateLock = sched.RLock()
        m.updateLock.name = 'U'
        fs.arm(None)
        fs.sched, fs.conc = sched, True
        done = [[] for _ in case['threads']]       # per thread, per assignment: [exception name or None, chunk count of its dump or 0]

        def worker(i):
            me = f'T{i}'
            for pname, value in case['threads'][i]:
                k = sum(1 for d in fs.cdumps if d[0] == me)
                exc = None
                try:
                    setattr(m, pname, to_py(value))
                except Exception as e:
                    exc = type(e).__name__
                mine = [d for d in fs.cdumps if d[0] == me]
                done[i].append([exc, mine[k][2] if len(mine) > k else 0, len(mine) - k])

        def main():
            hs = [sched.spawn(worker, f'T{i}', i) for i in range(len(case['threads']))]
            for h in hs:
                h.join()

        rr = sched.run(main)
        fs.sched, fs.conc = None, False
        first, last = {}, {}
        for k, (t, _, _) in enumerate(rr.trace):
            first.setdefault(t, k)
            last[t] = k
        res['contended'] = sum(1 for k, (_, enabled, _) in enumerate(rr.steps) for t in first
                               if t != 'main' and first[t] < k <= last[t] and t not in enabled)
        res.update({
            'status': rr.status, 'error': rr.error, 'thread_errors': rr.thread_errors, 'decisions': list(rr.decisions),
            'trace': [[t, lab] for t, lab, _ in rr.trace], 'events': fs.events, 'done': done,
            'dumps': [[t, {k: from_py(v) for k, v in obj.items()} if isinstance(obj, dict) else None, n]
                      for t, obj, n in fs.cdumps],
        })
        pd = m.persistentData
        res['mod'] = {'vals': {n: from_py(m.parameters[n].value) for n in names},
                      'wd': [[n, from_py(v)] for n, v in m.writeDict.items()],
                      'pd': {k: from_py(v) for k, v in pd.items()} if isinstance(pd, dict) else 'nondict',
                      'init': {n: from_py(v) for n, v in m.initData.items()}}
        tb, mb = file_bytes(fs.files.get(fs.target)), file_bytes(fs.files.get(fs.tmp))
        res['raw'] = None if tb is None else list(tb)
        res['tmp_raw'] = None if mb is None else list(mb)
        res['other'] = sorted(q for q in fs.files if q not in (fs.target, fs.tmp))
        # a restart from the directory as it is now
        fs.arm(None)
        try:
            m2 = cls(MODNAME, Log(), {'description': ''}, ServerStub())
            res['restart'] = {'exc': None, 'vals': {n: from_py(m2.parameters[n].value) for n in names}}
        except Exception as e:
            res['restart'] = {'exc': type(e).__name__, 'vals': None}
        for root, _, files in os.walk(WORKDIR):
            for fn in files:
                res['stray'].append(fn)
                try:
                    os.remove(os.path.join(root, fn))
                except OSError:
                    pass
        return res
    finally:
        fs.sched, fs.conc = None, False
        FakePath._fs = prev_fs
        for (modobj, attr), old in saved.items():
            if old is sentinel:
                try:
                    delattr(modobj, attr)
                except AttributeError:
                    pass
            else:
                setattr(modobj, attr, old)
        try:
            if prev_logdir is not sentinel:
                generalConfig.logdir = prev_logdir
        except Exception:
            pass


def _conc_tid(name):
    return int(name[1:])


def _conc_content(raw, obs):
    """content of a file of a concurrent run as the model describes it: the complete text of one of the dumped
    documents, or foreign bytes"""
    if raw is None:
        return None
    raw = bytes(raw)
    if obs.get('init_raw') is not None and raw == bytes(obs['init_raw']):
        doc = json.loads(raw.decode('utf-8'))
        return {'k': obs['n0'], 'n': obs['n0'], 'data': {k: from_py(v) for k, v in doc.items()}, 'consistent': True}
    for _, data, n in reversed(obs['dumps']):
        if data is not None and ''.join(chunks_of({k: to_json(v) for k, v in data.items()})).encode('utf-8') == raw:
            return {'k': n, 'n': n, 'data': data, 'consistent': True}
    return {'foreign': parse_foreign(raw)}


def _encode_conc(case, obs):
    if obs.get('stray'):
        raise ValueError(f'files written past the patched names (real file system): {obs["stray"]}')
    if obs.get('init_exc'):
        raise ValueError(f'start-up of the concurrent case raised {obs["init_exc"]}')
    if obs['status'] != 'ok' or obs['error'] or obs['thread_errors']:
        raise ValueError(f'concurrent run did not finish: {obs["status"]} {obs["error"]} {obs["thread_errors"]}')
    if obs['other']:
        raise ValueError(f'unexpected files: {obs["other"]}')
    params = case['params']
    pseudo = {'params': params, 'ops': [['set', p, v] for th in case['threads'] for p, v in th]}
    T = Tables(pseudo, {'steps': []})
    K = Keys(len(params))
    M = []
    for p in params:
        M.append('{| p_dt := %s; p_pers := %s; p_hasw := %s; p_default := %s |}' % (
            enc_dt(p['dt'], T), gal.nat({None: 0, 'off': 0, 'on': 1, 'auto': 2}[p['pers']]),
            gal.boolean(p['w'] != 'none'), enc_val(p['default'])))
    thr = []
    for th, dn in zip(case['threads'], obs['done']):
        items = []
        for (pname, value), (exc, n, nd) in zip(th, dn):
            if exc is not None:
                raise ValueError(f'assignment raised {exc}')
            if nd > 1:
                raise ValueError('more than one json.dump in one assignment')
            items.append('{| a_p := %s; a_v := %s; a_n := %s |}' % (gal.nat(K(pname)), enc_val(value), gal.nat(n)))
        thr.append('[%s]' % '; '.join(items))
    sched = [gal.nat(_conc_tid(t)) for t, lab in obs['trace'] if t != 'main' and lab != 'start']
    events = []
    for who, call, _ in obs['events']:
        if who == 'main':
            raise ValueError('file-system call outside the worker threads')
        events.append(f'({gal.nat(_conc_tid(who))}, {model_call(call)})')
    m = obs['mod']
    ms = '{| vals := %s; wdict := %s; pdata := %s; initd := %s |}' % (
        enc_amap(m['vals'], K), enc_amap(m['wd'], K),
        'None' if m['pd'] == 'nondict' else f'(Some {enc_amap(m["pd"], K)})', enc_amap(m['init'], K))
    return ('(CConc {| k_M := [%s]; k_n0 := %s; k_thr := [%s]; k_sched := [%s];\n k_events := [%s];\n'
            ' k_target := %s; k_tmp := %s; k_mod := %s |})') % (
        '; '.join(M), gal.nat(obs['n0']), '; '.join(thr), '; '.join(sched), '; '.join(events),
        enc_content(_conc_content(obs['raw'], obs), K), enc_content(_conc_content(obs['tmp_raw'], obs), K), ms)


def _oracle_conc(case, obs):
    """the property text on a concurrent run: at every point (after every file-system call) the stored file is a
    complete snapshot; after all threads have finished it holds the final values; a restart restores them"""
    fails = []

    def fail(cls, what, **kw):
        fails.append(dict({'class': cls, 'what': what}, **kw))

    if obs.get('init_exc'):
        fail('startup-raised', f'creating the module on an empty directory raised {obs["init_exc"]}', exc=obs['init_exc'],
             file=None)
        return fails
    params = case['params']
    pers = _pers_names(case)
    # transport forms every persistent parameter can have in a snapshot: default or one of the assigned values
    allowed = {}
    for i, p in enumerate(params):
        if p['pers'] in ('on', 'auto'):
            allowed[f'p{i}'] = [to_json(spec_export(p['dt'], p['default']))]
    for th in case['threads']:
        for pname, value in th:
            if pname in allowed:
                allowed[pname].append(to_json(spec_export(params[int(pname[1:])]['dt'], value)))
    sched = obs.get('decisions')

    def snapshot_problem(raw):
        if raw is None:
            return 'the stored file vanished'
        raw = bytes(raw)
        doc = _doc_of(raw)
        if not isinstance(doc, dict) or sorted(doc) != sorted(pers) or not raw.endswith(b'\n'):
            return f'stored file is not a complete snapshot: {raw[:80]!r}'
        for k, v in doc.items():
            if not any(v == a and type(v) is type(a) or (v == a and not isinstance(v, bool) and not isinstance(a, bool))
                       for a in allowed[k]):
                return f'stored snapshot has {k}={v!r}, a value the parameter never had'
        return None

    for idx, (who, call, chg) in enumerate(obs['events']):
        if chg is None:
            continue
        why = snapshot_problem(None if 'gone' in chg else chg['raw'])
        if why:
            fail('atomic', f'concurrent assignments, after file-system call {idx} ({call} by {who}): {why}; '
                           f'schedule (thread per step): {sched}', event=idx)
            break
    if obs['status'] != 'ok':
        return fails           # (deadlock / budget: not a statement of this property; the case is refused by encode)
    why = snapshot_problem(obs['raw'])
    if why and not fails:
        fail('atomic', f'concurrent assignments, all threads finished: {why}; schedule: {sched}')
    # (a parameter with persistent='auto' is saved by its own assignment, so its final value must be on disk; one with
    #  persistent=True is only saved along with a later save)
    auto = [f'p{i}' for i, p in enumerate(params) if p['pers'] == 'auto']
    exp = _expected_snapshot(case, obs['mod']['vals'])
    doc = None if obs['raw'] is None else _doc_of(bytes(obs['raw']))
    if not why and exp is not None and not obs['mod']['wd'] and any(doc[k] != exp[k] for k in auto):
        fail('save-lost', f'concurrent assignments, all threads finished: the disk has {doc}, the values are {exp}; '
                          f'schedule: {sched}', expected_doc=exp, got_doc=doc)
    rs = obs['restart']
    if rs['exc'] is not None:
        fail('startup-raised', f'restart after the concurrent assignments raised {rs["exc"]}', exc=rs['exc'],
             file=None if obs['raw'] is None else bytes(obs['raw']).decode('utf-8', errors='replace'))
    elif not obs['mod']['wd']:
        for n in auto:
            if not cv_eq(rs['vals'][n], obs['mod']['vals'][n]):
                fail('roundtrip', f'concurrent assignments: {n} was {obs["mod"]["vals"][n]} when all threads had finished, '
                                  f'is {rs["vals"][n]} after a restart; schedule: {sched}',
                     param=n, expected=obs['mod']['vals'][n], got=rs['vals'][n])
                break
    return fails


CONC_FIXED = [
    [{'dt': ['str', 0, 8, False], 'pers': 'auto', 'w': 'none', 'default': 'a0'},
     {'dt': ['str', 0, 8, False], 'pers': 'auto', 'w': 'none', 'default': 'b0'},
     {'dt': ['float'], 'pers': 'auto', 'w': 'none', 'default': {'f': (1.5).hex()}}],
    [{'dt': ['int', -1000, 1000], 'pers': 'auto', 'w': 'none', 'default': 1},
     {'dt': ['tuple', [['bool'], ['enum', [['a', 1], ['b', 2], ['c', 5]]]]], 'pers': 'auto', 'w': 'none', 'default': [True, 2]},
     {'dt': ['int', 0, 10], 'pers': 'on', 'w': 'none', 'default': 3}],
]


def _conc_threads(params, rng, nthreads, nassign):
    auto = [i for i, p in enumerate(params) if p['pers'] == 'auto']
    ths = []
    for t in range(nthreads):
        th = []
        for _ in range(nassign):
            i = auto[t % len(auto)] if rng.random() < 0.7 else rng.randrange(len(params))
            v = gen_value(params[i]['dt'], rng)
            for _ in range(4):
                if not cv_eq(v, params[i]['default']):
                    break
                v = gen_value(params[i]['dt'], rng)
            th.append([f'p{i}', v])
        ths.append(th)
    return ths


def conc_cases(seed, tier):
    """(a) one preemption at EVERY step of a two-thread run (the other thread then runs as far as it can);
    (b) two preemptions at a stride; (c) seeded random schedules of 2..3 threads with 1..2 assignments each"""
    rng = random.Random(seed * 7919 + 5)
    cases = []
    for params in CONC_FIXED:
        ths = _conc_threads(params, rng, 2, 1)
        for s in range(0, 48):
            cases.append({'kind': 'conc', 'params': params, 'threads': ths, 'sched': {'points': {str(s): 1}}})
        ths = _conc_threads(params, rng, 2, 2)
        for s in range(2, 40, 3):
            for s2 in range(s + 2, s + 14, 4):
                cases.append({'kind': 'conc', 'params': params, 'threads': ths,
                              'sched': {'points': {str(s): 1, str(s2): 2}}})
    nrand = {'quick': 120}.get(tier, 1500)
    for k in range(nrand):
        params = CONC_FIXED[k % len(CONC_FIXED)]
        ths = _conc_threads(params, rng, rng.choice([2, 2, 3]), rng.choice([1, 2]))
        cases.append({'kind': 'conc', 'params': params, 'threads': ths,
                      'sched': {'seed': rng.randrange(10 ** 6), 'stick': rng.choice([0.0, 0.5, 0.8])}})
    return cases

# ------------------------------------------------------------------ encoding into Gallina
def enc_fl(x):
    if x == x and abs(x) < 2.0 ** 53 and x == int(x):
        return f'(FInt {gal.z(int(x))})'
    return f'(FBits {gal.z(struct.unpack("<Q", struct.pack("<d", x))[0])})'


def enc_val(cv):
    if cv is None:
        return 'VNull'
    if isinstance(cv, bool):
        return f'(VBool {gal.boolean(cv)})'
    if isinstance(cv, int):
        return f'(VInt {gal.z(cv)})'
    if isinstance(cv, str):
        return f'(VStr {gal.string(cv)})'
    if isinstance(cv, list):
        return f'(VSeq {gal.lst(cv, enc_val)})'
    if isinstance(cv, dict):
        if 'f' in cv:
            return f'(VFlt {enc_fl(float.fromhex(cv["f"]))})'
        if 'b' in cv:
            return f'(VBytes {gal.lst(cv["b"], gal.N)})'
        if 's' in cv:
            return '(VMap [%s])' % '; '.join(f'({gal.string(k)}, {enc_val(v)})' for k, v in cv['s'].items())
    raise ValueError(f'value outside the modelled universe: {cv!r}')


def walk_cv(cv, fn):
    fn(cv)
    if isinstance(cv, list):
        for v in cv:
            walk_cv(v, fn)
    elif isinstance(cv, dict) and 's' in cv:
        for v in cv['s'].values():
            walk_cv(v, fn)


class Tables:
    """CPython facts of one case: ints seen (for scale*n), byte strings and base64 texts seen"""
    def __init__(self, case, obs):
        self.ints = {0, 1}
        self.blobs = []
        self.texts = []

        def visit(cv):
            if isinstance(cv, bool):
                return
            if isinstance(cv, int):
                self.ints.add(cv)
            elif isinstance(cv, str):
                if cv not in self.texts:
                    self.texts.append(cv)
            elif isinstance(cv, dict) and 'b' in cv:
                if cv['b'] not in self.blobs:
                    self.blobs.append(cv['b'])
            elif isinstance(cv, dict) and 'f' in cv:
                x = float.fromhex(cv['f'])
                if x == x and abs(x) < 2.0 ** 53 and x == int(x):
                    self.ints.add(int(x))
                for sc in scales:
                    if x == x and abs(x / sc) < 10 ** 6:
                        self.ints.add(int(round(x / sc)))
        scales = set()

        def find_scales(dt):
            if dt[0] == 'scaled':
                scales.add(float(dt[1]))
            elif dt[0] == 'array':
                find_scales(dt[1])
            elif dt[0] == 'tuple':
                for d in dt[1]:
                    find_scales(d)
            elif dt[0] == 'struct':
                for _, d in dt[1]:
                    find_scales(d)
        for p in case['params']:
            find_scales(p['dt'])
        for p in case['params']:
            walk_cv(p['default'], visit)
        for op in case['ops']:
            if op[0] == 'init':
                for v in op[1].values():
                    walk_cv(v, visit)
            elif op[0] == 'set':
                walk_cv(op[2], visit)
        for st in obs['steps']:
            for c in (st['target'], st['tmp']):
                if c and 'foreign' in c and isinstance(c['foreign'], list):
                    for v in c['foreign'][1].values():
                        walk_cv(v, visit)
                elif c and isinstance(c.get('data'), dict):
                    for v in c['data'].values():
                        walk_cv(v, visit)
            if st['mod']:
                for grp in ('vals', 'init'):
                    for v in st['mod'][grp].values():
                        walk_cv(v, visit)
                if isinstance(st['mod']['pd'], dict):
                    for v in st['mod']['pd'].values():
                        walk_cv(v, visit)

    def scaled(self, scale):
        s = float(scale)
        return gal.lst(sorted(n for n in self.ints if abs(n) <= 10 ** 6),
                       lambda n: f'({gal.z(n)}, {enc_fl(s * n)})')

    def blob(self):
        rows = []
        for b in self.blobs:
            rows.append((b, base64.b64encode(bytes(b)).decode('ascii')))
        canon = {t for _, t in rows}
        for t in self.texts:
            if t in canon:
                continue
            try:
                b = list(base64.b64decode(t, validate=True))    # what BLOBType.import_value calls (fact blob_import_strict_base64)
            except Exception:
                continue
            rows.append((b, base64.b64encode(bytes(b)).decode('ascii')))
            canon.add(rows[-1][1])
            if t not in canon:
                rows.append((b, t))
        # canonical rows first for every byte string (export takes the first match)
        seen = set()
        out = []
        for b, t in rows:
            if base64.b64encode(bytes(b)).decode('ascii') == t and tuple(b) not in seen:
                seen.add(tuple(b))
                out.append((b, t))
        out += [(b, t) for b, t in rows if base64.b64encode(bytes(b)).decode('ascii') != t]
        return gal.lst(out, lambda r: f'({gal.lst(r[0], gal.N)}, {gal.string(r[1])})')


def enc_dt(dt, T):
    k = dt[0]
    if k == 'int':
        return f'(DInt {gal.z(dt[1])} {gal.z(dt[2])})'
    if k == 'bool':
        return 'DBool'
    if k == 'enum':
        return '(DEnum [%s])' % '; '.join(f'({gal.string(n)}, {gal.z(v)})' for n, v in dt[1])
    if k == 'str':
        return f'(DStr {gal.nat(dt[1])} {gal.nat(dt[2])} {gal.boolean(dt[3])})'
    if k == 'float':
        return 'DFloat'
    if k == 'scaled':
        return f'(DScaled {T.scaled(dt[1])} {gal.z(-1000)} {gal.z(1000)})'    # mk_datatype: min/max = -/+1000*scale
    if k == 'blob':
        return f'(DBlob {gal.nat(dt[1])} {gal.nat(dt[2])} {T.blob()})'
    if k == 'array':
        return f'(DArray {enc_dt(dt[1], T)} {gal.nat(dt[2])} {gal.nat(dt[3])})'
    if k == 'tuple':
        return f'(DTuple {gal.lst(dt[1], lambda d: enc_dt(d, T))})'
    if k == 'struct':
        opt = [n for n, _ in dt[1]] if dt[2] is None else dt[2]
        return '(DStruct [%s] %s)' % ('; '.join(f'({gal.string(n)}, {enc_dt(d, T)})' for n, d in dt[1]),
                                      gal.lst(opt, gal.string))
    raise ValueError(dt)


class Keys:
    """parameter names p<i> are the numbers i; every other key gets a number from 100 on"""
    def __init__(self, nparams):
        self.n = nparams
        self.other = {}

    def __call__(self, name):
        if name[:1] == 'p' and name[1:].isdigit() and str(int(name[1:])) == name[1:] and int(name[1:]) < self.n:
            return int(name[1:])
        if name not in self.other:
            self.other[name] = 100 + len(self.other)
        return self.other[name]


class Intern:
    """share repeated sub-terms of a case through let-bindings (parsing dominates the cost of a shard)"""
    def __init__(self):
        self.names = {}
        self.order = []

    def __call__(self, term):
        if len(term) < 16:
            return term
        if term not in self.names:
            self.names[term] = f'x{len(self.order)}'
            self.order.append(term)
        return self.names[term]

    def wrap(self, body):
        return ''.join(f'let {self.names[t]} := {t} in\n ' for t in self.order) + body


_intern = None


def enc_amap(d, K):
    items = d.items() if isinstance(d, dict) else d
    t = '[%s]' % '; '.join(f'({gal.nat(K(k))}, {_intern(enc_val(v)) if _intern else enc_val(v)})' for k, v in items)
    return _intern(t) if _intern else t


FOPS = {'open': 'FOpen', 'close': 'FClose', 'rename': 'FRename', 'remove': 'FRemove',
        'makedirs': 'FMakedirs', 'open_r': 'FOpenR', 'is_dir': 'FIsDir'}
KINDS = {'cb': 'KCrashBefore', 'ca': 'KCrashAfter', 'err': 'KErr'}
# a recorded call -> the operation of the model it is (the role of every path is part of the name: only the rename
# of the temporary file onto the stored file is FRename, only the removal of the temporary file is FRemove ...)
MODEL_CALLS = {'makedirs:dir': 'FMakedirs', 'open_r:target': 'FOpenR', 'is_dir:dir': 'FIsDir', 'open_w:tmp': 'FOpen',
               'close:tmp': 'FClose', 'rename:tmp>target': 'FRename', 'remove:tmp': 'FRemove',
               'remove:target': 'FRemoveTarget'}


def model_call(call):
    if call.startswith('write:tmp:'):
        return f'(FWrite {gal.nat(int(call.rsplit(":", 1)[1]))})'
    return MODEL_CALLS.get(call, 'FOther')


def enc_log(oplog):
    """recorded calls of one operation -> list lop (runs of consecutive writes compressed)"""
    out = []
    i = 0
    while i < len(oplog):
        c = oplog[i]
        if c.startswith('write:tmp:'):
            a = int(c.rsplit(':', 1)[1])
            m = 1
            while i + m < len(oplog) and oplog[i + m] == f'write:tmp:{a + m}':
                m += 1
            out.append(f'LW {gal.nat(a)} {gal.nat(m)}')
            i += m
        else:
            out.append(f'L {model_call(c)}')
            i += 1
    return '[%s]' % '; '.join(out)


def enc_fault(f, st=None):
    """the fault as the model takes it: (operation, kind).  A fault given by call index ('at') is named after the call
    the implementation made at that index; a fault that did not strike there (no such call) is no fault"""
    if f is None:
        return 'None'
    if st is not None and st['fired']:
        idx, call = st['fired_at']
        if st['oplog'].index(call) != idx:
            raise ValueError(f'fault at a repeated call ({call} at {idx}): not expressible in the model')
        return f'(Some ({model_call(call)}, {KINDS[f["kind"]]}))'
    if 'at' in f:
        return 'None'
    o = f'(FWrite {gal.nat(f["i"])})' if f['op'] == 'write' else FOPS.get(f['op'], 'FOther')
    return f'(Some ({o}, {KINDS[f["kind"]]}))'


def enc_content(c, K):
    if c is None:
        return 'None'
    if 'foreign' in c:
        p = c['foreign']
        if p == 'invalid':
            return '(Some (CForeign PJInvalid))'
        if p == 'other':
            return '(Some (CForeign PJOther))'
        return f'(Some (CForeign (PJObj {enc_amap(p[1], K)})))'
    if not c['consistent']:
        raise ValueError('file content is not a prefix of the chunks of the dumped document')
    if c['k'] == 0 or c['data'] is None:
        if c['k'] != 0:
            raise ValueError('written file without a dumped document')
        return '(Some (CW [] 0%nat 0%nat))'
    if 'opaque' in c['data']:
        raise ValueError('dumped document is not a dict')
    return f'(Some (CW {enc_amap(c["data"], K)} {gal.nat(c["k"])} {gal.nat(c["n"])}))'


def enc_res(st):
    if st['crashed']:
        return 'RCrash'
    return {None: 'ROk', 'OSError': 'RIOErr', 'NoModule': 'RNoMod'}.get(st['exc'], 'RExc')


def encode(case, obs):
    global _intern
    _intern = Intern()
    try:
        return _intern.wrap('(' + _encode(case, obs) + ')')
    finally:
        _intern = None


def _encode(case, obs):
    if case.get('kind') == 'conc':
        return _encode_conc(case, obs)
    return '(CSeq ' + _encode_seq(case, obs) + ')'


def _encode_seq(case, obs):
    if obs.get('stray'):
        raise ValueError(f'files written past the patched names (real file system): {obs["stray"]}')
    I = _intern
    T = Tables(case, obs)
    params = case['params']
    K = Keys(len(params))
    M = []
    for p in params:
        M.append('{| p_dt := %s; p_pers := %s; p_hasw := %s; p_default := %s |}' % (
            enc_dt(p['dt'], T), gal.nat({None: 0, 'off': 0, 'on': 1, 'auto': 2}[p['pers']]),
            gal.boolean(p['w'] != 'none'), enc_val(p['default'])))
    ops, obl = [], []
    for op, st in zip(case['ops'], obs['steps']):
        kind = op[0]
        n = gal.nat(st['n'])
        if kind == 'corrupt':
            ops.append(f'(OCorrupt {enc_content(st["target"], K)})')
        elif kind == 'init':
            ops.append(f'(OInit {enc_amap(op[1], K)} {enc_fault(op[2], st)} {n})')
        elif kind == 'set':
            ops.append(f'(OSet {gal.nat(K(op[1]))} {enc_val(op[2])} {enc_fault(op[3], st)} {n})')
        else:
            ops.append('(%s %s %s)' % ({'save': 'OSave', 'writeinit': 'OWriteInit', 'load': 'OLoad',
                                        'reset': 'OReset'}[kind], enc_fault(op[1], st), n))
        if st['other']:
            raise ValueError(f'unexpected files: {st["other"]}')
        if st['ndumps'] > 1:
            raise ValueError('more than one json.dump in one operation')
        m = st['mod']
        if m is None:
            ms = 'None'
        else:
            ms = '(Some {| vals := %s; wdict := %s; pdata := %s; initd := %s |})' % (
                enc_amap(m['vals'], K), enc_amap(m['wd'], K),
                'None' if m['pd'] == 'nondict' else f'(Some {enc_amap(m["pd"], K)})', enc_amap(m['init'], K))
        obl.append('{| o_res := %s; o_target := %s; o_tmp := %s; o_mod := %s; o_log := %s |}' % (
            enc_res(st), I(enc_content(st['target'], K)), I(enc_content(st['tmp'], K)), I(ms), I(enc_log(st['oplog']))))
    return '{| c_M := [%s]; c_ops := [%s]; c_obs := [%s] |}' % ('; '.join(M), ';\n '.join(ops), ';\n '.join(obl))


def model_result_term(case, obs):
    return f'model_result ({encode(case, obs)})'


# ------------------------------------------------------------------ direct oracle (the property on the observations)
def _pers_names(case):
    return [f'p{i}' for i, p in enumerate(case['params']) if p['pers'] in ('on', 'auto')]


def _doc_of(raw):
    """parsed complete document (bytes or str) or None when it is not readable as UTF-8 JSON"""
    try:
        return json.loads(raw.decode('utf-8') if isinstance(raw, bytes) else raw)
    except ValueError:
        return None


def _is_high_cp(c):
    return 0xd800 <= ord(c) <= 0xdbff


def _is_low_cp(c):
    return 0xdc00 <= ord(c) <= 0xdfff


def has_adjacent_pair(v):
    """a string leaf of the (JSON-able) value holds a high surrogate directly followed by a low surrogate as two
    separate code points"""
    if isinstance(v, str):
        return any(_is_high_cp(a) and _is_low_cp(b) for a, b in zip(v, v[1:]))
    if isinstance(v, dict):
        return any(has_adjacent_pair(k) or has_adjacent_pair(x) for k, x in v.items())
    if isinstance(v, (list, tuple)):
        return any(has_adjacent_pair(x) for x in v)
    return False


def text_reading(v):
    """what the JSON text of the value reads back as: every adjacent surrogate pair joined into one code point, nothing
    else changed (written from the JSON / UTF-16 rule, not with the json module)"""
    if isinstance(v, str):
        out, i = [], 0
        while i < len(v):
            if i + 1 < len(v) and _is_high_cp(v[i]) and _is_low_cp(v[i + 1]):
                out.append(chr(0x10000 + ((ord(v[i]) - 0xd800) << 10) + (ord(v[i + 1]) - 0xdc00)))
                i += 2
            else:
                out.append(v[i])
                i += 1
        return ''.join(out)
    if isinstance(v, dict):
        return {text_reading(k): text_reading(x) for k, x in v.items()}
    if isinstance(v, (list, tuple)):
        return [text_reading(x) for x in v]
    return v


def _expected_snapshot(case, vals):
    """transport form of the current values of all persistent parameters (None when a value is not valid)"""
    res = {}
    for i, p in enumerate(case['params']):
        n = f'p{i}'
        if p['pers'] in ('on', 'auto'):
            if not spec_valid(p['dt'], vals[n]):
                return None
            res[n] = to_json(spec_export(p['dt'], vals[n]))
    return res


def oracle(case, obs):
    if case.get('kind') == 'conc':
        return _oracle_conc(case, obs)
    fails = []

    def fail(cls, what, **kw):
        fails.append(dict({'class': cls, 'what': what}, **kw))

    params = case['params']
    names = [f'p{i}' for i in range(len(params))]
    pers = _pers_names(case)
    # (files the code creates next to the stored file - a backup copy, a lock file - and writes that bypass the patched
    #  names are not violations of the property: the case is then outside the model, encode() refuses it, which breaks
    #  the correspondence obligation and starts the search for a real failure)
    cur = None             # bytes of the stored file before the operation (None: no file)
    foreign = False        # somebody else replaced the stored file and the module has not read or rewritten it since
    cur_saved_vals = None  # values of the live module when the stored file was last completely written by it
    failed_save = None     # index of a save that failed with an I/O error and was not followed by a complete write
    synced = None          # (index, values): the operation before was a save attempt without fault of a live module:
    #                        these values are what a restart has to restore
    for idx, (op, st) in enumerate(zip(case['ops'], obs['steps'])):
        kind = op[0]
        synced_before, synced = synced, None
        after = None if st['raw'] is None else bytes(st['raw'])
        before = cur
        cur = after
        if kind == 'corrupt':
            cur_saved_vals = None
            foreign = True
            continue
        fault = op[-1] if st['fired'] else None
        prev_mod = obs['steps'][idx - 1]['mod'] if idx else None
        # (1) crash / error atomicity: the stored file is the previous one or a complete new snapshot
        if after != before:
            doc = None if after is None else _doc_of(after)
            if after is None:
                fail('atomic', f'op {idx} ({kind}, fault {fault}): the stored file vanished')
            elif not isinstance(doc, dict) or sorted(doc) != sorted(pers) or not after.endswith(b'\n'):
                fail('atomic', f'op {idx} ({kind}, fault {fault}): stored file is neither the previous nor a complete '
                               f'new snapshot: {after[:60]!r}')
            elif st['mod'] is not None and kind in ('init', 'set', 'save'):
                # (in these operations no value changes after the save, so the new snapshot is that of the final values)
                exp = _expected_snapshot(case, st['mod']['vals'])
                if exp is not None and doc != exp:
                    fail('roundtrip', f'op {idx} ({kind}): stored snapshot {doc} is not the transport form {exp} of the '
                                      'current values', expected_doc=exp, got_doc=doc)
            elif st['mod'] is None and st['crashed'] and kind in ('set', 'save') and prev_mod is not None:
                # the process died in this operation: the NEW snapshot is that of the values it was saving
                vals = dict(prev_mod['vals'])
                if kind == 'set':
                    vals[op[1]] = op[2]
                exp = _expected_snapshot(case, vals)
                # (atomicity is about the file being the COMPLETE text of the new snapshot: what that text reads as)
                if exp is not None and doc != text_reading(exp):
                    fail('atomic', f'op {idx} ({kind}, fault {fault}): the stored file after the crash {doc} is neither '
                                   f'the previous snapshot nor the new one {exp}')
        wrote = after != before
        if wrote or (kind in ('init', 'load') and st['mod'] is not None and st['exc'] is None and not st['crashed']):
            foreign = False        # complete new snapshot written / stored file read by the module
        if wrote and st['mod'] is not None:
            # (after writeinit/load/reset values may still change after the save of the same operation)
            cur_saved_vals = dict(st['mod']['vals']) if kind in ('init', 'set', 'save') else None
            failed_save = None
        elif wrote:
            cur_saved_vals = None
            failed_save = None
        # (2) a save without fault puts the current values on disk (a failed one is retried by the next save)
        attempt = False
        # (an explicit saveParameters() that raises without an injected fault has not saved: it is an attempt too)
        if st['mod'] is not None and not st['fired'] and (st['exc'] is None or kind == 'save'):
            if kind == 'init':
                attempt = True
            elif kind == 'save' and prev_mod is not None and not prev_mod['wd']:
                attempt = True
            elif kind == 'set' and params[int(op[1][1:])]['pers'] == 'auto' and prev_mod is not None and not prev_mod['wd']:
                attempt = True
        if attempt and not foreign:
            # (a module under which somebody else replaced the file, and which could not read it since, still
            #  believes its last snapshot to be on disk: not a failed or lost save)
            exp = _expected_snapshot(case, st['mod']['vals'])
            doc = None if after is None else _doc_of(after)
            if exp is not None and doc != exp:
                if failed_save is not None:
                    fail('failed-save-not-retried',
                         f'op {idx} ({kind}): the save of op {failed_save} failed with an I/O error; this save did not '
                         f'write either: disk has {doc}, values are {exp}', failed_at=failed_save,
                         expected_doc=exp, got_doc=doc)
                elif st['exc'] is not None:
                    fail('save-raised', f'op {idx}: saveParameters() without any file-system fault raised {st["exc"]} and '
                                        f'did not save: disk has {doc}, values are {exp}', exc=st['exc'])
                else:
                    fail('save-lost', f'op {idx} ({kind}): after a successful save the disk has {doc}, values are {exp}',
                         expected_doc=exp, got_doc=doc)
            if exp is not None:
                synced = (idx, dict(st['mod']['vals']))
        if st['fired'] and fault and fault['kind'] == 'err' and st['mod'] is not None and not wrote and \
                not st['fired_at'][1].startswith(('open_r', 'makedirs')):
            failed_save = idx
        if st['fired'] and fault and fault['kind'] == 'err' and st['mod'] is not None and wrote:
            # e.g. error at remove after the rename: data is on disk
            failed_save = None
        # (3) start-up is never prevented by the content of the stored file
        if kind == 'init' and not st['fired']:
            if st['exc'] is not None or st['crashed']:
                fail('startup-raised', f'op {idx}: creating the module raised {st["exc"]} with stored file '
                                       f'{None if before is None else before[:80]!r}', exc=st['exc'],
                     file=None if before is None else before.decode('utf-8', errors='replace'))
        # (4) values after start-up: cfg > file > default, usable entries restored, others ignored
        if kind == 'init' and st['mod'] is not None:
            cfg = op[1]
            doc = None if before is None else _doc_of(before)
            entries = {k: from_py(v) for k, v in doc.items()} if isinstance(doc, dict) else {}
            # (an injected OSError at the reading open is outside the quantifier: if a start-up survives it, nothing is
            #  demanded about the values taken or not taken from the file it could not read)
            read_faulted = bool(st['fired']) and st['fired_at'][1].startswith('open_r')
            for i, p in enumerate(params):
                n = names[i]
                got = st['mod']['vals'][n]
                if n in cfg:
                    if not cv_eq(got, cfg[n]):
                        fail('precedence', f'op {idx}: {n} configured as {cfg[n]} but is {got}')
                    continue
                if read_faulted:
                    continue
                if p['pers'] not in ('on', 'auto'):
                    if not cv_eq(got, p['default']):
                        fail('tolerant-load', f'op {idx}: non-persistent {n} is {got}, default {p["default"]}')
                    continue
                if n in entries:
                    u = spec_usable(p['dt'], entries[n])
                    if u is not None:
                        if not cv_eq(got, u[1]):
                            fail('roundtrip', f'op {idx}: stored {n}={entries[n]} restored as {got}')
                    elif not (cv_eq(got, p['default']) or spec_valid(p['dt'], got)):
                        w = spec_usable(p['dt'], entries[n], strict=False)
                        if w is not None and cv_eq(got, w[1]):
                            fail('invalid-entry-loaded', f'op {idx}: stored {n}={entries[n]} is outside the limits of '
                                 f'{p["dt"]} but was not ignored: the parameter is {got}')
                        else:
                            fail('tolerant-load', f'op {idx}: unusable entry {n}={entries[n]} left the invalid value {got}')
                elif not cv_eq(got, p['default']):
                    fail('tolerant-load', f'op {idx}: {n} has no stored entry but is {got}, default {p["default"]}')
                if cur_saved_vals is not None and before is not None and n in cur_saved_vals and \
                        not cv_eq(got, cur_saved_vals[n]):
                    fail('roundtrip', f'op {idx}: {n} was {cur_saved_vals[n]} when saved, is {got} after loading',
                         param=n, expected=cur_saved_vals[n], got=got)
                # (5) restart: every value the module had accepted when it last saved (the operation before was a
                #     save without fault: explicit, automatic after an assignment, or that of start-up) is back
                if synced_before is not None and not st['fired'] and not cv_eq(got, synced_before[1][n]):
                    fail('restart-lost', f'op {idx}: {n} was {synced_before[1][n]!r} after op {synced_before[0]} '
                                         f'({case["ops"][synced_before[0]][0]}: a save without fault) and is {got!r} '
                                         'after the restart', param=n, expected=synced_before[1][n], got=got)
            if wrote:
                cur_saved_vals = dict(st['mod']['vals'])
    return fails


def _lax_container_entry(dt, j):
    """an entry for a parameter whose datatype contains a struct that is not a valid transport value of that datatype
    (a struct with missing members is accepted by import_value, all members being optional by default)"""
    return has_kind(dt, 'struct') and spec_usable(dt, j) is None


def _f_retry(case, obs, failure):
    if failure['class'] != 'failed-save-not-retried':
        return False
    k = failure.get('failed_at')
    if k is None:
        return False
    op, st = case['ops'][k], obs['steps'][k]
    return bool(st['fired']) and op[-1]['kind'] == 'err' and op[-1]['op'] in ('open', 'write', 'close', 'rename')


def _f_nonobject(case, obs, failure):
    if failure['class'] != 'startup-raised' or failure.get('exc') != 'AttributeError' or failure.get('file') is None:
        return False
    try:
        doc = json.loads(failure['file'])
    except ValueError:
        return False
    return not isinstance(doc, dict)


def _f_shape(case, obs, failure):
    if failure['class'] != 'startup-raised' or failure.get('exc') not in ('WrongTypeError', 'RangeError'):
        return False
    doc = _doc_of(failure['file']) if failure.get('file') is not None else None
    if not isinstance(doc, dict):
        return False
    for i, p in enumerate(case['params']):
        n = f'p{i}'
        if p['pers'] in ('on', 'auto') and n in doc and _lax_container_entry(p['dt'], from_py(doc[n])):
            return True
    return False


def _f_range(case, obs, failure):
    return failure['class'] == 'invalid-entry-loaded'


def _f_adjacent_pair(case, obs, failure):
    """C17/adjacent-surrogate-pair-not-restored: the value that was to be stored / restored holds a high surrogate
    directly followed by a low surrogate as two code points, and what is on disk / came back is EXACTLY what the JSON
    text of that value reads as (the pair joined), or - for a restored parameter - the default because the joined
    string is not valid for the datatype.  Any other difference is not covered."""
    cls = failure['class']
    if cls in ('roundtrip', 'save-lost', 'failed-save-not-retried') and isinstance(failure.get('expected_doc'), dict):
        exp, doc = failure['expected_doc'], failure.get('got_doc')
        if not isinstance(doc, dict) or sorted(doc) != sorted(exp):
            return False
        diff = [k for k in exp if doc[k] != exp[k]]
        return bool(diff) and all(has_adjacent_pair(exp[k]) and doc[k] == text_reading(exp[k]) for k in diff)
    if cls in ('roundtrip', 'restart-lost') and 'param' in failure:
        n = failure['param']
        if not (isinstance(n, str) and n[:1] == 'p' and n[1:].isdigit() and int(n[1:]) < len(case['params'])):
            return False
        p = case['params'][int(n[1:])]
        exp, got = failure['expected'], failure['got']
        if not has_adjacent_pair(exp):
            return False
        joined = text_reading(exp)
        if spec_valid(p['dt'], joined):
            return cv_eq(got, joined)
        return cv_eq(got, p['default'])
    return False


FINDING_CLASSIFIERS = {
    'adjacent_surrogate_pair_not_restored': _f_adjacent_pair,
    'out_of_range_entry_loaded': _f_range,
    'failed_save_considered_done': _f_retry,
    'nonobject_document_prevents_startup': _f_nonobject,
    'outdated_shape_prevents_startup': _f_shape,
}


def nontrivial_key(case, obs):
    if case.get('kind') == 'conc':
        if not obs.get('dumps'):
            return None
        return json.dumps([case['params'], case['threads'], obs.get('decisions')], sort_keys=True)
    if not any(st['ndumps'] or (st['target'] and 'foreign' in st['target']) for st in obs['steps']):
        return None
    return json.dumps([case['params'], case['ops']], sort_keys=True)


def outcome_labels(case, obs):
    if case.get('kind') == 'conc':
        labs = {'conc', f'conc:threads:{len(case["threads"])}', 'conc:status:' + str(obs.get('status'))}
        saves = len(obs.get('dumps') or [])
        labs.add(f'conc:saves:{min(saves, 4)}')
        tr = [t for t, lab in obs.get('trace') or [] if t != 'main']
        if any(a != b for a, b in zip(tr, tr[1:])):
            labs.add('conc:interleaved-steps')
        evs = [e[0] for e in obs.get('events') or []]
        if any(a != b for a, b in zip(evs, evs[1:])):
            labs.add('conc:saves-of-different-threads')
        if obs.get('contended'):
            labs.add('conc:thread-waited-for-updateLock')
        return sorted(labs)
    labs = set()
    for op, st in zip(case['ops'], obs['steps']):
        labs.add('op:' + op[0])
        if st['fired']:
            f = op[-1]
            labs.add(f'fault:{base_name(st["fired_at"][1])}:{f["kind"]}')
            labs.add('fault-by-' + ('index' if 'at' in f else 'name'))
        for c in st['oplog']:
            labs.add('call:' + (c if not c.startswith('write:') else c.rsplit(':', 1)[0]))
        if st['crashed']:
            labs.add('crashed')
        if st['exc']:
            labs.add('raised:' + st['exc'])
        if st['target'] and 'foreign' in st['target']:
            p = st['target']['foreign']
            labs.add('foreign:' + (p if isinstance(p, str) else 'obj'))
        if st['tmp'] is not None:
            labs.add('stale-tmp')
    for p in case['params']:
        labs.add('dt:' + p['dt'][0])

    def str_labels(cv):
        if isinstance(cv, str):
            for c in cv:
                o = ord(c)
                labs.add('str:' + ('lone-high-surrogate' if 0xd800 <= o <= 0xdbff else
                                   'lone-low-surrogate' if 0xdc00 <= o <= 0xdfff else
                                   'non-bmp' if o > 0xffff else 'bmp-non-ascii' if o > 127 else
                                   'control' if o < 32 or o == 127 else 'json-escaped' if c in '"\\' else 'ascii'))
    for op in case['ops']:
        if op[0] == 'set':
            walk_cv(op[2], str_labels)
        elif op[0] == 'init':
            for v in op[1].values():
                walk_cv(v, str_labels)
    return sorted(labs)


def sample_repr(case, obs):
    if case.get('kind') == 'conc':
        return {'conc': True, 'params': case['params'], 'threads': case['threads'], 'sched': case['sched'],
                'decisions': (obs.get('decisions') or [])[:40], 'events': [e[:2] for e in (obs.get('events') or [])[:12]]}
    return {'params': case['params'], 'ops': case['ops'][:6],
            'results': [[st['exc'], st['crashed'], st['fired'], st['oplog'][-3:]] for st in obs['steps']][:6]}


# ------------------------------------------------------------------ generators
ALPHA = 'abXY z'
LEAVES = ['int', 'bool', 'enum', 'str', 'float', 'scaled', 'blob']
# characters a StringType accepts (everything but NUL; plain = ASCII only).  Python strings are sequences of code
# points, surrogates included: '\ud83d' is what json.loads('"\\ud83d"') returns for a change request of a client,
# '\udcff' what bytes.decode(..., 'surrogateescape') makes of a raw 0xff byte of a hardware reply.
ASCII_CTRL = '\x01\t\n\r\x1b\x1f\x7f'            # control characters
ASCII_JSON = '"\\/'                               # characters JSON escapes or may escape
BMP = 'é中µ°ß€\x80\x9f\xa0\u2028\u2029\ufeff\ufffd\uffff\ud7ff\ue000'     # non-ASCII, basic plane (C1 controls, separators, BOM)
NONBMP = '\U00010000\U0001f600\U0001d11e\U0010ffff'                   # outside the basic plane (escaped as a surrogate pair)
HIGH_SUR = '\ud800\ud83d\udbff'                    # lone high surrogates
LOW_SUR = '\udc00\udc80\udcff\ude00\udfff'          # lone low surrogates (dc80-dcff: surrogateescape)


PAIR_SHARE = 0.25          # share of the (high, low) draws that are kept as an adjacent pair


def _is_high(c):
    return 0xd800 <= ord(c) <= 0xdbff


def _is_low(c):
    return 0xdc00 <= ord(c) <= 0xdfff


def gen_str(dt, rng, special=None):
    """a valid value of ['str', minc, maxc, utf8]: lone surrogates, low-before-high, surrogates next to other
    characters, and - a small share (PAIR_SHARE of the positions after a high surrogate) - a high surrogate directly
    followed by a low one as two code points: such a string is written as the escape of ONE non-BMP character (CPython
    json) and is not restored (open finding C17/adjacent-surrogate-pair-not-restored)."""
    n = rng.randint(dt[1], dt[2])
    if special is None:
        special = rng.random() < 0.45
    if not special:
        alpha = ALPHA + ('é中' if dt[3] else '')
        return ''.join(rng.choice(alpha) for _ in range(n))
    pools = [ALPHA, ASCII_CTRL, ASCII_JSON] + ([BMP, NONBMP, HIGH_SUR, LOW_SUR, HIGH_SUR + LOW_SUR] if dt[3] else [])
    out = []
    for _ in range(n):
        c = rng.choice(rng.choice(pools))
        if out and _is_high(out[-1]) and _is_low(c) and rng.random() >= PAIR_SHARE:
            c = rng.choice(HIGH_SUR + ALPHA)
        out.append(c)
    return ''.join(out)
ENUM = [['a', 1], ['b', 2], ['c', 5]]


def gen_dt(rng, depth=2):
    if depth > 0 and rng.random() < 0.35:
        k = rng.choice(['array', 'tuple', 'struct'])
        if k == 'array':
            lo = rng.choice([0, 1, 2])
            return ['array', gen_dt(rng, depth - 1), lo, lo + rng.choice([0, 1, 2])]
        if k == 'tuple':
            return ['tuple', [gen_dt(rng, depth - 1) for _ in range(rng.randint(1, 3))]]
        names = rng.sample(['x', 'y', 'z'], rng.randint(1, 3))
        opt = rng.choice([None, [], names[:1]])
        return ['struct', [[n, gen_dt(rng, depth - 1)] for n in sorted(names)], opt]
    k = rng.choice(LEAVES)
    if k == 'int':
        return ['int', -1000, 1000]
    if k == 'enum':
        return ['enum', ENUM]
    if k == 'str':
        lo = rng.choice([0, 0, 1])
        return ['str', lo, lo + rng.choice([2, 5]), rng.random() < 0.5]
    if k == 'scaled':
        return ['scaled', rng.choice(['0.1', '0.5', '0.01', '2.0'])]
    if k == 'blob':
        lo = rng.choice([0, 1])
        return ['blob', lo, lo + rng.choice([1, 3])]
    return [k]


FLOATS = [0.0, 1.5, -2.25, 3.0, 1e10, 0.1, -0.0, 1e-3, 123456.789, -7.0]


def gen_value(dt, rng):
    k = dt[0]
    if k == 'int':
        return rng.randint(max(dt[1], -9), min(dt[2], 9))
    if k == 'bool':
        return rng.random() < 0.5
    if k == 'enum':
        return rng.choice(dt[1])[1]
    if k == 'str':
        return gen_str(dt, rng)
    if k == 'float':
        return {'f': rng.choice(FLOATS).hex()}
    if k == 'scaled':
        return {'f': float(rng.randint(-SCALED_RANGE, SCALED_RANGE) * float(dt[1])).hex()}
    if k == 'blob':
        return {'b': [rng.randrange(256) for _ in range(rng.randint(dt[1], dt[2]))]}
    if k == 'array':
        return [gen_value(dt[1], rng) for _ in range(rng.randint(dt[2], dt[3]))]
    if k == 'tuple':
        return [gen_value(d, rng) for d in dt[1]]
    if k == 'struct':
        return {'s': {n: gen_value(d, rng) for n, d in dt[1]}}
    raise ValueError(dt)


def has_kind(dt, kind):
    if dt[0] == kind:
        return True
    if dt[0] == 'array':
        return has_kind(dt[1], kind)
    if dt[0] == 'tuple':
        return any(has_kind(d, kind) for d in dt[1])
    if dt[0] == 'struct':
        return any(has_kind(d, kind) for _, d in dt[1])
    return False


def gen_params(rng):
    n = rng.randint(1, 4)
    params = []
    for _ in range(n):
        dt = gen_dt(rng)
        params.append({'dt': dt, 'pers': rng.choice(['auto', 'auto', 'on', 'on', 'off', None]),
                       'w': rng.choice(['none', 'flag', 'method']), 'default': gen_value(dt, rng)})
    if not any(p['pers'] in ('on', 'auto') for p in params):
        params[0]['pers'] = 'auto'
    return params


WRONG_KINDS = [None, True, 3, 'ab', 'a', [], [1, 2], {'s': {}}, {'s': {'x': 1}}, {'f': (2.5).hex()}, {'f': (1.0).hex()},
               'YQ==', 'YWJj', [[1]], 0, '']


def outdate(dt, rng):
    """an entry that was valid for an older definition of the datatype (other length / members)"""
    k = dt[0]
    if k == 'array':
        n = rng.choice([max(0, dt[2] - 1), dt[3] + 1, dt[3] + 2])
        return [spec_export(dt[1], gen_value(dt[1], rng)) for _ in range(n)]
    if k == 'tuple':
        v = [spec_export(d, gen_value(d, rng)) for d in dt[1]]
        return rng.choice([v[:-1], v + [1]])
    if k == 'struct':
        v = {n: spec_export(d, gen_value(d, rng)) for n, d in dt[1]}
        if rng.random() < 0.6:
            v.pop(rng.choice(sorted(v)))
        else:
            v['old'] = 1
        return {'s': v}
    return pick_wrong(dt, rng)


def pick_wrong(dt, rng, allow_range=True):
    if allow_range and dt[0] == 'int' and rng.random() < 0.4:
        return rng.choice([dt[2] + 40, dt[1] - 1])
    if allow_range and dt[0] == 'blob' and rng.random() < 0.4:
        return base64.b64encode(bytes(range(65, 65 + dt[2] + 2))).decode('ascii')
    w = rng.choice(WRONG_KINDS)
    if isinstance(w, dict) and 'f' in w and float.fromhex(w['f']) != int(float.fromhex(w['f'])) \
            and has_kind(dt, 'scaled'):
        return 3        # int(2.5) truncates: the table of scale*n is indexed by integers only
    return w


def range_cases(params, rng):
    """stored values outside the limits of the (changed) parameter definition"""
    for i, p in enumerate(params):
        if p['pers'] not in ('on', 'auto') or p['dt'][0] not in ('int', 'blob'):
            continue
        good = {f'p{j}': spec_export(q['dt'], q['default']) for j, q in enumerate(params) if q['pers'] in ('on', 'auto')}
        for _ in range(4):
            doc = dict(good)
            doc[f'p{i}'] = pick_wrong(p['dt'], rng, True)
            yield {'params': params, 'ops': [['corrupt', {'doc': {'s': doc}}], ['init', {}, None], ['save', None],
                                             ['writeinit', None], ['init', gen_cfg(params, rng, 0.3), None]]}


def gen_doc(params, rng, mode=None):
    """a stored document for this module: usable entries, type changes, unknown keys, outdated shapes"""
    doc = {}
    for i, p in enumerate(params):
        r = rng.random()
        n = f'p{i}'
        if r < 0.15:
            continue
        if r < 0.6 or mode == 'good':
            doc[n] = spec_export(p['dt'], gen_value(p['dt'], rng))
        elif r < 0.85:
            w = pick_wrong(p['dt'], rng)
            doc[n] = w
        else:
            doc[n] = outdate(p['dt'], rng)
    if rng.random() < 0.4:
        doc[rng.choice(['u0', 'u1', 'p9', 'value'])] = rng.choice(WRONG_KINDS)
    items = list(doc.items())
    rng.shuffle(items)
    return {'s': dict(items)}


NONOBJ = ['[1]', '5', '"abc"', 'null', 'true', '[]', '1.5', '[{"p0": 1}]']
GARBAGE = ['', '{', '{"p0": ', '{"p0": 1,}', '\x00\x01', 'p0=1', '{"p0": 1}}', '{"p0": 1} x', "{'p0': 1}"]


def gen_fault(rng, p=0.35, nmax=45, by_index=False):
    """by name: at the first call of that name; by index (only for operations with at most one save and no other
    call of the same kind: init, set, save): at the k-th file-system call of the operation, whatever it is"""
    if rng.random() >= p:
        return None
    if by_index and rng.random() < 0.4:
        return {'at': rng.randrange(nmax + 8) if rng.random() < 0.5 else rng.randrange(9),
                'kind': rng.choice(['cb', 'ca', 'err', 'err'])}
    op = rng.choice(['open', 'write', 'write', 'write', 'close', 'rename', 'remove', 'is_dir', 'open_r', 'makedirs'])
    f = {'op': op, 'kind': rng.choice(['cb', 'ca', 'err', 'err'])}
    if op == 'write':
        f['i'] = rng.randrange(nmax) if rng.random() < 0.8 else rng.randrange(8)
    return f


def gen_corrupt(params, rng):
    r = rng.random()
    if r < 0.3:
        return {'doc': gen_doc(params, rng), 'indent': rng.choice([None, 2])}
    if r < 0.4:
        return {'text': rng.choice(NONOBJ)}
    if r < 0.5:
        return {'text': rng.choice(GARBAGE)}
    if r < 0.55:
        return {'raw': [0xff, 0xfe, 0x7b, 0x7d]}
    if r < 0.62:
        return {'remove': True}
    if r < 0.8:
        return {'trunc': rng.randrange(400)}
    return {'flip': [rng.randrange(400), rng.randrange(8)]}


def gen_cfg(params, rng, p=0.25):
    return {f'p{i}': gen_value(q['dt'], rng) for i, q in enumerate(params) if rng.random() < p}


def rand_case(rng, pool):
    params = rng.choice(pool)
    ops = []
    if rng.random() < 0.3:
        ops.append(['corrupt', gen_corrupt(params, rng) if rng.random() < 0.5 else {'doc': gen_doc(params, rng, 'good')}])
    ops.append(['init', gen_cfg(params, rng), gen_fault(rng, 0.15, by_index=True)])
    for _ in range(rng.randint(2, 8)):
        r = rng.random()
        last = ops[-1]
        risky = last[0] != 'corrupt' and last[-1] is not None and last[-1]['kind'] != 'err' or \
            (last[0] == 'init' and last[-1] is not None)
        if risky:
            # the process may be dead: start again from the directory
            ops.append(['init', gen_cfg(params, rng), gen_fault(rng, 0.1, by_index=True)])
            continue
        if r < 0.42:
            i = rng.randrange(len(params))
            ops.append(['set', f'p{i}', gen_value(params[i]['dt'], rng), gen_fault(rng, by_index=True)])
        elif r < 0.56:
            ops.append(['save', gen_fault(rng, by_index=True)])
        elif r < 0.68:
            ops.append(['writeinit', gen_fault(rng)])
        elif r < 0.74:
            ops.append(['reset', gen_fault(rng)])
        elif r < 0.80:
            if rng.random() < 0.5:
                ops.append(['corrupt', {'doc': gen_doc(params, rng, 'good')}])
            ops.append(['load', gen_fault(rng)])
        elif r < 0.92:
            ops.append(['corrupt', gen_corrupt(params, rng)])
            ops.append(['init', gen_cfg(params, rng), gen_fault(rng, 0.1, by_index=True)])
        else:
            ops.append(['init', gen_cfg(params, rng), gen_fault(rng, 0.2, by_index=True)])
    return {'params': params, 'ops': ops}


FIXED = [
    [{'dt': ['scaled', '0.1'], 'pers': 'auto', 'w': 'method', 'default': {'f': (1.0).hex()}},
     {'dt': ['struct', [['i', ['int', 0, 10]], ['s', ['str', 0, 8, False]]], None], 'pers': 'on', 'w': 'method',
      'default': {'s': {'i': 0, 's': ''}}}],
    [{'dt': ['int', -1000, 1000], 'pers': 'auto', 'w': 'none', 'default': 1},
     {'dt': ['tuple', [['bool'], ['enum', ENUM]]], 'pers': 'auto', 'w': 'flag', 'default': [True, 2]},
     {'dt': ['float'], 'pers': None, 'w': 'flag', 'default': {'f': (2.5).hex()}}],
    [{'dt': ['array', ['str', 0, 3, True], 1, 3], 'pers': 'auto', 'w': 'none', 'default': ['a', 'é']},
     {'dt': ['blob', 0, 4], 'pers': 'on', 'w': 'none', 'default': {'b': [1, 2, 255]}},
     {'dt': ['float'], 'pers': 'auto', 'w': 'none', 'default': {'f': (0.1).hex()}}],
    [{'dt': ['int', 0, 10], 'pers': 'auto', 'w': 'none', 'default': 1},
     {'dt': ['blob', 1, 2], 'pers': 'on', 'w': 'flag', 'default': {'b': [7]}}],
]


def _chunks_estimate(params):
    doc = {}
    for i, p in enumerate(params):
        if p['pers'] in ('on', 'auto'):
            doc[f'p{i}'] = to_json(spec_export(p['dt'], p['default']))
    return len(chunks_of(doc)), len(json.dumps(doc, indent=2)) + 1


def _doc_chunks(params, vals):
    doc = {}
    for i, p in enumerate(params):
        if p['pers'] in ('on', 'auto'):
            doc[f'p{i}'] = to_json(spec_export(p['dt'], vals.get(f'p{i}', p['default'])))
    return len(chunks_of(doc))


SAVE_CALLS = 5      # is_dir, open, close, rename, remove around the n writes
INIT_CALLS = 2      # makedirs, open for reading
MARGIN = 4          # indices beyond the calls made today: calls a change may add are crash / fault points as well


def fault_sweep(params, rng):
    """a crash before, a crash after and an OSError at EVERY file-system call (by index in the recorded call
    sequence, whatever the call is) of a save: in a running module, and during start-up"""
    auto = [i for i, p in enumerate(params) if p['pers'] == 'auto']
    pers = [i for i, p in enumerate(params) if p['pers'] in ('on', 'auto')]
    i = auto[0] if auto else pers[0]
    v = gen_value(params[i]['dt'], rng)
    for _ in range(5):
        if not cv_eq(v, params[i]['default']):
            break
        v = gen_value(params[i]['dt'], rng)
    n = _doc_chunks(params, {f'p{i}': v})
    for k in range(n + SAVE_CALLS + MARGIN):
        for kind in ('cb', 'ca', 'err'):
            f = {'at': k, 'kind': kind}
            if auto:
                yield {'params': params, 'ops': [
                    ['init', {}, None], ['writeinit', None], ['set', f'p{i}', v, f], ['save', None],
                    ['init', {}, None], ['save', None]]}
            else:
                yield {'params': params, 'ops': [
                    ['init', {}, None], ['writeinit', None], ['set', f'p{i}', v, None], ['save', f], ['save', None],
                    ['init', {}, None], ['save', None]]}
    cfg = gen_cfg(params, rng, 0.5)
    n = _doc_chunks(params, cfg)
    for k in range(INIT_CALLS + n + SAVE_CALLS + MARGIN):
        for kind in ('cb', 'ca', 'err'):
            f = {'at': k, 'kind': kind}
            yield {'params': params, 'ops': [['init', cfg, f], ['init', {}, None], ['save', None]]}
            if k < INIT_CALLS + 2 or k >= INIT_CALLS + n + 2:
                # start-up on top of an existing stored file (the first start-up above has none to lose)
                yield {'params': params, 'ops': [['init', {}, None], ['init', cfg, f], ['init', {}, None]]}


def corruption_sweep(params, rng, flips=True):
    """truncation at every byte and every single bit flip of the stored file, then start-up"""
    _, size = _chunks_estimate(params)
    head = [['init', {}, None]]
    for k in range(size + 1):
        yield {'params': params, 'ops': head + [['corrupt', {'trunc': k}], ['init', {}, None]]}
    if flips:
        for pos in range(size):
            for bit in range(8):
                yield {'params': params, 'ops': head + [['corrupt', {'flip': [pos, bit]}], ['init', {}, None]]}
    for t in NONOBJ + GARBAGE:
        yield {'params': params, 'ops': head + [['corrupt', {'text': t}], ['init', {}, None], ['save', None]]}
    for i, p in enumerate(params):
        if p['pers'] not in ('on', 'auto'):
            continue
        good = {f'p{j}': spec_export(q['dt'], q['default']) for j, q in enumerate(params) if q['pers'] in ('on', 'auto')}
        for w in WRONG_KINDS:
            if isinstance(w, dict) and 'f' in w and w['f'] == (2.5).hex() and has_kind(p['dt'], 'scaled'):
                continue
            doc = dict(good)
            doc[f'p{i}'] = w
            yield {'params': params, 'ops': [['corrupt', {'doc': {'s': doc}}], ['init', {}, None], ['save', None]]}
        for _ in range(4):
            doc = dict(good)
            doc[f'p{i}'] = outdate(p['dt'], rng)
            yield {'params': params, 'ops': [['corrupt', {'doc': {'s': doc}}], ['init', {}, None]]}


STRING_MODULES = [
    # label (utf-8, auto) + setpoint (auto): the module of a sample environment with a free text and a number
    [{'dt': ['str', 0, 6, True], 'pers': 'auto', 'w': 'none', 'default': ''},
     {'dt': ['float'], 'pers': 'auto', 'w': 'none', 'default': {'f': (0.0).hex()}}],
    # plain (ASCII) string, auto, + utf-8 string saved on request only + a number
    [{'dt': ['str', 0, 4, False], 'pers': 'auto', 'w': 'none', 'default': 'a'},
     {'dt': ['str', 1, 5, True], 'pers': 'on', 'w': 'none', 'default': 'é'},
     {'dt': ['int', -1000, 1000], 'pers': 'auto', 'w': 'none', 'default': 0}],
    # strings inside struct / array / tuple
    [{'dt': ['struct', [['n', ['int', -1000, 1000]], ['text', ['str', 0, 5, True]]], []], 'pers': 'auto', 'w': 'none',
      'default': {'s': {'n': 0, 'text': ''}}},
     {'dt': ['array', ['str', 0, 3, True], 0, 3], 'pers': 'auto', 'w': 'none', 'default': []},
     {'dt': ['tuple', [['str', 0, 3, True], ['str', 0, 3, False], ['bool']]], 'pers': 'auto', 'w': 'none',
      'default': ['', '', False]}],
    # with write methods (values go through writeDict / writeInitParams before they are saved)
    [{'dt': ['str', 0, 6, True], 'pers': 'auto', 'w': 'method', 'default': 'x'},
     {'dt': ['float'], 'pers': 'auto', 'w': 'flag', 'default': {'f': (1.5).hex()}}],
]

# one string per class of code points (all valid for a utf-8 string of up to 6 characters; the ASCII ones also for
# a plain string)
STRING_VALUES_ASCII = ['ab', 'a\tb', '\x01', '\x7f\x1f', 'a"b\\', '\n', '\r\n', '</']
STRING_VALUES_UTF8 = ['é', '5 °C', '3 µT', '中', '\x80', '\u2028', '\ufeff', '\uffff', '\U0001f600', 'a\U00010000b',
                      '\U0010ffff', '\ud83d', '\ude00', '\udcff', 'a\ud83d', '\ud83db', '\udc80z', '\ude00\ud83d',
                      '\ud83d\ud83d', '\ud800 \udfff', '\U0001f600\ud83d', '\ud83d\U0001f600', 'é\udcffé',
                      # a high surrogate directly followed by a low one, as two code points (open finding)
                      '\ud83d' + '\ude00', 'a' + '\ud800' + '\udc00', '\ud83d' + '\ud83d' + '\ude00']


def _with_string(dt, sval, rng):
    """a value of dt in which every string leaf that can hold sval is sval"""
    k = dt[0]
    if k == 'str':
        ok = dt[1] <= len(sval) <= dt[2] and (dt[3] or all(ord(c) < 128 for c in sval))
        return sval if ok else gen_str(dt, rng, special=False)
    if k == 'array':
        return [_with_string(dt[1], sval, rng) for _ in range(max(dt[2], min(dt[3], 2)))]
    if k == 'tuple':
        return [_with_string(d, sval, rng) for d in dt[1]]
    if k == 'struct':
        return {'s': {n: _with_string(d, sval, rng) for n, d in dt[1]}}
    return gen_value(dt, rng)


def string_cases(seed, tier):
    """string parameters (utf-8 and plain, also inside struct / array / tuple) assigned values of every class of code
    points - control characters, JSON-escaped characters, BMP non-ASCII, non-BMP, lone high / low surrogates - then
    OTHER parameters of the module assigned, explicit saves, and restarts: every value the module accepted has to
    be there again after the restart, and a save after it has to work"""
    rng = random.Random(seed * 7919 + 1717)
    cases = []
    for params in STRING_MODULES:
        names = [f'p{i}' for i in range(len(params))]
        strs = [i for i, p in enumerate(params) if has_kind(p['dt'], 'str')]
        others = [i for i in range(len(params)) if i not in strs] or strs
        haswd = any(p['w'] == 'method' for p in params)
        head = [['init', {}, None]] + ([['writeinit', None]] if haswd else [])
        for sval in STRING_VALUES_ASCII + STRING_VALUES_UTF8:
            for i in strs:
                v = _with_string(params[i]['dt'], sval, rng)
                if json.dumps(v).find(json.dumps(sval)[1:-1]) < 0:
                    continue          # the datatype cannot hold this string
                j = others[0]
                w = gen_value(params[j]['dt'], rng)
                # assigned while running, another parameter assigned afterwards, restart, save, restart
                cases.append({'params': params, 'ops': head + [
                    ['set', names[i], v, None], ['set', names[j], w, None], ['save', None],
                    ['init', {}, None], ['save', None], ['init', {}, None]]})
                # configured value (start-up saves it), restart without configuration
                cases.append({'params': params, 'ops': [
                    ['init', {names[i]: v}, None], ['save', None], ['init', {}, None]]})
        # random histories of special values with faults (a failed save is retried by the next one) and restarts
        nhist = {'quick': 12, 'thorough': 150, 'search': 150}[tier]
        for _ in range(nhist):
            ops = list(head)
            for _ in range(rng.randint(2, 6)):
                i = rng.choice(strs if rng.random() < 0.7 else list(range(len(params))))
                dt = params[i]['dt']
                v = _with_string(dt, gen_str(['str', 0, 3, True], rng, special=True), rng) if i in strs and \
                    rng.random() < 0.7 else gen_value(dt, rng)
                f = gen_fault(rng, 0.25, by_index=True)
                ops.append(['set', names[i], v, f])
                if f is not None and f['kind'] != 'err':
                    ops.append(['init', {}, None])
                    if haswd:
                        ops.append(['writeinit', None])
                elif rng.random() < 0.3:
                    ops.append(['save', None])
            ops += [['save', None], ['init', {}, None], ['save', None]]
            cases.append({'params': params, 'ops': ops})
    return cases


def gen_cases(seed, tier):
    rng = random.Random(seed * 1000003 + 17)
    npool, nrand = {'quick': (60, 1800), 'thorough': (400, 18000), 'search': (400, 18000)}[tier]
    pool = FIXED + [gen_params(rng) for _ in range(npool)]
    cases = list(string_cases(seed, tier))
    fixed = FIXED if tier != 'quick' else FIXED[:2]
    for params in fixed:
        cases.extend(fault_sweep(params, rng))
    for k, params in enumerate(FIXED):
        cases.extend(corruption_sweep(params, rng, flips=(tier != 'quick' or k == 0)))
    for params in pool if tier != 'quick' else pool[:24]:
        cases.extend(range_cases(params, rng))
    if tier != 'quick':
        for params in pool[3:43]:
            cases.extend(fault_sweep(params, rng))
    cases.extend(rand_case(rng, pool) for _ in range(nrand))
    cases.extend(conc_cases(seed, tier))
    return cases


def shrink(case):
    if case.get('kind') == 'conc':
        ths = case['threads']
        for i in range(len(ths)):
            if len(ths) > 2:
                yield dict(case, threads=ths[:i] + ths[i + 1:])
            for j in range(len(ths[i])):
                if len(ths[i]) > 1:
                    yield dict(case, threads=ths[:i] + [ths[i][:j] + ths[i][j + 1:]] + ths[i + 1:])
        return
    ops = case['ops']
    for i in range(len(ops) - 1, -1, -1):
        if len(ops) > 1:
            yield dict(case, ops=ops[:i] + ops[i + 1:])
    for i, op in enumerate(ops):
        if op[0] != 'corrupt' and op[-1] is not None:
            yield dict(case, ops=ops[:i] + [op[:-1] + [None]] + ops[i + 1:])
        if op[0] == 'init' and op[1]:
            yield dict(case, ops=ops[:i] + [['init', {}, op[2]]] + ops[i + 1:])


# ------------------------------------------------------------------ JSON-safe form of cases
# A case is stored as JSON (corpus files, replay files, findings).  JSON text cannot tell a str holding a high
# surrogate directly followed by a low one (two code points) from the one non-BMP character - which is the very
# defect of the open finding - so such a string travels as {'str_codepoints': [..]}; every entry point takes both forms.
PAIR_TAG = 'str_codepoints'


def tag_case(x):
    if isinstance(x, str):
        return {PAIR_TAG: [ord(c) for c in x]} if has_adjacent_pair(x) else x
    if isinstance(x, dict):
        return {k: tag_case(v) for k, v in x.items()}
    if isinstance(x, (list, tuple)):
        return [tag_case(v) for v in x]
    return x


def untag_case(x):
    if isinstance(x, dict):
        if set(x) == {PAIR_TAG}:
            return ''.join(chr(c) for c in x[PAIR_TAG])
        return {k: untag_case(v) for k, v in x.items()}
    if isinstance(x, (list, tuple)):
        return [untag_case(v) for v in x]
    return x


def _takes_case(fn):
    @functools.wraps(fn)
    def wrapped(case, *a, **kw):
        return fn(untag_case(case), *a, **kw)
    return wrapped


run_case = _takes_case(run_case)
encode = _takes_case(encode)
model_result_term = _takes_case(model_result_term)
oracle = _takes_case(oracle)
nontrivial_key = _takes_case(nontrivial_key)
outcome_labels = _takes_case(outcome_labels)
sample_repr = _takes_case(sample_repr)
_gen_cases_plain, _shrink_plain = gen_cases, shrink


def gen_cases(seed, tier):
    return [tag_case(c) for c in _gen_cases_plain(seed, tier)]


def shrink(case):
    for c in _shrink_plain(untag_case(case)):
        yield tag_case(c)


FINDING_CLASSIFIERS = {k: _takes_case(f) for k, f in FINDING_CLASSIFIERS.items()}
