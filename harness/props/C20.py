"""C20 — remote logging routing + log file rotation: implementation driver, case encoder, direct oracle"""
import itertools
import json
import random
import re

from harness import gal

ID = 'C20'
MODEL_TARGETS = ['theories/C20/Run.vo']
PROOF_TARGETS = ['theories/C20/Properties.vo']
PROPERTIES_V = 'theories/C20/Properties.v'
IMPORTS = 'Require Import FV.Gen.C20 FV.C20.Model FV.C20.Run.'
CASE_TYPE = 'case'
CHECK = 'check_case'
SHARD_SIZE = 300
RULE = ('routing: histories of {logging <module|.|""|None|unknown> <level>, emit(module, levelno), *IDN?, disconnect} on 1..3 '
        'fake connections and 1..3 real Modules behind a real Dispatcher + RemoteLogHandler; levels: all valid names, '
        'case variants, invalid names, ints, floats, None, bools, lists, dicts; every history ends with a probe sweep '
        '(every module x every named level); random (seeded) plus exhaustive short histories. '
        'rotation: real LogfileHandler in a temp dir (time.strftime of mlzlog patched), directories of 0..9 dated files, '
        'foreign files / sub-directories / links and directories named like old log files / future-dated files, retention 0..10, '
        '1..5 successive doRollover calls. '
        'non-trivial: a routing history with at least one delivery, a rotation with at least one rollover; '
        'distinct = distinct case contents')
ASSUMPTIONS = [
    'module loggers are children of a logger carrying the RemoteLogHandler (mlzlog getChild copies the handlers), so the '
    'lookup in Module.setRemoteLogging always finds it; the last dotted component of a module logger name is the module name',
    'str.lower() and the sort order of python strings are CPython: lower-casing is done by the harness, the model sorts by '
    'code points (checked against the sorted listing on every case)',
    'mlzlog.LOGLEVELS is library data: the table seen at run time is compared with the table of the model in every case',
    'file system: os.remove of a regular file succeeds; log file names are <root>-YYYY-MM-DD.log with a zero padded date, '
    'so that name order is date order; no entry named `current` is a directory; the file of the day, if it exists, is a '
    'regular file',
    'one request at a time (Dispatcher.handle_request holds its lock); records are emitted between requests',
]

# the level table of the specification (SECoP logging extension as implemented by frappy): name -> python level number
SPEC_LEVELS = {'debug': 10, 'comlog': 15, 'info': 20, 'warning': 30, 'error': 40, 'off': 99}
SPEC_NAMES = {v: k for k, v in SPEC_LEVELS.items() if k != 'off'}
ROOT = 'c20root'
DATE_RE = re.compile(r'^\d{4}-\d{2}-\d{2}$')


# ------------------------------------------------------------------ implementation driver
def _exc_name(e):
    return type(e).__name__


def run_route(case):
    import logging
    import mlzlog
    import frappy.logging as flog
    from frappy.modules import Module
    from frappy.protocol.dispatcher import Dispatcher

    class SecNodeStub:
        def __init__(self):
            self.modules = {}
            self.name = ''

        def add_module(self, module, modname):
            self.modules[modname] = module

        def get_module(self, modname):
            return self.modules[modname]

    class Srv:
        restart = None
        shutdown = None

        def __init__(self, log):
            self.secnode = SecNodeStub()
            self.dispatcher = Dispatcher('', log.getChild('dispatcher'), {}, self)

    class Conn:
        def __init__(self, i):
            self.i = i
            self.got = []

        def send_reply(self, msg):
            self.got.append(msg)

    class Mod(Module):
        def earlyInit(self):
            pass

    # loggers are cached by the logging module: forget the handlers of earlier cases
    for lname, lg in list(logging.Logger.manager.loggerDict.items()):
        if lname.startswith(ROOT + '.') and isinstance(lg, logging.Logger):
            lg.handlers[:] = []
    root = mlzlog.MLZLogger(ROOT)
    root.setLevel(logging.DEBUG)
    flog.init_remote_logging(root)
    srv = Srv(root)
    mods = {}
    for n in case['mods']:
        m = Mod(n, root.getChild(n), {'description': ''}, srv)
        srv.secnode.add_module(m, n)
        mods[n] = m
    disp = srv.dispatcher
    conns = [Conn(i) for i in range(case['nconn'])]
    for c in conns:
        disp.add_connection(c)
    steps = []
    for idx, op in enumerate(case['ops']):
        exc = None
        reply = None
        pyname = None
        try:
            if op[0] == 'log':
                reply = disp.handle_request(conns[op[1]], ('logging', op[2], op[3]))
            elif op[0] == 'idn':
                reply = disp.handle_request(conns[op[1]], ('*IDN?', None, None))
            elif op[0] == 'disc':
                disp.remove_connection(conns[op[1]])
            elif op[0] == 'emit':
                pyname = logging.getLevelName(op[2]).lower()      # record.levelname.lower(), CPython data for the model
                mods[op[1]].log.log(op[2], 'e%d', idx)
            else:
                raise AssertionError(op)
        except Exception as e:
            exc = _exc_name(e)
        sent = []
        for c in conns:
            msgs = []
            for msg in c.got:
                try:
                    action, spec, data = msg
                    modname, _, lev = spec.partition(':')
                    msgs.append([action, modname, lev, data])
                except Exception:
                    msgs.append(['?', repr(msg), '', None])
            c.got = []
            sent.append(msgs)
        steps.append({'exc': exc, 'sent': sent, 'pyname': pyname,
                      'reply': None if reply is None else [reply[0], json.loads(json.dumps(reply[1], default=repr))]})
    return {'steps': steps, 'levels': [[k, v] for k, v in flog.LOG_LEVELS.items()]}


def run_rot(case):
    import logging
    import os
    import shutil
    import tempfile
    import time as realtime
    import mlzlog
    import frappy.logging as flog

    class FakeTime:
        date = None

        def strftime(self, fmt, *args):
            if fmt == '%Y-%m-%d' and not args:
                return self.date
            return realtime.strftime(fmt, *args)

        def __getattr__(self, name):
            return getattr(realtime, name)

    base = '/dev/shm' if os.path.isdir('/dev/shm') else None
    tmp = tempfile.mkdtemp(prefix='verif-c20-', dir=base)
    ft = FakeTime()
    orig_time = mlzlog.time
    orig_raise = logging.raiseExceptions
    mlzlog.time = ft
    logging.raiseExceptions = False
    h = None
    try:
        root = case['root']
        d = os.path.join(tmp, root)
        os.makedirs(d)
        for name, kind in case['entries']:
            p = os.path.join(d, name)
            if kind == 'd':
                os.mkdir(p)
            elif kind == 'l':
                os.symlink('nowhere', p)
            else:
                with open(p, 'w') as f:
                    f.write('x')

        def listing():
            res = []
            for n in sorted(os.listdir(d)):
                p = os.path.join(d, n)
                res.append([n, os.path.isfile(p) and not os.path.islink(p)])     # regular file, links not followed
            return res

        ft.date = case['date0']
        h = flog.LogfileHandler(tmp, root, case['max_days'])
        first_exc = None
        try:
            # the first record opens the file of the day (no rollover: rollover_at is the next real midnight)
            h.emit(logging.LogRecord(root, logging.INFO, 'f', 1, 'first', (), None))
        except Exception as e:
            first_exc = _exc_name(e)
        l0 = listing()
        steps = []
        for dt in case['dates']:
            ft.date = dt
            exc = None
            try:
                h.doRollover()
            except Exception as e:
                exc = _exc_name(e)
            steps.append({'date': dt, 'exc': exc, 'listing': listing(),
                          'written': os.path.basename(h.baseFilename)})
        return {'first_exc': first_exc, 'listing0': l0, 'steps': steps, 'stream_open': h.stream is not None}
    finally:
        mlzlog.time = orig_time
        logging.raiseExceptions = orig_raise
        try:
            if h is not None:
                h.close()
        except Exception:
            pass
        shutil.rmtree(tmp, ignore_errors=True)


def run_case(case):
    if case['kind'] == 'route':
        return run_route(case)
    return run_rot(case)


# ------------------------------------------------------------------ encoding into Gallina
def enc_level(v):
    if isinstance(v, str):
        return f'(LStr {gal.string(v.lower())})'
    if isinstance(v, bool):
        return f'(LNum {gal.z(int(v))})'
    if isinstance(v, int):
        return f'(LNum {gal.z(v)})'
    if isinstance(v, float):
        if v == v and v not in (float('inf'), float('-inf')) and v == int(v):
            return f'(LNum {gal.z(int(v))})'
        return 'LOther'
    if isinstance(v, (list, dict)):
        return 'LUnhashable'
    return 'LOther'


def enc_op(op, pyname=None):
    if op[0] == 'log':
        return f'(OLogging {gal.nat(op[1])} {gal.option(op[2], gal.string)} {enc_level(op[3])})'
    if op[0] == 'emit':
        return f'(OEmit {gal.string(op[1])} {gal.z(op[2])} {gal.string(pyname or "")})'
    if op[0] == 'idn':
        return f'(OIdent {gal.nat(op[1])})'
    return f'(ODisconnect {gal.nat(op[1])})'


EXC = {None: 'None', 'ValueError': '(Some XValue)', 'TypeError': '(Some XType)', 'KeyError': '(Some XKey)'}


def enc_entry(e):
    return '{| e_name := %s; e_file := %s |}' % (gal.string(e[0]), gal.boolean(bool(e[1])))


def encode(case, obs):
    if case['kind'] == 'route':
        robs = []
        for s in obs['steps']:
            sent = []
            for i, msgs in enumerate(s['sent']):
                # a message that is not a log event can not be produced by the model: encode it as an impossible one
                ml = [gal.pair((m[1] if m[0] == 'log' else '?' + m[1], m[2]), gal.string, gal.string) for m in msgs]
                sent.append(f'({gal.nat(i)}, [{"; ".join(ml)}])')
            robs.append('{| r_exc := %s; r_sent := [%s] |}' % (EXC.get(s['exc'], '(Some XOther)'), '; '.join(sent)))
        return 'CRoute %s %s %s [%s]' % (
            gal.lst(obs['levels'], lambda p: gal.pair(p, gal.string, gal.z)),
            gal.lst(case['mods'], gal.string),
            '[' + '; '.join(enc_op(o, st.get('pyname')) for o, st in zip(case['ops'], obs['steps'])) + ']', '; '.join(robs))
    steps = ['{| s_date := %s; s_raised := %s; s_listing := %s |}' % (
        gal.string(s['date']), gal.boolean(s['exc'] is not None), gal.lst(s['listing'], enc_entry))
        for s in obs['steps']]
    init = [[n, k == 'f'] for n, k in case['entries']]
    return 'CRot %s %s %s %s %s [%s]' % (
        gal.string(case['root']), gal.nat(case['max_days']), gal.lst(init, enc_entry), gal.string(case['date0']),
        gal.lst(obs['listing0'], enc_entry), '; '.join(steps))


def model_result_term(case, obs):
    return f'model_result ({encode(case, obs)})'


# ------------------------------------------------------------------ direct oracle (the property on the observations)
def spec_level(v):
    """level number chosen by a request, 'mixed' for a name that is valid only up to case, None when not a level"""
    if isinstance(v, str):
        if v in SPEC_LEVELS:
            return SPEC_LEVELS[v]
        if v.lower() in SPEC_LEVELS:
            return 'mixed'
        return None
    if isinstance(v, bool):
        return None
    if isinstance(v, (int, float)) and v in SPEC_LEVELS.values():
        return 'numeric'
    return None


def oracle_route(case, obs):
    fails = []

    def fail(cls, what, **kw):
        fails.append(dict({'class': cls, 'what': what}, **kw))

    mods = case['mods']
    chosen = {}        # (conn, module) -> level number
    for idx, (op, s) in enumerate(zip(case['ops'], obs['steps'])):
        delivered = any(s['sent'])
        if op[0] != 'emit' and delivered:
            fail('spurious-delivery', f'op {idx} {op}: log messages were sent although no record was emitted', op=idx)
        if op[0] == 'log':
            _, c, spec, lv = op
            targets = mods if spec in (None, '', '.') else [spec] if spec in mods else None
            sl = spec_level(lv)
            accepted = s['exc'] is None
            if accepted:
                if sl is None:
                    fail('accepted-invalid-level', f'op {idx} {op}: request accepted although {lv!r} is not a level', op=idx)
                    continue
                num = SPEC_LEVELS[lv.lower()] if isinstance(lv, str) else int(lv)
                for m in targets or []:
                    if num == SPEC_LEVELS['off']:
                        chosen.pop((c, m), None)
                    else:
                        chosen[(c, m)] = num
            else:
                if targets is not None and isinstance(sl, int):
                    fail('rejected-valid-request', f'op {idx} {op}: valid logging request raised {s["exc"]}', op=idx)
        elif op[0] in ('idn', 'disc'):
            for m in mods:
                chosen.pop((op[1], m), None)
        elif op[0] == 'emit':
            _, m, lv = op
            for c in range(case['nconn']):
                msgs = s['sent'][c]
                want = (c, m) in chosen and lv >= chosen[(c, m)]
                if want and not msgs:
                    fail('missed-delivery', f'op {idx} {op}: connection {c} chose level {chosen[(c, m)]} for {m} but got '
                         f'nothing (emit raised {s["exc"]})', op=idx, conn=c)
                elif not want and msgs:
                    fail('spurious-delivery', f'op {idx} {op}: connection {c} (level for {m}: {chosen.get((c, m), "off")}) '
                         f'got {msgs}', op=idx, conn=c)
                elif want:
                    good = [m2 for m2 in msgs if m2[0] == 'log' and m2[1] == m and m2[3] == f'e{idx}'
                            and (lv not in SPEC_NAMES or m2[2] == SPEC_NAMES[lv])]
                    if len(msgs) != 1 or len(good) != 1:
                        fail('wrong-message', f'op {idx} {op}: connection {c} got {msgs}', op=idx, conn=c)
    return fails


def parse_dated(root, name):
    """date string of a log file name of this handler, else None"""
    pre, suf = root + '-', '.log'
    if name.startswith(pre) and name.endswith(suf):
        d = name[len(pre):-len(suf)]
        if DATE_RE.match(d):
            return d
    return None


def oracle_rot(case, obs):
    fails = []

    def fail(cls, what, **kw):
        fails.append(dict({'class': cls, 'what': what}, **kw))

    root, n = case['root'], case['max_days']
    before = obs['listing0']
    for idx, s in enumerate(obs['steps']):
        after = s['listing']
        written = f'{root}-{s["date"]}.log'
        names_before = [e[0] for e in before]
        names_after = {e[0] for e in after}
        # the file being written and the n-1 newest earlier log files must stay
        earlier = sorted((parse_dated(root, x), x) for x in names_before
                         if parse_dated(root, x) is not None and parse_dated(root, x) < s['date'])
        keep = {written} | ({x for _, x in earlier[max(0, len(earlier) - (n - 1)):]} if n > 1 else set())
        if n == 0:
            keep = {written}
        older = {x for _, x in earlier} - keep
        lost = sorted(x for x in keep if x not in names_after)
        if lost:
            fail('rotation-removed-newest', f'rollover {idx} to {s["date"]} with retention {n}: {lost} removed, '
                 f'but the file being written and the {max(n - 1, 0)} newest earlier files must be kept', step=idx)
        gone = sorted(x for x in names_before if x not in names_after and x not in keep and x not in older)
        if gone:
            fail('rotation-removed-not-older', f'rollover {idx} to {s["date"]} with retention {n}: {gone} removed, '
                 f'but only older log files may be removed', step=idx)
        before = after
    return fails


def oracle(case, obs):
    return oracle_route(case, obs) if case['kind'] == 'route' else oracle_rot(case, obs)


# ------------------------------------------------------------------ known finding classes (narrow)
FINDING_CLASSIFIERS = {
}


def nontrivial_key(case, obs):
    if case['kind'] == 'route':
        if not any(any(s['sent']) for s in obs['steps']):
            return None
        return json.dumps([case['mods'], case['nconn'], case['ops']], sort_keys=True)
    if not obs['steps']:
        return None
    return json.dumps(case, sort_keys=True)


def outcome_labels(case, obs):
    labs = set()
    if case['kind'] == 'route':
        labs.add('route')
        for op, s in zip(case['ops'], obs['steps']):
            if s['exc']:
                labs.add(f'{op[0]}-raised-{s["exc"]}')
            if any(s['sent']):
                labs.add('delivered')
                if sum(1 for x in s['sent'] if x) > 1:
                    labs.add('delivered-to-several')
            elif op[0] == 'emit':
                labs.add('filtered')
    else:
        labs.add('rot')
        labs.add('retention-0' if case['max_days'] == 0 else 'retention-n')
        for s in obs['steps']:
            if s['exc']:
                labs.add(f'rollover-raised-{s["exc"]}')
        if any(k == 'd' for _, k in case['entries']):
            labs.add('with-subdir')
    return sorted(labs)


def sample_repr(case, obs):
    if case['kind'] == 'route':
        return {'case': case, 'per_op': [[s['exc'], s['sent']] for s in obs['steps']][:8]}
    return {'case': case, 'listing0': [e[0] for e in obs['listing0']],
            'after': [[s['exc'], [e[0] for e in s['listing']]] for s in obs['steps']][:3]}


# ------------------------------------------------------------------ generators
VALID = ['debug', 'comlog', 'info', 'warning', 'error', 'off']
LEVEL_POOL = (VALID * 12 + ['DEBUG', 'Info', 'OFF', 'Comlog', 'WARNING', 'eRRor']
              + ['foo', '', 'critical', 'warn', 'fatal', 'débug', 'inf', 'of', 'off ', '99', '10']
              + [10, 15, 20, 30, 40, 99, 0, 1, 25, 50, -1, 100]
              + [20.0, 99.0, 15.5, None, True, False, [10], {'a': 1}, ['debug']])
EMIT_LEVELS = [10, 15, 20, 30, 40] * 4 + [50, 25, 5, 45]
MOD_POOL = ['m0', 'm1', 'mod', 'Com', 'x']
SWEEP = [10, 15, 20, 30, 40]


def sweep(mods):
    return [['emit', m, lv] for m in mods for lv in SWEEP]


def rand_route(rng):
    mods = rng.sample(MOD_POOL, rng.randint(1, 3))
    nconn = rng.randint(1, 3)
    good_specs = mods * 3 + ['', '.', None, '.', '']
    bad_specs = ['nomod', '..', ' ', mods[0] + ':value', mods[0].upper() + 'Z']
    ops = []
    for _ in range(rng.randint(3, 14)):
        r = rng.random()
        c = rng.randrange(nconn)
        if r < 0.42:
            ops.append(['log', c, rng.choice(bad_specs if rng.random() < 0.07 else good_specs), rng.choice(LEVEL_POOL)])
        elif r < 0.82:
            ops.append(['emit', rng.choice(mods), rng.choice(EMIT_LEVELS)])
        elif r < 0.91:
            ops.append(['idn', c])
        else:
            ops.append(['disc', c])
    return {'kind': 'route', 'mods': mods, 'nconn': nconn, 'ops': ops + sweep(mods)}


def exhaustive_route(depth):
    mods = ['m0', 'm1']
    alpha = [['log', 0, 'm0', 'debug'], ['log', 0, '.', 'warning'], ['log', 0, 'm0', 'off'], ['log', 0, '', 'off'],
             ['log', 1, 'm0', 'info'], ['log', 1, 'm1', 'comlog'], ['log', 1, '.', 'bad'], ['log', 0, 'm1', 40],
             ['idn', 0], ['disc', 1], ['emit', 'm0', 20], ['emit', 'm1', 50]]
    for ops in itertools.product(alpha, repeat=depth):
        yield {'kind': 'route', 'mods': mods, 'nconn': 2, 'ops': [list(o) for o in ops] + sweep(mods)}


def day(i):
    """i-th day counted from 2023-12-25 (month lengths do not matter for the order of the strings)"""
    y, r = divmod(i + 358, 372)
    m, d = divmod(r, 31)
    return f'{2023 + y:04d}-{m + 1:02d}-{d + 1:02d}'


FOREIGN = [['comlog', 'd'], ['zz', 'f'], ['aaa.txt', 'f'], ['other-2024-01-01.log', 'f'], ['zsub', 'd'],
           ['été.log', 'f'], ['Current', 'f'], ['current.bak', 'f']]
# entries carrying the name of an old log file of the handler which are not regular files
DISGUISED = [['{root}-2000-01-01.log', 'd'], ['{root}-2000-01-02.log', 'l']]


def rand_rot(rng):
    root = rng.choice(['frappy', 'frappy', 'node', 'a'])
    n = rng.choice([0, 1, 1, 2, 2, 3, 3, 4, 5, 7, 10])
    today = rng.randint(10, 40)
    k = rng.randint(0, 9)
    days = sorted(rng.sample(range(0, today), min(k, today)))
    entries = [[f'{root}-{day(i)}.log', 'f'] for i in days]
    if rng.random() < 0.3:
        entries.append([f'{root}-{day(today)}.log', 'f'])          # restart on the same day: the file exists
    if rng.random() < 0.5:
        entries.append(['current', 'l'])
    r = rng.random()
    if r < 0.45:
        for e in rng.sample(FOREIGN, rng.randint(1, 3)):
            entries.append(list(e))
        if rng.random() < 0.3:
            entries.append([f'{root}-{day(rng.randint(0, today))}.log.1', 'f'])
        if rng.random() < 0.15:
            entries.append([f'{root}-{day(today + rng.randint(20, 30))}.log', 'f'])   # dated in the future
        if rng.random() < 0.15:
            e = rng.choice(DISGUISED)
            entries.append([e[0].format(root=root), e[1]])
    seen = set()
    entries = [e for e in entries if not (e[0] in seen or seen.add(e[0]))]
    rng.shuffle(entries)
    dates = []
    cur = today
    for _ in range(rng.randint(1, 5)):
        x = rng.random()
        cur += 0 if x < 0.1 else 1 if x < 0.75 else rng.randint(2, 9)
        dates.append(day(cur))
    return {'kind': 'rot', 'root': root, 'max_days': n, 'entries': entries, 'date0': day(today), 'dates': dates}


def exhaustive_rot():
    """every subset of 4 earlier days x small foreign sets x retention 0..5, two rollovers"""
    for mask in range(16):
        days = [i for i in range(4) if mask >> i & 1]
        for foreign in ([], [['comlog', 'd']], [['zz', 'f']], [['aaa.txt', 'f'], ['zsub', 'd']]):
            for n in range(6):
                yield {'kind': 'rot', 'root': 'frappy', 'max_days': n,
                       'entries': [[f'frappy-{day(i)}.log', 'f'] for i in days] + [list(e) for e in foreign],
                       'date0': day(4), 'dates': [day(5), day(6)]}


def gen_cases(seed, tier):
    rng = random.Random(seed * 1000003 + 20)
    n_route, n_rot = {'quick': (2500, 1200), 'thorough': (20000, 8000), 'search': (20000, 8000)}[tier]
    cases = [rand_route(rng) for _ in range(n_route)]
    cases += [rand_rot(rng) for _ in range(n_rot)]
    depths = (1, 2) if tier == 'quick' else (1, 2, 3, 4)
    for d in depths:
        cases.extend(exhaustive_route(d))
    cases.extend(exhaustive_rot())
    return cases


def shrink(case):
    if case['kind'] == 'route':
        ops = case['ops']
        for i in range(len(ops) - 1, -1, -1):
            yield dict(case, ops=ops[:i] + ops[i + 1:])
        if case['nconn'] > 1 and all(o[0] == 'emit' or o[1] < case['nconn'] - 1 for o in ops):
            yield dict(case, nconn=case['nconn'] - 1)
        for m in case['mods'][1:]:
            if all(not (o[0] == 'emit' and o[1] == m) and not (o[0] == 'log' and o[2] == m) for o in ops):
                yield dict(case, mods=[x for x in case['mods'] if x != m])
    else:
        if len(case['dates']) > 1:
            yield dict(case, dates=case['dates'][:-1])
            yield dict(case, dates=case['dates'][1:])
        ent = case['entries']
        for i in range(len(ent) - 1, -1, -1):
            yield dict(case, entries=ent[:i] + ent[i + 1:])
        if case['max_days'] > 1:
            yield dict(case, max_days=case['max_days'] - 1)
