"""C20 — remote logging routing + log file rotation: implementation driver, case encoder, direct oracle.
Three kinds of cases: 'route' (sequential histories), 'rot' (log file rotation), 'conc' (several real threads under forced
interleavings at the granularity of the dict operations on the subscription table; driver in harness/c20conc.py)"""
import itertools
import json
import random
import re

from harness import gal

ID = 'C20'
MODEL_TARGETS = ['theories/C20/Run.vo']
PROOF_TARGETS = ['theories/C20/Properties.vo']
PROPERTIES_V = 'theories/C20/Properties.v'
IMPORTS = 'Require Import FV.Gen.C20 FV.C20.Model FV.C20.ConcModel FV.C20.Run.'
CASE_TYPE = 'case'
CHECK = 'check_case'
SHARD_SIZE = 300
RULE = ('routing: histories of {logging <module|.|""|None|unknown> <level>, emit(module, levelno), *IDN?, disconnect, '
        'activate / deactivate [<module>|<module:parameter>|unknown|internal module] (through Dispatcher.handle_request; accepted '
        'and rejected ones; they must have NO effect on the log subscriptions)} on 1..3 '
        'fake connections and 1..3 real Modules behind a real Dispatcher + RemoteLogHandler; any subset of the modules of a '
        'node is internal (export=False, case key `hidden`), incl. histories that enable an internal module by name and then '
        'send `logging . off`, *IDN? or disconnect; levels: all valid names, '
        'case variants, invalid names, ints, floats, None, bools, lists, dicts; every history ends with a probe sweep '
        '(every module x every named level); random (seeded) plus exhaustive short histories. '
        'rotation: real LogfileHandler in a temp dir (time.strftime of mlzlog patched), directories of 0..9 dated files, '
        'foreign files / sub-directories / links and directories named like old log files / future-dated files, retention 0..10, '
        '1..5 successive doRollover calls. '
        'concurrent: the same real objects operated by 2..5 real threads under the deterministic scheduler harness/dsched.py: one '
        'thread per connection (logging requests and *IDN? through handle_request = under the dispatcher lock, '
        'remove_connection without it) and module threads emitting records; switch points before every dict operation on '
        'RemoteLogHandler.subscriptions (recording dict subclasses installed on the handler instance; __hash__ of the fake '
        'connections used as keys; items() of the module dict in handle; every send_reply; acquire and release of Dispatcher._lock); '
        'schedules: seeded sticky-random choice sequences, and for four two-thread scenarios (close vs enable, close vs off, '
        'close vs emit, subscribe vs emit) EVERY interleaving; each run is compared with the model operation by operation, then a probe sweep; '
        'non-trivial: a routing history with at least one delivery, a rotation with at least one rollover, a concurrent run '
        'in which at least two threads executed operations; distinct = distinct case contents (concurrent: distinct '
        'threads + executed interleaving)')
ASSUMPTIONS = [
    'module loggers are children of a logger carrying the RemoteLogHandler (mlzlog getChild copies the handlers), so the '
    'lookup in Module.setRemoteLogging always finds it; the last dotted component of a module logger name is the module name',
    'str.lower() and the sort order of python strings are CPython: lower-casing is done by the harness, the model sorts by '
    'code points (checked against the sorted listing on every case)',
    'mlzlog.LOGLEVELS is library data: the table seen at run time is compared with the table of the model in every case',
    'file system: os.remove of a regular file succeeds; log file names are <root>-YYYY-MM-DD.log with a zero padded date, '
    'so that name order is date order; no entry named `current` is a directory; the file of the day, if it exists, is a '
    'regular file',
    'sequential cases: one request at a time, records are emitted between requests',
    'activate / deactivate requests: whether the dispatcher accepts them is property C08 (the exception class of such a '
    'request is recorded but not compared with the model); for C20 they are no-ops: no log message, no change of what a '
    'connection receives afterwards (oracle: only logging off / *IDN? / disconnect stop delivery); the modules of the '
    'harness node have no parameters, so an accepted activate sends no update messages; in threads of concurrent cases only '
    'activation requests that are accepted are used (the model step is: take the dispatcher lock, release it)',
    'internal modules (export=False): the stop clause is unconditional (off for all modules, *IDN?, disconnect leave no '
    'module enabled, internal or not); whether an ENABLING `logging . <level>` includes internal modules is not said by the '
    'property text: the oracle accepts both there (the model follows the code: it does, deviations are correspondence '
    'mismatches); a request naming an internal module is a valid request',
    'concurrent cases: every connection is served by ONE thread (requests, *IDN? and the final remove_connection of a connection '
    'are ordered, as in frappy.protocol.interface where handle() and finish() run in the thread of the connection); threads are '
    'interleaved at dict-operation granularity: every in-place operation of a builtin dict (setdefault, item assignment, pop, '
    'subscript, next of an items() iterator) is atomic (CPython, GIL); preemption inside such an operation is not explored',
    'concurrent cases: handle (repaired by 641822e) takes its snapshot with list(subscriptions.items()), one atomic step for a '
    'builtin dict (the harness records the content at the items() call and returns the real view, so a handle iterating the '
    'live dict behaves as CPython makes it behave); every send_log is a step of its own; the oracle demands: logging a '
    'record never raises into the emitting thread; a connection whose own thread has no request addressing the module, '
    '*IDN? or close overlapping the emission (by the order of operation boundaries) receives the record exactly once iff '
    'the level it chose before suffices; for the others only soundness (a level it had or chose at some time suffices)',
    'concurrent cases: records below DEBUG are not emitted by module threads (the logger drops them before the handler)',
]

# the level table of the specification (SECoP logging extension as implemented by frappy): name -> python level number
SPEC_LEVELS = {'debug': 10, 'comlog': 15, 'info': 20, 'warning': 30, 'error': 40, 'off': 99}
SPEC_NAMES = {v: k for k, v in SPEC_LEVELS.items() if k != 'off'}
ROOT = 'c20root'
DATE_RE = re.compile(r'^\d{4}-\d{2}-\d{2}$')


# ------------------------------------------------------------------ implementation driver
def _exc_name(e):
    return type(e).__name__


def build_node(case, conn_class=None, handler_hook=None):
    """a real Dispatcher + RemoteLogHandler + Modules with fake connections -> (dispatcher, connections, modules, frappy.logging)"""
    import logging
    import mlzlog
    import frappy.logging as flog
    from frappy.modules import Module
    from frappy.protocol.dispatcher import Dispatcher

    class SecNodeStub:
        def __init__(self):
            self.modules = {}
            self.export = []          # as frappy.secnode.SecNode: the names of the modules with export != False
            self.name = ''

        def add_module(self, module, modname):
            self.modules[modname] = module
            if module.export:
                self.export.append(modname)

        def get_module(self, modname):
            return self.modules[modname]

    class Srv:
        restart = None
        shutdown = None

        def __init__(self, log):
            self.secnode = SecNodeStub()
            self.dispatcher = Dispatcher('', log.getChild('dispatcher'), {}, self)

    class Conn:
        def __init__(self, i):
            self.i = i
            self.got = []

        def send_reply(self, msg):
            self.got.append(msg)

    class Mod(Module):
        def earlyInit(self):
            pass

    # loggers are cached by the logging module: forget the handlers of earlier cases
    for lname, lg in list(logging.Logger.manager.loggerDict.items()):
        if lname.startswith(ROOT + '.') and isinstance(lg, logging.Logger):
            lg.handlers[:] = []
    root = mlzlog.MLZLogger(ROOT)
    root.setLevel(logging.DEBUG)
    flog.init_remote_logging(root)
    if handler_hook is not None:
        for h in root.handlers:
            if isinstance(h, flog.RemoteLogHandler):
                handler_hook(h)
    srv = Srv(root)
    mods = {}
    hidden = set(case.get('hidden') or ())
    for n in case['mods']:
        # internal modules (export=False) sit in secnode.modules next to the exported ones
        m = Mod(n, root.getChild(n), {'description': '', 'export': False} if n in hidden else {'description': ''}, srv)
        if m.export is not (n not in hidden):
            raise AssertionError(f'export of {n}: {m.export!r}')
        srv.secnode.add_module(m, n)
        mods[n] = m
    disp = srv.dispatcher
    conns = [(conn_class or Conn)(i) for i in range(case['nconn'])]
    for c in conns:
        disp.add_connection(c)
    return disp, conns, mods, flog


def exec_op(disp, conns, mods, op, idx):
    """one operation on the real objects -> (exception class name, reply, python level name of an emitted record)"""
    import logging
    exc = None
    reply = None
    pyname = None
    try:
        if op[0] == 'log':
            reply = disp.handle_request(conns[op[1]], ('logging', op[2], op[3]))
        elif op[0] == 'idn':
            reply = disp.handle_request(conns[op[1]], ('*IDN?', None, None))
        elif op[0] == 'disc':
            disp.remove_connection(conns[op[1]])
        elif op[0] in ('act', 'deact'):
            # ['act' | 'deact', connection, specifier (None: all), optional data (requests with data are rejected)]
            reply = disp.handle_request(conns[op[1]], ('activate' if op[0] == 'act' else 'deactivate', op[2],
                                                       op[3] if len(op) > 3 else None))
        elif op[0] == 'emit':
            pyname = logging.getLevelName(op[2]).lower()      # record.levelname.lower(), CPython data for the model
            mods[op[1]].log.log(op[2], 'e%d', idx)
        else:
            raise AssertionError(op)
    except Exception as e:
        exc = _exc_name(e)
    return exc, (None if reply is None else [reply[0], json.loads(json.dumps(reply[1], default=repr))]), pyname


def collect(conns):
    """the messages every connection got since the last call"""
    sent = []
    for c in conns:
        msgs = []
        for msg in c.got:
            try:
                action, spec, data = msg
                modname, _, lev = spec.partition(':')
                msgs.append([action, modname, lev, data])
            except Exception:
                msgs.append(['?', repr(msg), '', None])
        c.got = []
        sent.append(msgs)
    return sent


def run_route(case):
    disp, conns, mods, flog = build_node(case)
    steps = []
    for idx, op in enumerate(case['ops']):
        exc, reply, pyname = exec_op(disp, conns, mods, op, idx)
        steps.append({'exc': exc, 'sent': collect(conns), 'pyname': pyname, 'reply': reply})
    return {'steps': steps, 'levels': [[k, v] for k, v in flog.LOG_LEVELS.items()]}


def run_conc(case):
    from harness import c20conc
    return c20conc.run_conc(case, build_node, exec_op, collect)


def run_rot(case):
    import logging
    import os
    import shutil
    import tempfile
    import time as realtime
    import mlzlog
    import frappy.logging as flog

    class FakeTime:
        date = None

        def strftime(self, fmt, *args):
            if fmt == '%Y-%m-%d' and not args:
                return self.date
            return realtime.strftime(fmt, *args)

        def __getattr__(self, name):
            return getattr(realtime, name)

    base = '/dev/shm' if os.path.isdir('/dev/shm') else None
    tmp = tempfile.mkdtemp(prefix='verif-c20-', dir=base)
    ft = FakeTime()
    orig_time = mlzlog.time
    orig_raise = logging.raiseExceptions
    mlzlog.time = ft
    logging.raiseExceptions = False
    h = None
    try:
        root = case['root']
        d = os.path.join(tmp, root)
        os.makedirs(d)
        for name, kind in case['entries']:
            p = os.path.join(d, name)
            if kind == 'd':
                os.mkdir(p)
            elif kind == 'l':
                os.symlink('nowhere', p)
            else:
                with open(p, 'w') as f:
                    f.write('x')

        def listing():
            res = []
            for n in sorted(os.listdir(d)):
                p = os.path.join(d, n)
                res.append([n, os.path.isfile(p) and not os.path.islink(p)])     # regular file, links not followed
            return res

        ft.date = case['date0']
        h = flog.LogfileHandler(tmp, root, case['max_days'])
        first_exc = None
        try:
            # the first record opens the file of the day (no rollover: rollover_at is the next real midnight)
            h.emit(logging.LogRecord(root, logging.INFO, 'f', 1, 'first', (), None))
        except Exception as e:
            first_exc = _exc_name(e)
        l0 = listing()
        steps = []
        for dt in case['dates']:
            ft.date = dt
            exc = None
            try:
                h.doRollover()
            except Exception as e:
                exc = _exc_name(e)
            steps.append({'date': dt, 'exc': exc, 'listing': listing(),
                          'written': os.path.basename(h.baseFilename)})
        return {'first_exc': first_exc, 'listing0': l0, 'steps': steps, 'stream_open': h.stream is not None}
    finally:
        mlzlog.time = orig_time
        logging.raiseExceptions = orig_raise
        try:
            if h is not None:
                h.close()
        except Exception:
            pass
        shutil.rmtree(tmp, ignore_errors=True)


def run_case(case):
    if case['kind'] == 'route':
        return run_route(case)
    if case['kind'] == 'conc':
        return run_conc(case)
    return run_rot(case)


# ------------------------------------------------------------------ encoding into Gallina
KNOWN_NAMES = {'debug': 's_debug', 'info': 's_info', 'warning': 's_warning', 'error': 's_error', 'off': 's_off',
               'comlog': 's_comlog'}
DATED_RE = re.compile(r'^(.+)-(\d{4})-(\d{2})-(\d{2})\.log$')


class _StrTable:
    """strings of a case are encoded once (`let s3 : name := [...] in`) and referred to by name: the shard files are
    dominated by the time coqc needs to read string literals"""

    def __init__(self):
        self.t = {}
        self.lets = []

    def __call__(self, s):
        if s in KNOWN_NAMES:
            return KNOWN_NAMES[s]           # constants of Model.v with exactly these code points
        if s not in self.t:
            m = DATED_RE.match(s)
            d = DATE_RE.match(s)
            if m and not m.group(1).endswith('-'):
                # "<root>-YYYY-MM-DD.log": Run.dlog rebuilds exactly this string
                rhs = f'dlog {self(m.group(1))} {gal.N(int(m.group(2)))} {gal.N(int(m.group(3)))} {gal.N(int(m.group(4)))}'
            elif d:
                y, mo, dd = s.split('-')
                rhs = f'date_str {gal.N(int(y))} {gal.N(int(mo))} {gal.N(int(dd))}'
            else:
                rhs = gal.string(s)
            self.t[s] = f's{len(self.t)}'
            self.lets.append((self.t[s], rhs))
        return self.t[s]


_senc = [gal.string]


def gstr(s):
    return _senc[0](s)


def enc_level(v):
    if isinstance(v, str):
        return f'(LStr {gstr(v.lower())})'
    if isinstance(v, bool):
        return f'(LNum {gal.z(int(v))})'
    if isinstance(v, int):
        return f'(LNum {gal.z(v)})'
    if isinstance(v, float):
        if v == v and v not in (float('inf'), float('-inf')) and v == int(v):
            return f'(LNum {gal.z(int(v))})'
        return 'LOther'
    if isinstance(v, (list, dict)):
        return 'LUnhashable'
    return 'LOther'


def enc_op(op, pyname=None):
    if op[0] == 'log':
        return f'(OLogging {gal.nat(op[1])} {gal.option(op[2], gstr)} {enc_level(op[3])})'
    if op[0] == 'emit':
        return f'(OEmit {gstr(op[1])} {gal.z(op[2])} {gstr(pyname or "")})'
    if op[0] == 'idn':
        return f'(OIdent {gal.nat(op[1])})'
    if op[0] == 'act':
        return f'(OActivate {gal.nat(op[1])} {gal.option(op[2], gstr)})'
    if op[0] == 'deact':
        return f'(ODeactivate {gal.nat(op[1])} {gal.option(op[2], gstr)})'
    return f'(ODisconnect {gal.nat(op[1])})'


EXC = {None: 'None', 'ValueError': '(Some XValue)', 'TypeError': '(Some XType)', 'KeyError': '(Some XKey)'}


def enc_entry(e):
    return '(%s %s)' % ('ef' if e[1] else 'ed', gstr(e[0]))


STD_LEVELS = [['debug', 10], ['info', 20], ['warning', 30], ['error', 40], ['off', 99], ['comlog', 15]]


def enc_levels(levels):
    if [list(x) for x in levels] == STD_LEVELS:
        return 'std_levels'          # the same literal, defined once in Run.v
    return gal.lst(levels, lambda p: gal.pair(p, gstr, gal.z))


def enc_robs(steps):
    robs = []
    for s in steps:
        sent = []
        for i, msgs in enumerate(s['sent']):
            if not msgs:
                continue     # robs_ok compares the listed connections and the total number of messages
            # a message that is not a log event can not be produced by the model: encode it as an impossible one
            ml = [gal.pair((m[1] if m[0] == 'log' else '?' + m[1], m[2]), gstr, gstr) for m in msgs]
            sent.append(f'({gal.nat(i)}, [{"; ".join(ml)}])')
        if s['exc'] is None and not sent:
            robs.append('r0')
        else:
            robs.append('(rb %s [%s])' % (EXC.get(s['exc'], '(Some XOther)'), '; '.join(sent)))
    return '[' + '; '.join(robs) + ']'


def enc_ops(ops, steps):
    return '[' + '; '.join(enc_op(o, st.get('pyname')) for o, st in zip(ops, steps)) + ']'


MEXC = {None: 'None', 'ValueError': '(Some EValue)', 'TypeError': '(Some EType)', 'KeyError': '(Some EKey)'}


def _isnat(v):
    return isinstance(v, int) and not isinstance(v, bool) and v >= 0


def _isint(v):
    return isinstance(v, int) and not isinstance(v, bool)


def enc_event(ev):
    """one observed atomic operation -> [(thread, oev)]; anything the model has no step for becomes OBad"""
    tid, kind = ev[0], ev[1]
    t = gal.nat(tid if _isnat(tid) else 999)
    a = 'OBad'
    extra = []
    if kind == 'acq':
        a = 'OAcq'
    elif kind == 'rel':
        a = f'(ORel {MEXC[ev[2]]})' if ev[2] in MEXC else 'OBad'
    elif kind == 'sd':
        a = f'(OTab (TSetDefault {gstr(ev[2])}))'
    elif kind == 'set' and _isnat(ev[3]) and _isint(ev[4]):
        a = f'(OTab (TSet {gstr(ev[2])} {gal.nat(ev[3])} {gal.z(ev[4])}))'
    elif kind == 'pop' and _isnat(ev[3]):
        a = f'(OTab (TPop {gstr(ev[2])} {gal.nat(ev[3])}))'
    elif kind == 'get':
        a = f'(OGet {gstr(ev[2])} {gal.boolean(bool(ev[3]))})'
        if not ev[3]:
            extra = [(t, 'OSkip')]       # handle returned: the model's thread skips its snapshot step
    elif kind == 'snap' and all(_isnat(c) and _isint(v) for c, v in ev[3]):
        a = '(OSnap %s [%s])' % (gstr(ev[2]), '; '.join(f'({gal.nat(c)}, {gal.z(v)})' for c, v in ev[3]))
    elif kind == 'send' and _isnat(ev[2]) and ev[3] == 'log':
        a = f'(OSend {gal.nat(ev[2])} {gstr(ev[4])} {gstr(ev[5])})'
    return [(t, a)] + extra


def enc_conc(case, obs):
    events = [x for ev in obs['events'] for x in enc_event(ev)]
    threads = []
    for k, th in enumerate(case['threads']):
        if 'conn' in th:
            steps = [{'pyname': None}] * len(th['ops'])
            excs = '[' + '; '.join(EXC.get(r['exc'], '(Some XOther)') for r in obs['results'][k]) + ']'
            threads.append(f'TConn {enc_ops(th["ops"], steps)} {excs}')
        else:
            res = obs['results'][k]
            recs = [[m, lv, (res[j].get('pyname') if j < len(res) else None) or ''] for j, (m, lv) in enumerate(th['emit'])]
            rl = '[' + '; '.join(f'({gstr(m)}, {gal.z(lv)}, {gstr(py)})' for m, lv, py in recs) + ']'
            threads.append(f'TEmit {rl}')
    table = []
    for ent in obs['table']:
        m, l = ent
        if isinstance(l, list) and all(_isnat(c) and _isint(v) for c, v in l):
            table.append('(%s, [%s])' % (gstr(m), '; '.join(f'({gal.nat(c)}, {gal.z(v)})' for c, v in l)))
        else:
            table.append('(%s, [(999%%nat, 0%%Z)])' % gstr('?' + m))
    return 'CConc %s %s %s %s [%s] [%s] [%s] %s %s' % (
        enc_levels(obs['levels']),
        enc_node(case),
        enc_ops(case['pre'], obs['pre']), enc_robs(obs['pre']),
        '; '.join(threads), '; '.join(f'({t}, {a})' for t, a in events), '; '.join(table),
        enc_ops(case['sweep'], obs['sweep']), enc_robs(obs['sweep']))


def encode(case, obs):
    tab = _StrTable()
    _senc[0] = tab
    try:
        body = encode_body(case, obs)
    finally:
        _senc[0] = gal.string
    lets = ''.join(f'let {v} : name := {rhs} in ' for v, rhs in tab.lets)
    return f'({lets}{body})'


def enc_node(case):
    hidden = set(case.get('hidden') or ())
    return gal.lst(case['mods'], lambda n: '(%s %s)' % ('mh' if n in hidden else 'mx', gstr(n)))


def encode_body(case, obs):
    if case['kind'] == 'conc':
        return enc_conc(case, obs)
    if case['kind'] == 'route':
        return 'CRoute %s %s %s %s' % (
            enc_levels(obs['levels']),
            enc_node(case),
            enc_ops(case['ops'], obs['steps']), enc_robs(obs['steps']))
    steps = ['{| s_date := %s; s_raised := %s; s_listing := %s |}' % (
        gstr(s['date']), gal.boolean(s['exc'] is not None), gal.lst(s['listing'], enc_entry))
        for s in obs['steps']]
    init = [[n, k == 'f'] for n, k in case['entries']]
    return 'CRot %s %s %s %s %s [%s]' % (
        gstr(case['root']), gal.nat(case['max_days']), gal.lst(init, enc_entry), gstr(case['date0']),
        gal.lst(obs['listing0'], enc_entry), '; '.join(steps))


def model_result_term(case, obs):
    return f'model_result ({encode(case, obs)})'


# ------------------------------------------------------------------ direct oracle (the property on the observations)
def spec_level(v):
    """level number chosen by a request, 'mixed' for a name that is valid only up to case, None when not a level"""
    if isinstance(v, str):
        if v in SPEC_LEVELS:
            return SPEC_LEVELS[v]
        if v.lower() in SPEC_LEVELS:
            return 'mixed'
        return None
    if isinstance(v, bool):
        return None
    if isinstance(v, (int, float)) and v in SPEC_LEVELS.values():
        return 'numeric'
    return None


def oracle_route(case, obs):
    fails = []

    def fail(cls, what, **kw):
        fails.append(dict({'class': cls, 'what': what}, **kw))

    mods = case['mods']
    hidden = set(case.get('hidden') or ())
    # (conn, module) -> the set of levels that may be in force (None = off).  One element everywhere except for an INTERNAL
    # module (export=False) after an ENABLING request addressing all modules: the property text does not say whether
    # "all modules" of `logging . <level>` includes modules the description does not show, so both answers are accepted
    # there (the model follows the code: it does; any deviation is a correspondence mismatch).  The stop clause is
    # unconditional: off for all modules, *IDN? and disconnect leave NO module enabled, internal or not.
    poss = {}
    OFFSET = frozenset([None])

    def show(p):
        return '/'.join('off' if x is None else str(x) for x in sorted(p, key=lambda x: (x is not None, x or 0)))

    for idx, (op, s) in enumerate(zip(case['ops'], obs['steps'])):
        delivered = any(s['sent'])
        if op[0] != 'emit' and delivered:
            fail('spurious-delivery', f'op {idx} {op}: log messages were sent although no record was emitted', op=idx)
        if op[0] == 'log':
            _, c, spec, lv = op
            to_all = spec in (None, '', '.')
            targets = mods if to_all else [spec] if spec in mods else None
            sl = spec_level(lv)
            accepted = s['exc'] is None
            if accepted:
                if sl is None:
                    fail('accepted-invalid-level', f'op {idx} {op}: request accepted although {lv!r} is not a level', op=idx)
                    continue
                num = SPEC_LEVELS[lv.lower()] if isinstance(lv, str) else int(lv)
                for m in targets or []:
                    if num == SPEC_LEVELS['off']:
                        poss.pop((c, m), None)
                    elif to_all and m in hidden:
                        poss[(c, m)] = poss.get((c, m), OFFSET) | {num}
                    else:
                        poss[(c, m)] = frozenset([num])
            else:
                if targets is not None and isinstance(sl, int):
                    fail('rejected-valid-request', f'op {idx} {op}: valid logging request raised {s["exc"]}', op=idx)
        elif op[0] in ('idn', 'disc'):
            for m in mods:
                poss.pop((op[1], m), None)
        elif op[0] in ('act', 'deact'):
            # event subscriptions: accepted or rejected, such a request is none of `logging ... off`, *IDN?, disconnect --
            # what the connection (and everybody else) receives stays what it was
            pass
        elif op[0] == 'emit':
            _, m, lv = op
            for c in range(case['nconn']):
                msgs = s['sent'][c]
                p = poss.get((c, m), OFFSET)
                wants = {x is not None and lv >= x for x in p}
                kind = ' (internal module)' if m in hidden else ''
                if wants == {True} and not msgs:
                    fail('missed-delivery', f'op {idx} {op}: connection {c} chose level {show(p)} for {m}{kind} but got '
                         f'nothing (emit raised {s["exc"]})', op=idx, conn=c)
                elif wants == {False} and msgs:
                    fail('spurious-delivery', f'op {idx} {op}: connection {c} (level for {m}{kind}: {show(p)}) '
                         f'got {msgs}', op=idx, conn=c)
                elif msgs:
                    good = [m2 for m2 in msgs if m2[0] == 'log' and m2[1] == m and m2[3] == f'e{idx}'
                            and (lv not in SPEC_NAMES or m2[2] == SPEC_NAMES[lv])]
                    if len(msgs) != 1 or len(good) != 1:
                        fail('wrong-message', f'op {idx} {op}: connection {c} got {msgs}', op=idx, conn=c)
    return fails


def parse_dated(root, name):
    """date string of a log file name of this handler, else None"""
    pre, suf = root + '-', '.log'
    if name.startswith(pre) and name.endswith(suf):
        d = name[len(pre):-len(suf)]
        if DATE_RE.match(d):
            return d
    return None


def oracle_rot(case, obs):
    fails = []

    def fail(cls, what, **kw):
        fails.append(dict({'class': cls, 'what': what}, **kw))

    root, n = case['root'], case['max_days']
    before = obs['listing0']
    for idx, s in enumerate(obs['steps']):
        after = s['listing']
        written = f'{root}-{s["date"]}.log'
        names_before = [e[0] for e in before]
        names_after = {e[0] for e in after}
        # the file being written and the n-1 newest earlier log files must stay
        earlier = sorted((parse_dated(root, x), x) for x in names_before
                         if parse_dated(root, x) is not None and parse_dated(root, x) < s['date'])
        keep = {written} | ({x for _, x in earlier[max(0, len(earlier) - (n - 1)):]} if n > 1 else set())
        if n == 0:
            keep = {written}
        older = {x for _, x in earlier} - keep
        lost = sorted(x for x in keep if x not in names_after)
        if lost:
            fail('rotation-removed-newest', f'rollover {idx} to {s["date"]} with retention {n}: {lost} removed, '
                 f'but the file being written and the {max(n - 1, 0)} newest earlier files must be kept', step=idx)
        gone = sorted(x for x in names_before if x not in names_after and x not in keep and x not in older)
        if gone:
            fail('rotation-removed-not-older', f'rollover {idx} to {s["date"]} with retention {n}: {gone} removed, '
                 f'but only older log files may be removed', step=idx)
        before = after
    return fails


def conn_threads(case):
    return [(k, th) for k, th in enumerate(case['threads']) if 'conn' in th]


def oracle_conc(case, obs):
    """the property on a concurrent run.  Every connection is served by one thread, so its own requests / *IDN? / close are
    ordered; nothing another connection does may change what it receives.  Hence: AFTER ALL THREADS FINISHED a connection
    receives a record exactly when its own latest accepted choice for the module is a level at or below the record's level
    (a closed connection: nothing) -- checked by the probe sweep, with the sequential oracle on the history
    `pre + the operations of every connection thread + sweep` (the order among different connections does not matter
    to it).  WHILE the threads run: logging a record never raises into the emitting thread; a connection whose own thread
    does not touch its choice for the module during the emission (no overlapping request addressing the module, *IDN? or
    close) receives the record exactly once iff the level it had chosen before suffices; otherwise a message needs a level
    the connection had or chose at some time."""
    fails = []

    def fail(cls, what, **kw):
        fails.append(dict({'class': cls, 'what': what}, **kw))

    if obs['status'] != 'ok' or obs['thread_errors'] or obs['main_error']:
        fail('concurrent-run-incomplete', f'threads did not finish: status {obs["status"]}, errors {obs["thread_errors"]} '
             f'{obs["main_error"]}')
        return fails
    seen = set()
    for _, th in conn_threads(case):
        if th['conn'] in seen or any(o[1] != th['conn'] for o in th['ops']):
            return fails          # not a case of this layer (one thread per connection): no judgement
        seen.add(th['conn'])
    nothing = [[] for _ in range(case['nconn'])]
    ops = list(case['pre'])
    steps = list(obs['pre'])
    for k, th in conn_threads(case):
        if len(obs['results'][k]) != len(th['ops']):
            fail('concurrent-run-incomplete', f'thread {k} executed {len(obs["results"][k])} of {len(th["ops"])} operations')
            return fails
        ops += th['ops']
        steps += [{'exc': r['exc'], 'sent': nothing, 'pyname': None} for r in obs['results'][k]]
    n_before = len(ops)
    ops += case['sweep']
    steps += obs['sweep']
    for f in oracle_route({'mods': case['mods'], 'hidden': case.get('hidden'), 'nconn': case['nconn'], 'ops': ops},
                          {'steps': steps}):
        where = 'after all threads finished' if f.get('op', 0) >= n_before else 'request of a thread'
        fails.append(dict(f, what=f'[{where}] ' + f['what']))
    # records emitted while the threads ran
    def chosen_level(hist_ops, hist_res, m):
        """the level the connection chose for m with the given (operation, result) history, None = off"""
        cur = None
        for o, r in zip(hist_ops, hist_res):
            if o[0] in ('idn', 'disc'):
                cur = None
            elif o[0] == 'log' and r['exc'] is None and (o[2] in (None, '', '.') or o[2] == m):
                sl = spec_level(o[3])
                if sl is not None:
                    num = SPEC_LEVELS[o[3].lower()] if isinstance(o[3], str) else int(o[3])
                    cur = None if num == SPEC_LEVELS['off'] else num
        return cur

    def may_write(o, m):
        return o[0] in ('idn', 'disc') or (o[0] == 'log' and (o[2] in (None, '', '.') or o[2] == m))

    thread_of = {th['conn']: k for k, th in conn_threads(case)}
    got = {}          # (connection, record id) -> messages
    for c, msgs in enumerate(obs['during']):
        for msg in msgs:
            got.setdefault((c, msg[3] if isinstance(msg[3], str) else repr(msg[3])), []).append(msg)
    known = set()
    for k, th in enumerate(case['threads']):
        for j, (m, lv) in enumerate(th.get('emit', [])):
            rid = f'e{1000 * (k + 1) + j}'
            known.add(rid)
            if j >= len(obs['results'][k]):
                continue
            res = obs['results'][k][j]
            if res['exc'] is not None:
                fail('emit-raised', f'thread {k}: logging the record ({m}, {lv}) raised {res["exc"]} into the emitting thread',
                     thread=k)
            for c in range(case['nconn']):
                msgs = got.get((c, rid), [])
                pre_ops = [o for o in case['pre'] if o[0] != 'emit' and o[1] == c]
                pre_res = [r for o, r in zip(case['pre'], obs['pre']) if o[0] != 'emit' and o[1] == c]
                tk = thread_of.get(c)
                t_ops = case['threads'][tk]['ops'] if tk is not None else []
                t_res = obs['results'][tk] if tk is not None else []
                # operations of the connection's own thread: finished before the emission started / overlapping it
                before = [(o, r) for o, r in zip(t_ops, t_res) if r['t1'] <= res['t0']]
                overlap = [o for o, r in zip(t_ops, t_res) if r['t1'] > res['t0'] and r['t0'] < res['t1']]
                stable = not any(may_write(o, m) for o in overlap)
                bad = [x for x in msgs if x[0] != 'log' or x[1] != m or (lv in SPEC_NAMES and x[2] != SPEC_NAMES[lv])]
                if bad or len(msgs) > 1:
                    fail('wrong-message', f'record {rid} ({m}, {lv}) emitted by thread {k}: connection {c} got {msgs}', conn=c)
                    continue
                if stable:
                    # nobody else may write this connection's entry: it must get the record exactly when its level suffices
                    level = chosen_level(pre_ops + [o for o, _ in before], pre_res + [r for _, r in before], m)
                    want = level is not None and lv >= level
                    if want and not msgs:
                        fail('missed-delivery', f'record {rid} ({m}, {lv}) emitted by thread {k} while other threads ran: '
                             f'connection {c} had chosen level {level} for {m}, its own thread did not touch that choice during '
                             f'the emission, but it got nothing (emit raised {res["exc"]})', conn=c)
                    elif msgs and not want:
                        fail('spurious-delivery', f'record {rid} ({m}, {lv}) emitted by thread {k} while other threads ran: '
                             f'connection {c} (level for {m}: {level if level is not None else "off"}, untouched during the '
                             f'emission) got {msgs}', conn=c)
                elif msgs:
                    # its own thread was changing the choice meanwhile: any level it had or chose may have been in force
                    levels = {chosen_level(pre_ops + list(t_ops[:n]), pre_res + list(t_res[:n]), m)
                              for n in range(len(t_ops) + 1)}
                    if not any(x is not None and x <= lv for x in levels):
                        fail('spurious-delivery', f'record {rid} ({m}, {lv}): connection {c} got {msgs} although it never '
                             f'chose a level <= {lv} for {m}', conn=c)
    for (c, rid), msgs in got.items():
        if rid not in known:
            fail('wrong-message', f'while the threads ran connection {c} got {msgs} (no such record)', conn=c)
    return fails


def oracle(case, obs):
    if case['kind'] == 'conc':
        return oracle_conc(case, obs)
    return oracle_route(case, obs) if case['kind'] == 'route' else oracle_rot(case, obs)


# ------------------------------------------------------------------ known finding classes (narrow)
FINDING_CLASSIFIERS = {
}


def _runs(tids):
    """number of maximal runs of equal thread numbers"""
    return sum(1 for i, t in enumerate(tids) if i == 0 or tids[i - 1] != t)


def nontrivial_key(case, obs):
    if case['kind'] == 'conc':
        tids = [e[0] for e in obs['events']]
        if len(set(tids)) < 2:
            return None
        return json.dumps([case['mods'], case['pre'], case['threads'], tids], sort_keys=True)
    if case['kind'] == 'route':
        if not any(any(s['sent']) for s in obs['steps']):
            return None
        return json.dumps([case['mods'], case['nconn'], case['ops']], sort_keys=True)
    if not obs['steps']:
        return None
    return json.dumps(case, sort_keys=True)


def outcome_labels(case, obs):
    labs = set()
    if case['kind'] == 'conc':
        labs.add('conc')
        ev = obs['events']
        tids = [e[0] for e in ev]
        if _runs(tids) > len(set(tids)):
            labs.add('conc-preempted-inside-an-operation-sequence')
        owner = None
        for e in ev:
            if e[1] == 'acq':
                owner = e[0]
            elif e[1] == 'rel':
                owner = None
            elif e[1] in ('sd', 'set', 'pop') and owner is not None and e[0] != owner:
                labs.add('conc-close-writes-while-a-request-holds-the-lock')
            elif e[1] == 'send':
                labs.add('conc-delivered-while-threads-run')
            elif e[1] == 'bad':
                labs.add('conc-unmodelled-operation')
        snaps = {}
        for idx, e in enumerate(ev):
            if e[1] == 'snap':
                snaps[e[0]] = idx
            elif e[1] in ('set', 'pop') and any(i < idx for t, i in snaps.items() if t != e[0]):
                # a write after another thread's snapshot (its deliveries may still be going on)
                labs.add('conc-write-after-a-snapshot-of-another-thread')
        for k, th in enumerate(case['threads']):
            for r in obs['results'][k] if 'emit' in th else []:
                if r['exc']:
                    labs.add('conc-emit-raised-' + str(r['exc']))
        if obs['status'] != 'ok':
            labs.add('conc-status-' + obs['status'])
        if any(any(x) for st in obs['sweep'] for x in st['sent']):
            labs.add('conc-delivered-after-threads')
        return sorted(labs)
    if case['kind'] == 'route':
        labs.add('route')
        hid = set(case.get('hidden') or ())
        if hid:
            labs.add('node-with-internal-modules')
            got = set()          # (conn, internal module) that received a record
            for op, s in zip(case['ops'], obs['steps']):
                if op[0] == 'emit' and op[1] in hid:
                    got.update((c, op[1]) for c, x in enumerate(s['sent']) if x)
                elif op[0] in ('idn', 'disc') and any(c == op[1] for c, _ in got):
                    labs.add('stop-of-a-connection-subscribed-to-an-internal-module')
                    got = {(c, m) for c, m in got if c != op[1]}
                elif op[0] == 'log' and op[2] in (None, '', '.') and s['exc'] is None and any(c == op[1] for c, _ in got):
                    labs.add('request-for-all-modules-by-a-connection-subscribed-to-an-internal-module')
        acted = {}          # connection -> kinds of activation requests it has sent so far
        for op, s in zip(case['ops'], obs['steps']):
            if op[0] in ('act', 'deact'):
                labs.add('activation-request' + ('-rejected' if s['exc'] else '-accepted'))
                acted.setdefault(op[1], set()).add(('plain-' if not op[2] else '') + ('activate' if op[0] == 'act' else 'deactivate'))
            elif op[0] == 'emit':
                for c, x in enumerate(s['sent']):
                    for k in acted.get(c, ()) if x else ():
                        labs.add('delivered-after-' + k)
        for op, s in zip(case['ops'], obs['steps']):
            if s['exc']:
                labs.add(f'{op[0]}-raised-{s["exc"]}')
            if any(s['sent']):
                labs.add('delivered')
                if sum(1 for x in s['sent'] if x) > 1:
                    labs.add('delivered-to-several')
            elif op[0] == 'emit':
                labs.add('filtered')
    else:
        labs.add('rot')
        labs.add('retention-0' if case['max_days'] == 0 else 'retention-n')
        for s in obs['steps']:
            if s['exc']:
                labs.add(f'rollover-raised-{s["exc"]}')
        if any(k == 'd' for _, k in case['entries']):
            labs.add('with-subdir')
    return sorted(labs)


def sample_repr(case, obs):
    if case['kind'] == 'conc':
        return {'case': dict(case, sweep='<every module x every named level>'), 'status': obs['status'],
                'events': obs['events'][:40], 'table_after_threads': obs['table']}
    if case['kind'] == 'route':
        return {'case': case, 'per_op': [[s['exc'], s['sent']] for s in obs['steps']][:8]}
    return {'case': case, 'listing0': [e[0] for e in obs['listing0']],
            'after': [[s['exc'], [e[0] for e in s['listing']]] for s in obs['steps']][:3]}


# ------------------------------------------------------------------ generators
VALID = ['debug', 'comlog', 'info', 'warning', 'error', 'off']
LEVEL_POOL = (VALID * 12 + ['DEBUG', 'Info', 'OFF', 'Comlog', 'WARNING', 'eRRor']
              + ['foo', '', 'critical', 'warn', 'fatal', 'débug', 'inf', 'of', 'off ', '99', '10']
              + [10, 15, 20, 30, 40, 99, 0, 1, 25, 50, -1, 100]
              + [20.0, 99.0, 15.5, None, True, False, [10], {'a': 1}, ['debug']])
EMIT_LEVELS = [10, 15, 20, 30, 40] * 4 + [50, 25, 5, 45]
MOD_POOL = ['m0', 'm1', 'mod', 'Com', 'x']
SWEEP = [10, 15, 20, 30, 40]


def sweep(mods):
    return [['emit', m, lv] for m in mods for lv in SWEEP]


def rand_route(rng):
    mods = rng.sample(MOD_POOL, rng.randint(1, 3))
    nconn = rng.randint(1, 3)
    good_specs = mods * 3 + ['', '.', None, '.', '']
    bad_specs = ['nomod', '..', ' ', mods[0] + ':value', mods[0].upper() + 'Z']
    ops = []
    for _ in range(rng.randint(3, 14)):
        r = rng.random()
        c = rng.randrange(nconn)
        if r < 0.42:
            ops.append(['log', c, rng.choice(bad_specs if rng.random() < 0.07 else good_specs), rng.choice(LEVEL_POOL)])
        elif r < 0.82:
            ops.append(['emit', rng.choice(mods), rng.choice(EMIT_LEVELS)])
        elif r < 0.89:
            ops.append(['idn', c])
        elif r < 0.94:
            ops.append(['disc', c])
        else:
            ops.append(act_op(rng, c, mods))
    case = {'kind': 'route', 'mods': mods, 'nconn': nconn, 'ops': ops + sweep(mods)}
    if rng.random() < 0.4:
        # internal modules (export=False) next to exported ones: any non-empty subset, sometimes every module
        case['hidden'] = sorted(rng.sample(mods, rng.randint(1, len(mods))))
    return case


def act_op(rng, c, mods, accepted_only=False):
    """an activate / deactivate request of connection c: without specifier (None, ''), for a module, and (unless
    accepted_only) for module:parameter (no such parameter), an unknown module, with data (rejected)"""
    kind = rng.choice(['act', 'deact', 'deact'])
    specs = [None, None, '', rng.choice(mods)]
    if not accepted_only or kind == 'deact':
        specs += [rng.choice(mods) + ':value', 'nomod', 'nomod:status']
    op = [kind, c, rng.choice(specs)]
    if not accepted_only and rng.random() < 0.06:
        op.append(rng.choice([1, 'x', [0]]))
    return op


def rand_activation(rng):
    """connections enable logging (by name, all at once; internal modules among them), then send activate / deactivate
    requests (with and without specifier, accepted and rejected) -- records of every module in between and afterwards (the
    probe sweep) must keep arriving; sometimes a real stop (logging off, *IDN?, disconnect) of one connection follows"""
    mods = rng.sample(MOD_POOL, rng.randint(1, 3))
    nconn = rng.randint(1, 3)
    ops = []
    for _ in range(rng.randint(1, 4)):
        ops.append(['log', rng.randrange(nconn), rng.choice(mods * 2 + ['.', '', None]),
                    rng.choice(['debug', 'comlog', 'info', 'warning', 'error', 'Info', 10, 30.0])])
    for _ in range(rng.randint(1, 4)):
        ops.append(act_op(rng, rng.randrange(nconn), mods))
        if rng.random() < 0.5:
            ops.append(['emit', rng.choice(mods), rng.choice(EMIT_LEVELS)])
    if rng.random() < 0.3:
        c = rng.randrange(nconn)
        ops.append(rng.choice([['log', c, '.', 'off'], ['log', c, rng.choice(mods), 'off'], ['idn', c], ['disc', c]]))
        if rng.random() < 0.5:
            ops.append(act_op(rng, rng.randrange(nconn), mods))
    case = {'kind': 'route', 'mods': mods, 'nconn': nconn, 'ops': ops + sweep(mods)}
    if rng.random() < 0.3:
        case['hidden'] = sorted(rng.sample(mods, rng.randint(1, len(mods))))
    return case


def rand_stop_internal(rng):
    """a connection enables modules by name (internal ones among them) or all at once, then stops: `logging . off` (any
    spelling of the specifier and of off), *IDN? or disconnect; other connections keep their own subscriptions; records of
    every module before and after"""
    mods = rng.sample(MOD_POOL, rng.randint(1, 3))
    hidden = sorted(rng.sample(mods, rng.randint(1, len(mods))))
    nconn = rng.randint(1, 3)
    ops = []
    for _ in range(rng.randint(1, 4)):
        c = rng.randrange(nconn)
        spec = rng.choice(hidden * 3 + mods + ['.', ''])
        ops.append(['log', c, spec, rng.choice(['debug', 'comlog', 'info', 'warning', 'error', 'Debug', 10, 20.0])])
        if rng.random() < 0.3:
            ops.append(['emit', rng.choice(mods), rng.choice(EMIT_LEVELS)])
    for _ in range(rng.randint(1, 2)):
        c = rng.randrange(nconn)
        r = rng.random()
        if r < 0.4:
            ops.append(['log', c, rng.choice(['.', '.', '', None]), rng.choice(['off', 'off', 'OFF', 'Off', 99, 99.0])])
        elif r < 0.7:
            ops.append(['idn', c])
        else:
            ops.append(['disc', c])
        if rng.random() < 0.5:
            ops.append(['emit', rng.choice(hidden), rng.choice(EMIT_LEVELS)])
    return {'kind': 'route', 'mods': mods, 'hidden': hidden, 'nconn': nconn, 'ops': ops + sweep(mods)}


def exhaustive_route(depth, hidden=None):
    mods = ['m0', 'm1']
    alpha = [['log', 0, 'm0', 'debug'], ['log', 0, '.', 'warning'], ['log', 0, 'm0', 'off'], ['log', 0, '', 'off'],
             ['log', 1, 'm0', 'info'], ['log', 1, 'm1', 'comlog'], ['log', 1, '.', 'bad'], ['log', 0, 'm1', 40],
             ['idn', 0], ['disc', 1], ['emit', 'm0', 20], ['emit', 'm1', 50], ['deact', 0, None], ['act', 0, '']]
    for ops in itertools.product(alpha, repeat=depth):
        case = {'kind': 'route', 'mods': mods, 'nconn': 2, 'ops': [list(o) for o in ops] + sweep(mods)}
        if hidden:
            case['hidden'] = list(hidden)
        yield case


def day(i):
    """i-th day counted from 2023-12-25 (month lengths do not matter for the order of the strings)"""
    y, r = divmod(i + 358, 372)
    m, d = divmod(r, 31)
    return f'{2023 + y:04d}-{m + 1:02d}-{d + 1:02d}'


FOREIGN = [['comlog', 'd'], ['zz', 'f'], ['aaa.txt', 'f'], ['other-2024-01-01.log', 'f'], ['zsub', 'd'],
           ['été.log', 'f'], ['Current', 'f'], ['current.bak', 'f']]
# entries carrying the name of an old log file of the handler which are not regular files
DISGUISED = [['{root}-2000-01-01.log', 'd'], ['{root}-2000-01-02.log', 'l']]


def rand_rot(rng):
    root = rng.choice(['frappy', 'frappy', 'node', 'a'])
    n = rng.choice([0, 1, 1, 2, 2, 3, 3, 4, 5, 7, 10])
    today = rng.randint(10, 40)
    k = rng.randint(0, 9)
    days = sorted(rng.sample(range(0, today), min(k, today)))
    entries = [[f'{root}-{day(i)}.log', 'f'] for i in days]
    if rng.random() < 0.3:
        entries.append([f'{root}-{day(today)}.log', 'f'])          # restart on the same day: the file exists
    if rng.random() < 0.5:
        entries.append(['current', 'l'])
    r = rng.random()
    if r < 0.45:
        for e in rng.sample(FOREIGN, rng.randint(1, 3)):
            entries.append(list(e))
        if rng.random() < 0.3:
            entries.append([f'{root}-{day(rng.randint(0, today))}.log.1', 'f'])
        if rng.random() < 0.15:
            entries.append([f'{root}-{day(today + rng.randint(20, 30))}.log', 'f'])   # dated in the future
        if rng.random() < 0.15:
            e = rng.choice(DISGUISED)
            entries.append([e[0].format(root=root), e[1]])
    seen = set()
    entries = [e for e in entries if not (e[0] in seen or seen.add(e[0]))]
    rng.shuffle(entries)
    dates = []
    cur = today
    for _ in range(rng.randint(1, 5)):
        x = rng.random()
        cur += 0 if x < 0.1 else 1 if x < 0.75 else rng.randint(2, 9)
        dates.append(day(cur))
    return {'kind': 'rot', 'root': root, 'max_days': n, 'entries': entries, 'date0': day(today), 'dates': dates}


def exhaustive_rot():
    """every subset of 4 earlier days x small foreign sets x retention 0..5, two rollovers"""
    for mask in range(16):
        days = [i for i in range(4) if mask >> i & 1]
        for foreign in ([], [['comlog', 'd']], [['zz', 'f']], [['aaa.txt', 'f'], ['zsub', 'd']]):
            for n in range(6):
                yield {'kind': 'rot', 'root': 'frappy', 'max_days': n,
                       'entries': [[f'frappy-{day(i)}.log', 'f'] for i in days] + [list(e) for e in foreign],
                       'date0': day(4), 'dates': [day(5), day(6)]}


# ---- concurrent layer: threads x interleavings
# records below DEBUG never reach the handler (level of the root logger, as set by MainLogger.init): not emitted by module threads
CONC_EMIT = [lv for lv in EMIT_LEVELS if lv >= 10]
CONC_LEVELS = VALID * 6 + ['DEBUG', 'Off', 'foo', '', 10, 20, 99, 25, 30.0, None, [10]]


def rand_order(rng, nthreads, n):
    stick = rng.choice([0.0, 0.3, 0.6, 0.8])
    cur = rng.randrange(nthreads)
    order = []
    for _ in range(n):
        if rng.random() >= stick:
            cur = rng.randrange(nthreads)
        order.append(cur)
    return order


def rand_conc(rng):
    mods = rng.sample(MOD_POOL, rng.choice([1, 1, 2, 2, 3]))
    nconn = rng.randint(2, 3)
    specs = mods * 3 + ['', '.', None]

    def log_op(c):
        spec = 'nomod' if rng.random() < 0.04 else rng.choice(specs)
        return ['log', c, spec, rng.choice(CONC_LEVELS)]

    pre = [log_op(rng.randrange(nconn)) for _ in range(rng.randint(0, 4))]
    arng = random.Random(rng.random())        # own stream for the activation requests
    if arng.random() < 0.15:
        pre.insert(arng.randint(0, len(pre)), act_op(arng, arng.randrange(nconn), mods))
    threads = []
    for c in rng.sample(range(nconn), rng.randint(2, nconn)):
        ops = []
        for _ in range(rng.randint(1, 3)):
            r = rng.random()
            ops.append(log_op(c) if r < 0.6 else ['idn', c] if r < 0.68 else ['disc', c])
        if arng.random() < 0.15:
            # an accepted activate / deactivate of this connection somewhere in its thread (lock taken and released, the
            # log subscriptions are not touched)
            ops.insert(arng.randint(0, len(ops)), act_op(arng, c, mods, accepted_only=True))
        threads.append({'conn': c, 'ops': ops})
    for _ in range(rng.choice([0, 0, 1, 1, 2])):
        threads.append({'emit': [[rng.choice(mods), rng.choice(CONC_EMIT)] for _ in range(rng.randint(1, 2))]})
    rng.shuffle(threads)
    return {'kind': 'conc', 'mods': mods, 'nconn': nconn, 'pre': pre, 'threads': threads,
            'sched': {'order': rand_order(rng, len(threads), 90)}, 'sweep': sweep(mods)}


def perms(counts):
    """all sequences containing counts[i] times the number i"""
    if not any(counts):
        yield []
        return
    for i, n in enumerate(counts):
        if n:
            rest = list(counts)
            rest[i] -= 1
            for p in perms(rest):
                yield [i] + p


# scenario templates: (modules, connections, pre, threads, steps of every thread on the real code)
def templates():
    # connection 0 closes while connection 1 enables the module connection 0 had enabled (the classic lost update)
    yield (['m0'], 2, [['log', 0, 'm0', 'debug']],
           [{'conn': 0, 'ops': [['disc', 0]]}, {'conn': 1, 'ops': [['log', 1, 'm0', 'info']]}], [4, 5])
    # connection 1 switches off while connection 0 re-identifies
    yield (['m0'], 2, [['log', 0, 'm0', 'debug'], ['log', 1, 'm0', 'info']],
           [{'conn': 0, 'ops': [['disc', 0]]}, {'conn': 1, 'ops': [['log', 1, 'm0', 'off']]}], [4, 5])
    # a record is being handled (lookup, snapshot, two deliveries) while a connection closes
    yield (['m0'], 2, [['log', 0, 'm0', 'debug'], ['log', 1, 'm0', 'info']],
           [{'conn': 0, 'ops': [['disc', 0]]}, {'emit': [['m0', 20]]}], [4, 5])
    # ... while a third connection subscribes (the dict grows during the emission)
    yield (['m0'], 3, [['log', 0, 'm0', 'debug'], ['log', 1, 'm0', 'info']],
           [{'conn': 2, 'ops': [['log', 2, 'm0', 'debug']]}, {'emit': [['m0', 20]]}], [5, 5])


def template_cases(full):
    for mods, nconn, pre, threads, counts in templates():
        for order in perms(counts):
            yield {'kind': 'conc', 'mods': mods, 'nconn': nconn, 'pre': pre, 'threads': threads,
                   'sched': {'order': order}, 'sweep': sweep(mods)}
    if full:
        # two modules, all modules addressed: every interleaving of close and request
        mods = ['m0', 'm1']
        pre = [['log', 0, '.', 'debug']]
        threads = [{'conn': 0, 'ops': [['disc', 0]]}, {'conn': 1, 'ops': [['log', 1, '.', 'warning']]}]
        for order in perms([6, 7]):
            yield {'kind': 'conc', 'mods': mods, 'nconn': 2, 'pre': pre, 'threads': threads,
                   'sched': {'order': order}, 'sweep': sweep(mods)}


def gen_cases(seed, tier):
    rng = random.Random(seed * 1000003 + 20)
    n_route, n_rot = {'quick': (2500, 1200), 'thorough': (20000, 8000), 'search': (20000, 8000)}[tier]
    n_conc = {'quick': 400, 'thorough': 6000, 'search': 6000}[tier]
    crng = random.Random(seed * 7001 + 2020)
    cases = [rand_conc(crng) for _ in range(n_conc)]
    cases += list(template_cases(tier != 'quick'))
    cases += [rand_route(rng) for _ in range(n_route)]
    cases += [rand_rot(rng) for _ in range(n_rot)]
    hrng = random.Random(seed * 9176 + 206)          # own stream: the other generators draw what they drew before
    cases += [rand_stop_internal(hrng) for _ in range({'quick': 300}.get(tier, 3000))]
    arng = random.Random(seed * 5501 + 208)
    cases += [rand_activation(arng) for _ in range({'quick': 300}.get(tier, 3000))]
    depths = (1, 2) if tier == 'quick' else (1, 2, 3, 4)
    for d in depths:
        cases.extend(exhaustive_route(d))
    # the same alphabet on a node whose module m1 is internal (the alphabet enables m1 by name, switches all off,
    # re-identifies, disconnects)
    for d in (1, 2) if tier == 'quick' else (1, 2, 3):
        cases.extend(exhaustive_route(d, hidden=['m1']))
    cases.extend(exhaustive_rot())
    return cases


def shrink_conc(case):
    ths = case['threads']
    if len(ths) > 1:
        for i in range(len(ths) - 1, -1, -1):
            # drop thread i: the schedule entries keep naming the same threads
            order = [x - (x > i) for x in case['sched'].get('order', []) if x != i]
            yield dict(case, threads=ths[:i] + ths[i + 1:], sched={'order': order})
    for i, th in enumerate(ths):
        key = 'ops' if 'conn' in th else 'emit'
        if len(th[key]) > 1:
            for j in range(len(th[key]) - 1, -1, -1):
                yield dict(case, threads=ths[:i] + [dict(th, **{key: th[key][:j] + th[key][j + 1:]})] + ths[i + 1:])
    for i in range(len(case['pre']) - 1, -1, -1):
        yield dict(case, pre=case['pre'][:i] + case['pre'][i + 1:])
    used = set()
    for o in case['pre'] + [o for th in ths for o in th.get('ops', [])]:
        if o[0] == 'log':
            used.add(o[2])
    for th in ths:
        used.update(m for m, _ in th.get('emit', []))
    if not used & {None, '', '.'}:
        for m in case['mods'][1:] if case['mods'][0] in used else case['mods'][:1]:
            if m not in used and len(case['mods']) > 1:
                mods = [x for x in case['mods'] if x != m]
                yield dict(case, mods=mods, sweep=sweep(mods))
    order = case['sched'].get('order', [])
    if order:
        yield dict(case, sched={'order': order[:len(order) // 2]})
        yield dict(case, sched={'order': order[:-1]})
        for i in range(min(len(order), 24) - 1, -1, -1):
            yield dict(case, sched={'order': order[:i] + order[i + 1:]})


def shrink(case):
    if case['kind'] == 'conc':
        yield from shrink_conc(case)
        return
    if case['kind'] == 'route':
        ops = case['ops']
        for i in range(len(ops) - 1, -1, -1):
            yield dict(case, ops=ops[:i] + ops[i + 1:])
        if case['nconn'] > 1 and all(o[0] == 'emit' or o[1] < case['nconn'] - 1 for o in ops):
            yield dict(case, nconn=case['nconn'] - 1)
        hid = list(case.get('hidden') or [])
        for m in case['mods'][1:]:
            if all(not (o[0] == 'emit' and o[1] == m) and not (o[0] == 'log' and o[2] == m)
                   and not (o[0] in ('act', 'deact') and isinstance(o[2], str) and o[2].split(':')[0] == m) for o in ops):
                small = dict(case, mods=[x for x in case['mods'] if x != m])
                if hid:
                    small['hidden'] = [x for x in hid if x != m]
                yield small
        for m in hid:
            # an exported module instead of an internal one
            yield dict(case, hidden=[x for x in hid if x != m])
    else:
        if len(case['dates']) > 1:
            yield dict(case, dates=case['dates'][:-1])
            yield dict(case, dates=case['dates'][1:])
        ent = case['entries']
        for i in range(len(ent) - 1, -1, -1):
            yield dict(case, entries=ent[:i] + ent[i + 1:])
        if case['max_days'] > 1:
            yield dict(case, max_days=case['max_days'] - 1)
