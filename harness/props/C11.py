"""C11 — SecopClient request/reply matching under all interleavings: implementation driver (real threads under
harness/dsched.py with a scripted fake connection), case encoder, direct oracle, generators"""
import json
import random

from harness import gal

ID = 'C11'
MODEL_TARGETS = ['theories/C11/Run.vo']
PROOF_TARGETS = ['theories/C11/Properties.vo']
PROPERTIES_V = 'theories/C11/Properties.v'
IMPORTS = 'Require Import FV.Gen.C11 FV.C11.Model FV.C11.Run.'
CASE_TYPE = 'case'
CHECK = 'check_case'
SHARD_SIZE = 150
RULE = ('one real SecopClient (rx/tx threads, fake AsynConn subclass) with 2..4 caller threads calling request() '
        '(equal and distinct keys, known and unknown actions), optionally a user thread calling disconnect(), a peer '
        'script (reply to the j-th outstanding request ok/error, update, idle, close, late reply to a request whose '
        'caller already timed out; with virtual delays), optional start delays of the callers (time-out scenarios: '
        'the first caller of a key times out after 10 virtual s while the peer is silent / sends only updates, its '
        'late reply arrives, a parked equal-key request is transmitted and answered) and a thread '
        'schedule at synchronisation-point granularity (seeded random, sticky random, bounded-preemption, explicit); '
        'every run is a real multi-thread execution under the deterministic scheduler and is replayable from its '
        'decision list; non-trivial = at least one request was transmitted or a disconnect ran; distinct = distinct '
        '(requests, executed step sequence)')
ASSUMPTIONS = [
    'granularity: threads are interleaved at synchronisation points (Queue put/get/empty, Event set/wait, Lock acquire, '
    'Thread.join, connection send/recv); preemption between two bytecodes of a region without such a point is not explored',
    'every request() call passes its connect() check while the connection is up (a call on a closed client reconnects; '
    'reconnection and activate=True auto-reconnect are not modelled: client.activate=False)',
    'peer: answers only requests it received, each at most once, with the reply action of the SECoP table (or error_<action>); '
    'updates only for described parameters; one line per recv',
    'late replies: the answer to a request whose caller already timed out is scripted only while the timed-out entry is '
    'still registered in active_requests (before the rx thread has treated its cleanup list); a later one is '
    'indistinguishable on the wire from the answer to a newer request with the same action+specifier (SECoP has no '
    'request ids) and is not explored',
    'callers with a start delay exist only in scenarios without connection loss / user disconnect (a request() on a '
    'closed client would reconnect, which is not modelled)',
    'idle heartbeat (ping after 5 idle seconds) is not modelled: peer scripts never contain 5 consecutive idle seconds',
    'queues never reach their bound of 30 (at most 4 callers)',
]

ACTIONS = ['read', 'change', 'do', 'ping', 'foo', 'bar']     # foo, bar: unknown (experimental) actions
IDENTS = ['m:p', 'm:q']
TIMEOUT = 10.0
STEP_COST = 0.002     # virtual seconds per executed step
PROMPT = 2.0          # "released promptly": virtual seconds granted after the connection was lost / shut down


# ------------------------------------------------------------------ implementation driver
def _policy(spec):
    from harness import dsched
    k = spec['kind']
    if k == 'seed':
        return dsched.Seeded(spec['seed'], spec.get('stick', 0.0))
    if k == 'explicit':
        return dsched.Explicit(spec['decisions'])
    if k == 'preempt':
        return dsched.Preempt(spec['points'])
    raise ValueError(k)


def run_case(case):
    import frappy.client as fc
    from frappy.lib.asynconn import AsynConn, ConnectionClosed
    from frappy.datatypes import FloatRange
    from harness import dsched

    # STEP_COST: a busy exchange between rx and tx (parked requests re-queued while their key is busy) must not
    # stop the virtual clock
    s = dsched.Scheduler(_policy(case['sched']), max_steps=12000, step_cost=STEP_COST)
    reqs = case['reqs']
    n = len(reqs)
    script = case['peer']
    st = {'pos': 0, 'local_closed': False, 'peer_closed': False, 'lost_at': None}
    outstanding = []         # [tok, action, ident, sent_at]
    sends = []               # [tok, virtual time]
    answers = []             # [tok, ok, virtual time, late]   late: the caller had already timed out
    unhandled = []           # [action, ident, tok, virtual time]  messages the client reported as unhandled
    done = [False] * n
    delays = list(case.get('delays') or []) + [0.0] * n
    box = {}

    def registered(i):
        c = box.get('client')
        return c is not None and any(e[1].name == f'ev_c{i}' for e in list(c.active_requests.values()))

    class FakeConn(AsynConn):
        """scripted connection; recv/send are synchronisation points.  The line buffering of the real
        AsynConn.readline is used."""
        def __new__(cls, *a, **k):
            return object.__new__(cls)

        def shutdown(self):
            st['local_closed'] = True

        def disconnect(self):
            st['local_closed'] = True

        def send(self, data):
            s.switch('send')
            if st['local_closed']:
                raise BrokenPipeError('send on closed connection')
            parts = data.decode('utf-8').strip().split(' ', 2)
            tok = json.loads(parts[2]) if len(parts) > 2 else -1
            sends.append([tok, s.now])
            if not st['peer_closed']:
                outstanding.append([tok, parts[0], parts[1] if len(parts) > 1 else ''])

        def recv(self):
            d = script[st['pos']] if st['pos'] < len(script) else ['U', 1.0]
            delay = 1.0 if d[0] == 'I' else float(d[-1]) if d[0] in 'RUEL' else 0.0
            s.block('recv', lambda: st['local_closed'], delay)
            if st['local_closed']:
                s.annotate(peer=['X'])
                raise ConnectionClosed()
            st['pos'] += 1
            if d[0] == 'X':
                st['peer_closed'] = True
                st['lost_at'] = s.now
                s.annotate(peer=['X'])
                raise ConnectionClosed()
            if d[0] == 'I':
                s.annotate(peer=['I'])
                return b''
            if d[0] in 'RL':
                if d[0] == 'R':
                    live = [o for o in outstanding if o[0] >= 0 and not done[o[0]]]
                else:    # late reply: the caller timed out, its entry is still in the table (see ASSUMPTIONS)
                    live = [o for o in outstanding if o[0] >= 0 and done[o[0]] and registered(o[0])]
                if live:
                    o = live[d[1] % len(live)]
                    outstanding.remove(o)
                    tok, action, ident = o
                    ok = bool(d[2])
                    answers.append([tok, ok, s.now, d[0] == 'L'])
                    s.annotate(peer=['R', tok, ok])
                    if ok:
                        ra = fc.REQUEST2REPLY.get(action, action + '_r')
                        return f'{ra} {ident} [{float(tok)}, {{}}]\n'.encode()
                    return f'error_{action} {ident} ["BadValue", "tok{tok}", {{}}]\n'.encode()
            s.annotate(peer=['U'])
            if d[0] == 'E':    # an asynchronous error update: like an update it answers no request
                return b'error_update m:p ["HardwareError", "sensor broken", {}]\n'
            return b'update m:p [1.5, {}]\n'

    def event_factory():
        e = s.Event()
        cur = s.current_thread()
        if cur is not None:
            e.name = 'ev_' + cur.name
        return e

    saved = {k: getattr(fc, k) for k in ('Event', 'RLock', 'queue', 'time', 'mkthread', 'current_thread')}
    client = None
    try:
        fc.Event = event_factory
        fc.RLock = s.RLock
        fc.queue = s.queue_module
        fc.time = s.time_module
        fc.mkthread = s.mkthread
        fc.current_thread = s.current_thread
        client = box['client'] = fc.SecopClient('fake://peer', log=None)
        client.activate = False

        def on_unhandled(action, ident, data):
            try:
                tok = int(data[0]) if isinstance(data[0], float) else int(str(data[1])[3:])
            except Exception:
                tok = -1
            unhandled.append([action, ident, tok, s.now])
        client.register_callback(None, unhandledMessage=on_unhandled)
        client.txq.name, client.pending.name = 'txq', 'pending'
        txq_dropped = []         # events of the entries removed by the non-blocking get of disconnect()
        orig_get = client.txq.get

        def txq_get(block=True, timeout=None):
            item = orig_get(block, timeout)
            if not block and item is not None:
                txq_dropped.append(item[1].name)
            return item
        client.txq.get = txq_get
        client._lock.name, client._shutdown.name = 'lock', 'shutdown'
        # the state connect() leaves behind (describe/activate exchange is not part of this property)
        conn = FakeConn('fake://peer')
        client.io = conn
        client._running = True
        client.internal = {'m:p': ('m', 'p')}
        client.identifier = {('m', 'p'): 'm:p'}
        client.modules = {'m': {'parameters': {'p': {'datatype': FloatRange()}}, 'commands': {}, 'accessibles': {},
                                'properties': {}}}
        client.online, client.state = True, 'connected'

        outcomes = [None] * n
        waited = [None] * n
        finished_at = [None] * n
        started_at = [None] * n
        where = [None] * n
        user = {'res': None, 'called_at': None, 'returned_at': None}

        def locate(i):
            name = f'ev_c{i}'

            def has(entries):
                return any(e is not None and e[1].name == name for e in entries)
            if has(client.txq.items):
                return 'txq'
            if has(client.pending.items):
                return 'pending'
            if has(list(client.active_requests.values())):
                return 'active'
            if name in txq_dropped:
                return 'txq-dropped'
            return 'sent-gone' if any(t == i for t, _ in sends) else 'vanished'

        def caller(i):
            action, ident = reqs[i]
            if delays[i] > 0:
                s.block('delay', lambda: False, delays[i])
            started_at[i] = s.now
            try:
                r = client.request(action, ident, i)
                outcomes[i] = ['reply', int(r[2][0]), r[0], r[1]]
            except fc.SECoPError as e:
                txt = str(e)
                outcomes[i] = ['error', int(txt[3:]) if txt.startswith('tok') else -1]
            except TimeoutError:
                outcomes[i] = ['timeout']
                where[i] = locate(i)
            except ConnectionError:
                outcomes[i] = ['connerr']
            except Exception as e:
                outcomes[i] = ['other', type(e).__name__]
            done[i] = True
            finished_at[i] = s.now
            waited[i] = s.now - started_at[i]

        def user_fn():
            user['called_at'] = s.now
            try:
                client.disconnect()
                user['res'] = 'ok'
            except Exception as e:
                user['res'] = type(e).__name__
            user['returned_at'] = s.now

        workers = {}

        def main():
            cs = [s.spawn(caller, f'c{i}', i) for i in range(n)]
            # all callers pass connect() while the connection is up (see ASSUMPTIONS)
            s.wait_until(lambda: all(s.parked_label(t) not in ('start', 'acquire:lock') for t in cs))
            workers['tx'] = client._txthread = s.spawn(client._SecopClient__txthread, 'tx')
            workers['rx'] = client._rxthread = s.spawn(client._SecopClient__rxthread, 'rx')
            u = s.spawn(user_fn, 'user') if case.get('user') else None
            for t in cs:
                t.join()
            if u:
                u.join()
            if u or any(d[0] == 'X' for d in script):
                s.wait_until(lambda: not workers['tx'].is_alive() and not workers['rx'].is_alive(), 30)

        res = s.run(main)

        def tstat(t):
            if t is None:
                return 'none'
            if t.died:
                return 'dead:' + t.error.split(':')[0]
            return 'alive' if t.name in res.alive_at_end else 'done'
        trace = [[a, b, c] for a, b, c in res.trace if a != 'main']
        return {
            'status': res.status, 'main_error': res.error, 'trace': trace, 'decisions': res.decisions,
            'outcomes': outcomes, 'waited': waited, 'started_at': started_at, 'finished_at': finished_at,
            'where': where, 'user': user, 'sends': sends, 'answers': answers, 'unhandled': unhandled,
            'lost_at': st['lost_at'],
            'tx': tstat(workers.get('tx')), 'rx': tstat(workers.get('rx')),
            'blocked_at_end': res.blocked_at_end, 'thread_errors': res.thread_errors, 'now': res.now,
        }
    finally:
        for k, v in saved.items():
            setattr(fc, k, v)
        if client is not None:   # keep __del__ quiet
            try:
                client.callbacks.clear()
                client._txthread = client._rxthread = client._connthread = None
                client.io = None
            except Exception:
                pass


# ------------------------------------------------------------------ encoding into Gallina
LABELS = {'start': 'LStart', 'put:txq': 'LPutTxq', 'get:txq': 'LGetTxq', 'empty:txq': 'LEmptyTxq',
          'put:pending': 'LPutPending', 'get:pending': 'LGetPending', 'empty:pending': 'LEmptyPending',
          'set:shutdown': 'LSetShutdown', 'join:tx': 'LJoinTx', 'join:rx': 'LJoinRx', 'send': 'LSend', 'recv': 'LRecv'}


def enc_tid(name):
    if name[0] == 'c':
        return f'(TC {gal.nat(int(name[1:]))})'
    return {'tx': 'TTx', 'rx': 'TRx', 'user': 'TUser'}[name]


def enc_label(lab):
    if lab in LABELS:
        return LABELS[lab]
    op, obj = lab.split(':')
    if obj.startswith('ev_c'):
        return f"({'LSetEv' if op == 'set' else 'LWaitEv'} {gal.nat(int(obj[4:]))})"
    raise ValueError(f'label outside the model: {lab}')


def enc_arg(info):
    p = info.get('peer')
    if p:
        if p[0] == 'R':
            return f'(APeer (PReply {gal.nat(p[1])} {gal.boolean(p[2])}))'
        return {'U': '(APeer PUpdate)', 'I': '(APeer PIdle)', 'X': '(APeer PClose)'}[p[0]]
    return 'ATimeout' if info.get('timeout') else 'ANone'


def model_steps(obs):
    """the steps the model contains: everything except the driver and the callers' connect() prelude"""
    return [(t, lab, info) for t, lab, info in obs['trace']
            if not (t[0] == 'c' and lab in ('start', 'acquire:lock', 'delay'))]


def enc_outcome(o):
    if o[0] == 'reply':
        return f'(0%nat, {gal.nat(o[1])}, {gal.string(o[2])})'
    if o[0] == 'error':
        return f'(1%nat, {gal.nat(o[1])}, [])'
    if o[0] == 'timeout':
        return '(2%nat, 0%nat, [])'
    if o[0] == 'connerr':
        return '(3%nat, 0%nat, [])'
    raise ValueError(f'outcome outside the model: {o}')


def _tcode(stat):
    return 1 if stat == 'done' else 2 if stat.startswith('dead') else 0


def encode(case, obs):
    if obs['status'] != 'ok' or obs['main_error']:
        raise ValueError(f"run did not complete: {obs['status']} {obs['main_error']}")
    steps = '; '.join(f'({enc_tid(t)}, {enc_label(lab)}, {enc_arg(info)})' for t, lab, info in model_steps(obs))
    reqs = gal.lst(case['reqs'], lambda r: f'({gal.string(r[0])}, {gal.string(r[1])})')
    ures = obs['user']['res']
    ucode = 0 if ures is None else 1 if ures == 'ok' else 2
    return ('{| c_reqs := %s; c_trace := [%s]; c_out := [%s]; c_user := %s; c_tx := %s; c_rx := %s |}' % (
        reqs, steps, '; '.join(enc_outcome(o) for o in obs['outcomes']), gal.nat(ucode),
        gal.nat(_tcode(obs['tx'])), gal.nat(_tcode(obs['rx']))))


def model_result_term(case, obs):
    return f'model_result ({encode(case, obs)})'


# ------------------------------------------------------------------ direct oracle: the property on the observation
def _reply_action(action):
    table = {'describe': 'describing', 'activate': 'active', 'deactivate': 'inactive', 'do': 'done',
             'change': 'changed', 'read': 'reply', 'ping': 'pong', 'help': 'helping', 'logging': 'logging'}
    return table.get(action, action + '_r')       # SECoP specification, not read from the code under test


def _key(req):
    return (_reply_action(req[0]) if req[0] + '_r' != _reply_action(req[0]) else None, req[1]) \
        if req[0] + '_r' != _reply_action(req[0]) else None


def oracle(case, obs):
    fails = []

    def fail(cls, what):
        fails.append({'class': cls, 'what': what})

    if obs['status'] != 'ok' or obs['main_error']:
        fail('run-' + obs['status'], f"the run did not complete: {obs['status']} {obs['main_error']} "
             f"blocked: {obs['blocked_at_end']}")
        return fails
    reqs = case['reqs']
    n = len(reqs)
    user = obs['user']
    # when was the connection lost / shut down
    lost = [t for t in (obs['lost_at'], user['called_at']) if t is not None]
    lost_at = min(lost) if lost else None
    answered = {a[0]: a for a in obs['answers']}
    sent = {}
    for tok, t in obs['sends']:
        sent.setdefault(tok, t)
    seen_tokens = {}
    for i, o in enumerate(obs['outcomes']):
        if o is None:
            fail('caller-never-returned', f'caller {i} did not return')
            continue
        kind = o[0]
        # no caller waits longer than its time-out
        # (the scheduler may run other threads before the timed-out caller: STEP_COST per step of slack)
        if obs['waited'][i] > TIMEOUT + 1e-6 + STEP_COST * len(obs['decisions']):
            fail('waited-too-long', f'caller {i} waited {obs["waited"][i]} s')
        if kind in ('reply', 'error'):
            tok = o[1]
            # exactly the reply that answers its own request
            if tok != i:
                fail('foreign-reply', f'caller {i} ({reqs[i]}) received the answer to the request of caller {tok}')
            if tok in seen_tokens:
                fail('reply-delivered-twice', f'the answer {tok} was handed to callers {seen_tokens[tok]} and {i}')
            seen_tokens[tok] = i
            if tok not in answered:
                fail('invented-reply', f'caller {i} received an answer the peer never sent')
            elif (kind == 'reply') != bool(answered[tok][1]):
                fail('foreign-reply', f'caller {i}: reply/error kind differs from what the peer sent')
            if kind == 'reply' and (o[2] != _reply_action(reqs[i][0]) or o[3] != reqs[i][1]):
                fail('foreign-reply', f'caller {i} ({reqs[i]}) received {o[2]} {o[3]}')
        elif kind == 'connerr':
            if lost_at is None:
                fail('spurious-connection-error', f'caller {i} got a connection error but the connection was never lost')
        elif kind == 'timeout':
            fin = obs['finished_at'][i]
            if i in answered and answered[i][2] < obs['started_at'][i] + TIMEOUT - 1e-6:
                fail('reply-lost', f'the peer answered caller {i} in time but the caller timed out')
            elif lost_at is not None and fin > lost_at + PROMPT:
                # connection lost / shut down: every waiting caller is released promptly with a connection error
                fail('not-released', f'caller {i} ({obs["where"][i]}) was not released when the connection went down at '
                     f'{lost_at}: it timed out at {fin}')
            elif lost_at is None and i not in sent:
                # the connection stayed up, the peer answers what it gets, but the request was never transmitted
                # although its key was free for at least PROMPT seconds before the deadline
                busy_until = obs['started_at'][i]
                for j in range(n):
                    if j != i and _key(reqs[j]) == _key(reqs[i]) and j in sent:
                        if j in answered:
                            end = answered[j][2]
                        elif sent[j] >= obs['finished_at'][j]:
                            # transmitted after its own caller had timed out (it was parked meanwhile) and never
                            # answered by the scripted peer: the key stays taken
                            end = obs['now']
                        else:
                            end = obs['finished_at'][j]
                        busy_until = max(busy_until, end)
                if busy_until < fin - PROMPT:
                    fail('request-never-sent', f'caller {i} ({obs["where"][i]}) timed out at {fin}; its request was never '
                         f'transmitted although the connection was up and its key free since {busy_until}')
        else:
            fail('caller-unexpected-exception', f'caller {i} got {o}')
    # a reply the peer sent to a caller that was still waiting must be matched to its request: the client must not
    # report it as an unhandled message (late replies, sent after the caller's time-out, are exempt)
    for action, ident, tok, t in obs.get('unhandled', []):
        a = answered.get(tok)
        if a is not None and not (len(a) > 3 and a[3]) and 0 <= tok < n:
            fail('reply-unhandled', f'the answer "{action} {ident}" of the peer to the outstanding request of caller '
                 f'{tok} ({reqs[tok]}, still waiting at {t}) was reported as unhandled message; the caller ended '
                 f'with {obs["outcomes"][tok]}')
    if case.get('user'):
        if user['res'] is None:
            fail('disconnect-never-returned', 'disconnect() did not return')
        elif user['res'] != 'ok':
            fail('disconnect-raised', f'disconnect() raised {user["res"]}')
        for w in ('tx', 'rx'):
            if obs[w] == 'alive' and user['res'] == 'ok':
                fail('worker-still-running', f'{w} thread still running 30 s after disconnect() '
                     f'(parked at {obs["blocked_at_end"].get(w)})')
    return fails


FINDING_CLASSIFIERS = {
    # a request that sits in txq when disconnect() empties it (or is put there afterwards) is dropped without its
    # event being set
    'txq_entry_lost': lambda case, obs, f: f['class'] == 'not-released' and
    any(f['what'].startswith(f'caller {i} ({w})') for i, w in enumerate(obs['where']) if w in ('txq', 'txq-dropped')),
    # parked in `pending` with nothing left to re-queue it
    'parked_in_pending': lambda case, obs, f: f['class'] == 'request-never-sent' and
    any(f['what'].startswith(f'caller {i} (pending)') for i, w in enumerate(obs['where']) if w == 'pending'),
    # self._txthread became None between `if self._txthread:` and `self._txthread.join()`
    'txthread_join_race': lambda case, obs, f: f['class'] == 'disconnect-raised' and obs['user']['res'] == 'AttributeError'
    and any(t == 'user' and lab == 'put:txq' for t, lab, _ in obs['trace'])
    and not any(t == 'user' and lab == 'join:tx' for t, lab, _ in obs['trace']),
}


def nontrivial_key(case, obs):
    if obs['status'] != 'ok' or not (obs['sends'] or case.get('user')):
        return None
    return repr((case['reqs'], [(t, l) for t, l, _ in obs['trace']]))


def outcome_labels(case, obs):
    labs = set()
    for o in obs['outcomes']:
        labs.add('caller:' + (o[0] if o else 'none'))
    labs.add('user:' + str(obs['user']['res']))
    labs.add('tx:' + obs['tx'].split(':')[0])
    labs.add('rx:' + obs['rx'].split(':')[0])
    if any(lab == 'put:pending' for _, lab, _ in obs['trace']):
        labs.add('collision-parked')
    if any(w == 'pending' for w in obs['where']):
        labs.add('timed-out-in-pending')
    if any(w in ('txq', 'txq-dropped') for w in obs['where']):
        labs.add('timed-out-lost-in-txq')
    if any(len(a) > 3 and a[3] for a in obs['answers']):
        labs.add('late-reply-after-timeout')
        late = {a[0] for a in obs['answers'] if len(a) > 3 and a[3]}
        for i, o in enumerate(obs['outcomes']):
            # an equal-key request transmitted after the late reply and answered
            if o and o[0] in ('reply', 'error') and any(_key(case['reqs'][j]) == _key(case['reqs'][i]) for j in late):
                labs.add('key-reused-after-late-reply')
    if obs.get('unhandled'):
        labs.add('unhandled-message')
    return sorted(labs)


def sample_repr(case, obs):
    return {'case': case, 'outcomes': obs['outcomes'], 'user': obs['user']['res'],
            'steps': [f'{t}:{lab}' for t, lab, _ in obs['trace']][:60]}


def extra_evidence(cases, obs):
    ok = [o for o in obs if '__harness_error__' not in o]
    return {'schedule_steps_total': sum(len(o['trace']) for o in ok),
            'max_steps_in_a_run': max((len(o['trace']) for o in ok), default=0)}


# ------------------------------------------------------------------ generators
def rand_reqs(rng):
    n = rng.choice([2, 2, 3, 3, 4])
    mode = rng.random()
    if mode < 0.35:      # all equal keys
        r = [rng.choice(ACTIONS), rng.choice(IDENTS)]
        return [list(r) for _ in range(n)]
    if mode < 0.5:       # several unknown actions (all share the key None)
        return [[rng.choice(['foo', 'bar']), rng.choice(IDENTS)] for _ in range(n)]
    return [[rng.choice(ACTIONS), rng.choice(IDENTS)] for _ in range(n)]


def rand_peer(rng, n, user):
    style = rng.random()
    script = []
    idle_run = 0

    def delay():
        return rng.choice([0.0, 0.0, 0.25, 0.5, 1.0])
    if style < 0.15:       # a peer that only sends updates for a long time (time-outs, parked requests)
        k = rng.randint(0, 3)
        for _ in range(k):
            script.append(['R', rng.randrange(4), int(rng.random() < 0.8), delay()])
        script += [[rng.choice('UUE'), 0.5] for _ in range(24)]
        return script
    for _ in range(rng.randint(n, 3 * n + 4)):
        r = rng.random()
        if r < 0.55:
            script.append(['R', rng.randrange(4), int(rng.random() < 0.75), delay()])
            idle_run = 0
        elif r < 0.8:
            script.append([rng.choice('UUE'), delay()])
            idle_run = 0
        elif r < 0.92 and idle_run < 3:
            script.append(['I'])
            idle_run += 1
        elif r >= 0.92 and not (user and rng.random() < 0.5):
            script.append(['X'])
            break
        else:
            script.append(['U', delay()])
            idle_run = 0
    return script


def rand_sched(rng):
    r = rng.random()
    if r < 0.4:
        return {'kind': 'seed', 'seed': rng.randrange(1 << 30), 'stick': 0.0}
    if r < 0.75:
        return {'kind': 'seed', 'seed': rng.randrange(1 << 30), 'stick': rng.choice([0.5, 0.8])}
    k = rng.choice([1, 2, 2, 3])
    return {'kind': 'preempt', 'points': {str(rng.randrange(4, 70)): rng.randrange(6) for _ in range(k)}}


def rand_case(rng):
    reqs = rand_reqs(rng)
    user = rng.random() < 0.45
    return {'reqs': reqs, 'peer': rand_peer(rng, len(reqs), user), 'user': user, 'sched': rand_sched(rng)}


def quiet_peer(rng, seconds):
    """a peer that does not answer for exactly `seconds` virtual seconds (a multiple of 0.25): updates / error
    updates / short idle runs only"""
    script, t, idle_run = [], 0.0, 0
    while t < seconds:
        left = seconds - t
        if left >= 1.0 and rng.random() < 0.3 and idle_run < 3:
            script.append(['I'])
            t += 1.0
            idle_run += 1
        else:
            d = min(left, rng.choice([0.5, 1.0, 1.0]))
            script.append([rng.choice('UUE'), d])
            t += d
            idle_run = 0
    return script


def timeout_case(rng):
    """time-out scenario: equal-key requests, the first caller's 10 s expire while the peer is quiet, then late
    replies / replies / updates in random order; later callers start with a delay so that their own time-out is
    still far away when the key changes its owner"""
    n = rng.choice([2, 2, 2, 3, 3, 4])
    r = [rng.choice(ACTIONS), rng.choice(IDENTS)]
    reqs = [list(r) for _ in range(n)]
    if n >= 3 and rng.random() < 0.4:      # one request with (possibly) another key
        reqs[rng.randrange(1, n)] = [rng.choice(ACTIONS), rng.choice(IDENTS)]
    delays = [0.0] + sorted(rng.choice([0.0, 2.0, 4.0, 6.0, 8.0, 9.5]) for _ in range(n - 1))
    peer = []
    if rng.random() < 0.3:                  # something is answered before the silence
        peer.append(['R', rng.randrange(4), int(rng.random() < 0.8), rng.choice([0.0, 0.5])])
    # the recv call that delivers the late reply must begin before the first caller's time-out (otherwise the rx
    # thread treats the cleanup list first): quiet until 9.0 .. 9.75 s, then a line that arrives up to 1 s later
    peer += quiet_peer(rng, rng.choice([9.0, 9.25, 9.5, 9.5, 9.75]))
    peer.append([rng.choice('LLLRU'), rng.randrange(3), int(rng.random() < 0.8), rng.choice([0.5, 1.0, 1.0])])
    for _ in range(rng.randint(2, 9)):
        x = rng.random()
        d = rng.choice([0.0, 0.0, 0.25, 0.5, 1.0])
        if x < 0.4:
            peer.append(['L', rng.randrange(3), int(rng.random() < 0.8), d])
        elif x < 0.8:
            peer.append(['R', rng.randrange(3), int(rng.random() < 0.8), d])
        else:
            peer.append([rng.choice('UE'), d])
    x = rng.random()
    if x < 0.6:
        sched = {'kind': 'seed', 'seed': rng.randrange(1 << 30), 'stick': rng.choice([0.0, 0.0, 0.5])}
    else:
        k = rng.choice([1, 1, 2])
        sched = {'kind': 'preempt', 'points': {str(rng.randrange(30, 260)): rng.randrange(4) for _ in range(k)}}
    return {'reqs': reqs, 'delays': delays, 'peer': peer, 'user': False, 'sched': sched}


def timeout_systematic(stride):
    """the late-reply scenario x every single preemption point (step numbers in steps of `stride`)"""
    out = []
    scenarios = [
        # c0 times out at 10 s, c1 (same key, started at 6 s) is parked; late reply for c0, then c1 is transmitted
        # and answered
        {'reqs': [['read', 'm:p'], ['read', 'm:p']], 'delays': [0.0, 6.0],
         'peer': [['U', 1.0]] * 9 + [['U', 0.5], ['L', 0, 1, 1.0], ['R', 0, 1, 0.25], ['R', 0, 1, 0.0]], 'user': False},
        # unknown actions (key None), error replies, a third caller with another key
        {'reqs': [['foo', 'm:q'], ['bar', 'm:p'], ['change', 'm:q']], 'delays': [0.0, 8.0, 9.5],
         'peer': [['E', 1.0], ['I'], ['U', 1.0], ['I'], ['I']] * 2 + [['U', 0.25], ['L', 0, 0, 1.0],
                  ['R', 1, 1, 0.0], ['R', 0, 0, 0.5], ['R', 0, 1, 0.0]], 'user': False},
    ]
    for sc in scenarios:
        for step in range(20, 200, stride):
            for idx in range(2):
                out.append(dict(sc, sched={'kind': 'preempt', 'points': {str(step): idx}}))
    return out


def systematic_cases(max_pairs):
    """small scenarios x every single preemption point (and pairs up to max_pairs per scenario)"""
    scenarios = [
        {'reqs': [['read', 'm:p'], ['read', 'm:p']], 'peer': [['R', 0, 1, 0.0], ['R', 0, 1, 0.0]] + [['U', 0.5]] * 22, 'user': False},
        {'reqs': [['read', 'm:p'], ['change', 'm:p']], 'peer': [['R', 1, 1, 0.0], ['U', 0.0], ['R', 0, 0, 0.0]], 'user': True},
        {'reqs': [['foo', 'm:p'], ['bar', 'm:q'], ['read', 'm:p']], 'peer': [['R', 0, 1, 0.0], ['R', 0, 0, 0.0], ['R', 0, 1, 0.0], ['X']], 'user': False},
        {'reqs': [['do', 'm:q'], ['do', 'm:q']], 'peer': [['R', 0, 1, 0.0], ['X']], 'user': True},
        {'reqs': [['foo', 'm:q'], ['read', 'm:p']], 'peer': [['E', 0.0], ['R', 0, 1, 0.0], ['E', 0.0], ['R', 0, 1, 0.0], ['U', 0.0]], 'user': False},
    ]
    out = []
    for sc in scenarios:
        for step in range(3, 45):
            for idx in range(4):
                out.append(dict(sc, sched={'kind': 'preempt', 'points': {str(step): idx}}))
        rng = random.Random(len(out))
        for _ in range(max_pairs):
            a, b = rng.randrange(3, 45), rng.randrange(3, 45)
            out.append(dict(sc, sched={'kind': 'preempt', 'points': {str(a): rng.randrange(4), str(b): rng.randrange(4)}}))
    return out


def gen_cases(seed, tier):
    rng = random.Random(seed * 1000003 + 11)
    n = {'quick': 2400, 'thorough': 40000, 'search': 40000}[tier]
    cases = [rand_case(rng) for _ in range(n)]
    cases.extend(systematic_cases(100 if tier == 'quick' else 3000))
    rng2 = random.Random(seed * 1000003 + 12)     # own stream: the cases above stay what they were
    cases.extend(timeout_case(rng2) for _ in range(n // 10))
    cases.extend(timeout_systematic(2 if tier == 'quick' else 1))
    return cases


def search_cases(seed, mismatching_cases):
    """obligations broken, no oracle failure among the checked cases: the cases on which model and implementation
    differ under many other schedules (same requests / peer / delays), then a thorough budget with another seed"""
    rng = random.Random(seed * 1000003 + 13)
    out = []
    for c in mismatching_cases[:20]:
        for _ in range(200):
            out.append(dict(c, sched={'kind': 'seed', 'seed': rng.randrange(1 << 30), 'stick': rng.choice([0.0, 0.5, 0.8])}))
    out.extend(gen_cases(seed + 7919, 'thorough'))
    return out


def shrink(case):
    reqs, peer = case['reqs'], case['peer']
    if case['sched']['kind'] != 'explicit':
        for i in range(len(peer) - 1, -1, -1):
            yield dict(case, peer=peer[:i] + peer[i + 1:])
        if len(reqs) > 2:
            yield dict(case, reqs=reqs[:-1], delays=(case.get('delays') or [])[:len(reqs) - 1])
        if case.get('user'):
            yield dict(case, user=False)
