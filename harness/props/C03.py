"""C03 — datatype descriptions, copies and compatibility verdicts: implementation driver, encoder, direct oracle"""
import json
import math
import random

from harness import gal
from harness import dtgen as G
from harness import dtgen_C03 as X

ID = 'C03'
COQ_DIRS = ['C01']
MODEL_TARGETS = ['theories/C03/Run.vo']
PROOF_TARGETS = ['theories/C03/Properties.vo']
PROPERTIES_V = 'theories/C03/Properties.v'
IMPORTS = 'Require Import FV.Base.F64 FV.Base.PyVal FV.C01.Model FV.Gen.C03 FV.C03.Model FV.C03.Run.'
CASE_TYPE = 'case'
CHECK = 'check_case'
SHARD_SIZE = 200
RULE = ('datatype trees (depth<=2 quick, <=3 thorough; floats/scaled with unit incl. "$", fmtstr, resolutions; enums with '
        'names, also inside containers; TextType; structs with optional members in any order; scaled limits on and off '
        'the grid; the formerly lossy shapes blob(maxbytes=0) and string(minchars>0, maxchars unlimited)) x four operations: '
        '(rebuild) export_datatype -> json round trip -> get_datatype -> export again + validate/import probes on both; '
        '(copy) copy() of constructor-built and of rebuilt trees + identity traversal + mutation of the copy + probes; '
        '(compat) a.compatible(b) for b = widened/narrowed variant of a, a = variant of b, independent pairs, a itself '
        '(thorough: all ordered pairs of a 60-type catalogue) + probes valid for a from both sides\' boundary catalogues; '
        'also TupleOf SUBCLASSES: StatusType(..) / LimitsType(member) against the plain TupleOf they are exported as (JSON round '
        'trip through get_datatype, copy(), the same tree built directly, wider members), the reverse direction, subclass pairs; '
        '(get) get_datatype of specification-side datainfo with unknown extra keys (must-ignore), dropped keys, wrong '
        'kinds, min>max, old [type, {..}] syntax, unknown types; non-trivial = distinct case whose tree is not a bare bool')
ASSUMPTIONS = [
    'python float = IEEE-754 binary64 round-to-nearest-even (Flocq BinarySingleNaN 53 1024); json.dumps/json.loads '
    'round-trip finite floats, ints, strings, lists and objects exactly and keep object key order',
    'acceptance is observed through validate(value) and import_value(value)+validate (the client flag that '
    'get_datatype sets makes __call__ of a rebuilt struct accept missing optional members on purpose; __call__ is '
    'compared only between a constructor-built type and its copy)',
    'get_datatype model domain: descriptions are JSON values; "command" and "limit" entries, strings offered as '
    'scaled scale/min/max, enum member tables that are not objects or hold strings/null as codes are outside the model',
    'LimitsType / StatusType are covered for compatible() only, as the plain tuple they are described as (a subclass tuple '
    'is a tuple: the encoder erases the class); their copy()/rebuild and the order constraint of LimitsType.validate are not '
    'modelled (plain TupleOf(m, m) -> LimitsType(m) is not generated); CommandType is not covered',
    'generalConfig.lazy_number_validation = False (default)',
]

EXC = {'RangeError': 'ERange', 'WrongTypeError': 'EWrongType', 'TypeError': 'EType', 'ValueError': 'EValue',
       'OverflowError': 'EOverflow', 'KeyError': 'EKey', 'AttributeError': 'EAttr', 'ZeroDivisionError': 'EZeroDiv'}


def _exc_name(e):
    from frappy.errors import RangeError, WrongTypeError
    if isinstance(e, RangeError):
        return 'RangeError'
    if isinstance(e, WrongTypeError):
        return 'WrongTypeError'
    return type(e).__name__


def _try(f):
    try:
        return ['ok', f()]
    except Exception as e:
        return ['err', _exc_name(e)]


def _val(f):
    """run a validation call, tagged result"""
    try:
        return ['ok', G.tag(f())]
    except Exception as e:
        return ['err', _exc_name(e)]


# ------------------------------------------------------------------ implementation driver
def _reach(obj, acc):
    """ids of the mutable objects reachable from a datatype"""
    from frappy.datatypes import DataType
    if id(obj) in acc:
        return
    if isinstance(obj, DataType):
        acc[id(obj)] = type(obj).__name__
        for v in vars(obj).values():
            _reach(v, acc)
    elif isinstance(obj, dict):
        acc[id(obj)] = type(obj).__name__
        for v in obj.values():
            _reach(v, acc)
    elif isinstance(obj, list):
        acc[id(obj)] = 'list'
        for v in obj:
            _reach(v, acc)
    elif isinstance(obj, tuple):
        for v in obj:
            _reach(v, acc)


def _probe_pair(t1, t2, tv, wire, call=False):
    def one(t):
        if wire:
            return _val(lambda: t.validate(t.import_value(G.untag(tv))))
        if call:
            return _val(lambda: t(G.untag(tv)))
        return _val(lambda: t.validate(G.untag(tv)))
    return [one(t1), one(t2)]


def run_case(case):
    from frappy.datatypes import get_datatype
    kind = case['kind']
    if kind == 'rebuild':
        dt = X.build(case['d'])
        obs = {'x': X.describe(dt)}
        exp = _try(dt.export_datatype)
        obs['exp'] = ['ok', X.tag_json(exp[1])] if exp[0] == 'ok' else exp
        obs['reb'] = obs['exp2'] = None
        obs['probes'] = obs['wprobes'] = []
        if exp[0] == 'ok':
            wire = json.loads(json.dumps(exp[1]))
            reb = _try(lambda: get_datatype(wire, case['pname']))
            if reb[0] == 'ok':
                obs['reb'] = ['ok', X.describe(reb[1])]
                e2 = _try(reb[1].export_datatype)
                obs['exp2'] = ['ok', X.tag_json(e2[1])] if e2[0] == 'ok' else e2
                obs['probes'] = [_probe_pair(dt, reb[1], tv, False) for tv in case['probes']]
                obs['wprobes'] = [_probe_pair(dt, reb[1], tv, True) for tv in case['wprobes']]
            else:
                obs['reb'] = reb
        return obs
    if kind == 'copy':
        dt = X.build(case['d'])
        via_failed = None
        if case.get('via') == 'rebuilt':
            try:
                dt = get_datatype(json.loads(json.dumps(dt.export_datatype())))
            except Exception as e:                       # recorded as data: the oracle reports it
                via_failed = _exc_name(e)
        obs = {'x': X.describe(dt), 'exp': _try(dt.export_datatype), 'via_failed': via_failed}
        cp = _try(dt.copy)
        obs['copy'] = cp
        obs['probes'] = obs['cprobes'] = []
        obs['shared'] = []
        if cp[0] == 'ok':
            cp = cp[1]
            obs['copy'] = ['ok', X.describe(cp)]
            obs['cexp'] = _try(cp.export_datatype)
            obs['probes'] = [_probe_pair(dt, cp, tv, False) for tv in case['probes']]
            obs['cprobes'] = [_probe_pair(dt, cp, tv, False, call=True) for tv in case['probes']]
            a, b = {}, {}
            _reach(dt, a)
            _reach(cp, b)
            obs['shared'] = sorted(a[i] for i in set(a) & set(b))
            # mutate the copy, the original must not notice
            try:
                cp.set_main_unit('XX')
            except Exception:
                pass
            obs['exp_after'] = _try(dt.export_datatype)
        return obs
    if kind == 'compat':
        a, b = X.build(case['a']), X.build(case['b'])
        obs = {'xa': X.describe(a), 'xb': X.describe(b)}
        try:
            a.compatible(b)
            obs['verdict'] = ['ok']
        except Exception as e:
            obs['verdict'] = ['err', _exc_name(e)]
        pr = []
        for tv in case['probes']:
            try:
                ra = a.validate(G.untag(tv))
            except Exception as e:
                pr.append([['err', _exc_name(e)], None])
                continue
            pr.append([['ok', G.tag(ra)], _val(lambda: b.validate(ra))])
        obs['probes'] = pr
        return obs
    if kind == 'get':
        def get(tj):
            r = _try(lambda: get_datatype(X.untag_json(tj), case['pname']))
            if r[0] == 'ok':
                return ['ok', None if r[1] is None else X.describe(r[1])]
            return r
        obs = {'res': get(case['json'])}
        if case.get('plain') is not None:
            obs['plain'] = get(case['plain'])
        return obs
    raise ValueError(kind)


# ------------------------------------------------------------------ encoder
def _enc_exc(name):
    return f'(Err {EXC.get(name, "EOther")})'


def _enc_json_res(r):
    return f'(Ok {G.gal_val(r[1])})' if r[0] == 'ok' else _enc_exc(r[1])


def _enc_xt_res(r, optional=False):
    if r[0] != 'ok':
        return _enc_exc(r[1])
    if optional:
        return '(Ok None)' if r[1] is None else f'(Ok (Some {X.gal_xt(r[1])}))'
    return f'(Ok {X.gal_xt(r[1])})'


def encode(case, obs):
    kind = case['kind']
    if kind == 'rebuild':
        reb = obs['reb'] if obs['reb'] is not None else ['err', 'none']
        e2 = obs['exp2'] if obs['exp2'] is not None else ['err', 'none']
        return 'CRebuild %s %s %s %s %s' % (X.gal_xt(obs['x']), gal.string(case['pname']), _enc_json_res(obs['exp']),
                                            _enc_xt_res(reb, True), _enc_json_res(e2))
    if kind == 'copy':
        return 'CCopy %s %s' % (X.gal_xt(obs['x']), _enc_xt_res(obs['copy']))
    if kind == 'compat':
        v = obs['verdict']
        return 'CCompat %s %s %s' % (X.gal_xt(obs['xa']), X.gal_xt(obs['xb']), '(Ok tt)' if v[0] == 'ok' else _enc_exc(v[1]))
    return 'CGet %s %s %s' % (gal.string(case['pname']), G.gal_val(case['json']), _enc_xt_res(obs['res'], True))


def model_result_term(case, obs):
    return f'model_result ({encode(case, obs)})'


# ------------------------------------------------------------------ specification side (written from the property text)
def _walk(d):
    yield d
    t = d['t']
    if t == 'array':
        yield from _walk(d['elem'])
    elif t == 'tuple':
        for x in d['elems']:
            yield from _walk(x)
    elif t == 'struct':
        for _, x in d['members']:
            yield from _walk(x)


def grid_aligned(d):
    """every scaled limit is fl(k*scale) for an integer k (the property's quantifier)"""
    from fractions import Fraction
    for n in _walk(d):
        if n['t'] == 'scaled':
            s = G.dec_float(n['scale'])
            for lim in (G.dec_float(n['min']), G.dec_float(n['max'])):
                k = round(Fraction(lim) / Fraction(s))
                if abs(k) >= 2 ** 51 or float(k) * s != lim:
                    return False
    return True


def _eq_tagged(a, b):
    """python == on tagged values (-0.0 == 0.0, enum members by name and value); nan is the same result as nan"""
    if a[0] == 'float' and b[0] == 'float':
        x, y = G.dec_float(a[1]), G.dec_float(b[1])
        return x == y or (x != x and y != y)
    if a[0] in ('list', 'tuple') and a[0] == b[0]:
        return len(a[1]) == len(b[1]) and all(_eq_tagged(x, y) for x, y in zip(a[1], b[1]))
    if a[0] == 'dict' and b[0] == 'dict':
        da, db = {tuple(k): x for k, x in a[1]}, {tuple(k): x for k, x in b[1]}
        return set(da) == set(db) and all(_eq_tagged(da[k], db[k]) for k in da)
    return a == b


def _same_result(r1, r2):
    if r1[0] != r2[0]:
        return False
    if r1[0] == 'err':
        return r1[1] == r2[1]
    return _eq_tagged(r1[1], r2[1])


def _json_equal(t1, t2):
    return X.untag_json(t1) == X.untag_json(t2)


def _pairs(da, db):
    """corresponding positions of two trees"""
    yield da, db
    ta, tb = da['t'], db['t']
    if ta == tb == 'array':
        yield from _pairs(da['elem'], db['elem'])
    elif ta == tb == 'tuple':
        for x, y in zip(da['elems'], db['elems']):
            yield from _pairs(x, y)
    elif ta == tb == 'struct':
        mb = dict(db['members'])
        for n, x in da['members']:
            if n in mb:
                yield from _pairs(x, mb[n])


def nested(da, db):
    """True: a supported pairing whose value sets are nested; False: supported kind pairing, not nested;
    None: not a pairing compatible() is written to support"""
    f = G.dec_float
    ta, tb = da['t'], db['t']
    ta = 'string' if ta == 'text' else ta
    tb = 'string' if tb == 'text' else tb
    if ta == 'string':
        da = X.to_g(da)
    if tb == 'string':
        db = X.to_g(db)
    num = {'int': lambda d: (d['min'], d['max']), 'float': lambda d: (f(d['min']), f(d['max'])),
           'scaled': lambda d: (f(d['min']), f(d['max']))}
    if (ta, tb) in (('int', 'int'), ('float', 'float'), ('int', 'float'), ('int', 'scaled'), ('scaled', 'float')):
        (a1, a2), (b1, b2) = num[ta](da), num[tb](db)
        return b1 <= a1 and a2 <= b2
    if (ta, tb) == ('scaled', 'scaled'):
        if f(da['scale']) != f(db['scale']):
            return None
        return f(db['min']) <= f(da['min']) and f(da['max']) <= f(db['max'])
    if (ta, tb) == ('int', 'enum'):
        if da['max'] - da['min'] > 1000:
            return False
        vals = {v for _, v in db['members']}
        return all(i in vals for i in range(da['min'], da['max'] + 1))
    if (ta, tb) == ('int', 'bool'):
        return 0 <= da['min'] and da['max'] <= 1
    if ta != tb:
        return None
    if ta == 'bool':
        return True
    if ta == 'enum':
        return {(n, v) for n, v in da['members']} <= {(n, v) for n, v in db['members']}
    if ta == 'string':
        return db['min'] <= da['min'] and da['max'] <= db['max'] and (db['utf8'] or not da['utf8'])
    if ta == 'blob':
        return db['min'] <= da['min'] and da['max'] <= db['max']
    if ta == 'array':
        sub = nested(da['elem'], db['elem'])
        if sub is None:
            return None
        return sub and db['min'] <= da['min'] and da['max'] <= db['max']
    if ta == 'tuple':
        if len(da['elems']) != len(db['elems']):
            return False
        subs = [nested(x, y) for x, y in zip(da['elems'], db['elems'])]
        return None if None in subs else all(subs)
    ma, mb = dict(da['members']), dict(db['members'])
    if not set(ma) <= set(mb):
        return False
    subs = [nested(ma[k], mb[k]) for k in ma]
    if None in subs:
        return None
    mand_a = set(ma) - set(da['optional'])
    mand_b = set(mb) - set(db['optional'])
    return all(subs) and mand_b <= mand_a


def oracle(case, obs):
    from harness.props import C01
    kind = case['kind']
    fails = []

    def fail(cls, what):
        fails.append({'class': cls, 'what': what})
    if kind == 'rebuild':
        d = case['d']
        if obs['exp'][0] != 'ok':
            fail('export-fails', f'export_datatype of {d} raised {obs["exp"][1]}')
            return fails
        if not grid_aligned(obs['x']):
            return fails                                   # outside the property's quantifier
        if obs['reb'][0] != 'ok':
            fail('rebuild-fails', f'get_datatype({X.untag_json(obs["exp"][1])!r}) raised {obs["reb"][1]}')
            return fails
        if obs['exp2'][0] != 'ok' or not _json_equal(obs['exp'][1], obs['exp2'][1]):
            fail('datainfo-changed', f'{X.untag_json(obs["exp"][1])!r} rebuilt and exported again gives '
                                     f'{X.untag_json(obs["exp2"][1]) if obs["exp2"][0] == "ok" else obs["exp2"]!r}')
        for tv, (r1, r2) in list(zip(case['probes'], obs['probes'])) + list(zip(case['wprobes'], obs['wprobes'])):
            if not _same_result(r1, r2):
                fail('rebuilt-validates-differently',
                     f'{G.untag(tv)!r}: original {_show(r1)}, rebuilt {_show(r2)} for {X.untag_json(obs["exp"][1])!r}')
                break
        return fails
    if kind == 'copy':
        if not grid_aligned(obs['x']):
            return fails
        if obs.get('via_failed'):
            fail('rebuild-fails', f'get_datatype(export_datatype()) of {case["d"]} raised {obs["via_failed"]}')
        if obs['copy'][0] != 'ok':
            fail('copy-fails', f'copy() of {case["d"]} raised {obs["copy"][1]}')
            return fails
        if obs['exp'][0] == 'ok' and (obs['cexp'][0] != 'ok' or obs['cexp'][1] != obs['exp'][1]):
            fail('copy-datainfo-changed', f'{obs["exp"][1]!r} -> {obs["cexp"][1]!r}')
        both = list(zip(case['probes'], obs['probes']))
        if case.get('via') != 'rebuilt':
            both += list(zip(case['probes'], obs['cprobes']))
        for tv, (r1, r2) in both:
            if not _same_result(r1, r2):
                fail('copy-validates-differently', f'{G.untag(tv)!r}: original {_show(r1)}, copy {_show(r2)}')
                break
        if obs['shared']:
            fail('copy-shares-state', f'objects reachable from both: {obs["shared"]}')
        if obs['exp'][0] == 'ok' and obs.get('exp_after') != obs['exp']:
            fail('copy-shares-state', f'set_main_unit on the copy changed the original: {obs.get("exp_after")!r}')
        return fails
    if kind == 'compat':
        da, db = obs['xa'], obs['xb']
        passed = obs['verdict'][0] == 'ok'
        if passed:
            ga = X.to_g(da)
            for tv, (ra, rb) in zip(case['probes'], obs['probes']):
                if ra[0] != 'ok' or rb is None or rb[0] == 'ok':
                    continue
                r = C01._rebuild(ga, None, ra[1])
                if C01.in_set(ga, r, []):
                    fail('compat-unsound', f'compatible() passed, {r!r} is valid for the first type, the second raises {rb[1]}')
                    break
        else:
            # property text: "same kind with equal or wider limits" must pass; a status / limits type is of the kind
            # tuple (its description says so), whichever class implements it: da, db are the described (plain) trees
            n = nested(da, db)
            if n is True:
                fail('compat-incomplete', f'value sets are nested and the pairing is supported, compatible() raised '
                                          f'{obs["verdict"][1]}')
        return fails
    if kind == 'get' and case.get('plain') is not None:
        if obs['res'] != obs['plain']:
            fail('must-ignore-violated', f'unknown keys changed the result: {obs["plain"]!r} -> {obs["res"]!r}')
    return fails


def _show(r):
    return repr(G.untag(r[1])) if r[0] == 'ok' else r[1]


# ------------------------------------------------------------------ known finding classes (narrow)
def f_struct_optional_into_mandatory(case, obs, f):
    def bad(x, y):
        return x['t'] == y['t'] == 'struct' and any(n in x['optional'] and n not in y['optional']
                                                    for n, _ in x['members'] if n in dict(y['members']))
    return (case['kind'] == 'compat' and f['class'] == 'compat-unsound'
            and any(bad(x, y) for x, y in _pairs(obs['xa'], obs['xb'])))


def f_float_relres_above_one(case, obs, f):
    return (case['kind'] == 'compat' and f['class'] == 'compat-unsound'
            and any(x['t'] in ('float', 'int', 'scaled') and y['t'] == 'float' and G.dec_float(y['rel']) > 1
                    for x, y in _pairs(obs['xa'], obs['xb'])))


def f_float_relres_up_to_one(case, obs, f):
    # proposed (findings/C03.json, not yet in known_findings.json): same mechanism as above for 0.5 < relres <= 1
    # (relres == 1: a tiny positive minimum is absorbed by the rounding of min - |x|; relres just below 1: one ulp)
    return (case['kind'] == 'compat' and f['class'] == 'compat-unsound'
            and any(x['t'] in ('float', 'int', 'scaled') and y['t'] == 'float' and 0.5 < G.dec_float(y['rel']) <= 1
                    for x, y in _pairs(obs['xa'], obs['xb'])))


FINDING_CLASSIFIERS = {
    'struct-optional-into-mandatory': f_struct_optional_into_mandatory,
    'float-target-relres-above-one': f_float_relres_above_one,
    'float-target-relres-up-to-one': f_float_relres_up_to_one,
}


# ------------------------------------------------------------------ bookkeeping
def nontrivial_key(case, obs):
    d = case.get('d') or case.get('a')
    if d is not None and d['t'] == 'bool' and case['kind'] != 'compat':
        return None
    return json.dumps(case, sort_keys=True, default=str)


def outcome_labels(case, obs):
    kind = case['kind']
    if kind == 'rebuild':
        return ['rebuild', 'rebuild:' + (obs['reb'][0] if obs['reb'] else 'export-err'), 'type:' + case['d']['t']]
    if kind == 'copy':
        return ['copy:' + case.get('via', 'ctor'), 'copy:' + obs['copy'][0], 'type:' + case['d']['t']]
    if kind == 'compat':
        v = obs['verdict']
        n = nested(obs['xa'], obs['xb'])
        return ['compat', 'compat:' + ('pass' if v[0] == 'ok' else v[1]), 'compat-nested:' + str(n),
                'pair:%s->%s' % (case['a']['t'], case['b']['t'])]
    return ['get', 'get:' + (obs['res'][0] if obs['res'][0] == 'ok' else obs['res'][1]), 'get-' + case.get('how', '')]


def sample_repr(case, obs):
    if case['kind'] == 'compat':
        return {'kind': 'compat', 'a': case['a'], 'b': case['b'], 'verdict': obs['verdict']}
    if case['kind'] == 'get':
        return {'kind': 'get', 'json': X.untag_json(case['json']), 'result': obs['res']}
    return {'kind': case['kind'], 'datatype': case['d'],
            'exported': obs['exp'] if case['kind'] == 'copy' else (X.untag_json(obs['exp'][1]) if obs['exp'][0] == 'ok' else obs['exp'])}


# ------------------------------------------------------------------ generators
def _probes(rng, d, n, wire=False):
    g = X.to_g(d)
    out = []
    for _ in range(n):
        r = rng.random()
        try:
            if r < 0.45:
                v = G.rand_valid(rng, g, wire)
            elif r < 0.9:
                v = G.mutate(rng, g, G.rand_valid(rng, g, wire), wire)
            else:
                v = G.rand_any(rng, 1)
        except (ValueError, IndexError, OverflowError):
            continue
        if _struct_from_sequence(g, v):
            continue
        out.append(G.tag(v))
    return out


def _struct_from_sequence(g, v):
    """C01 lists StructOf given a str/list as known finding there; do not probe with it here"""
    t = g['t']
    if t == 'struct':
        if not isinstance(v, dict):
            return True
        m = dict(g['members'])
        return any(k in m and _struct_from_sequence(m[k], x) for k, x in v.items() if x is not None)
    if t == 'array' and isinstance(v, (list, tuple)):
        return any(_struct_from_sequence(g['elem'], x) for x in v)
    if t == 'tuple' and isinstance(v, (list, tuple)):
        return any(_struct_from_sequence(dd, x) for dd, x in zip(g['elems'], v))
    if t in ('array', 'tuple'):
        return not isinstance(v, (list, tuple))           # C01: non-iterable / str / dict into a sequence
    return False


def _limit_values(d):
    """boundary catalogue of a type: python values at and around its limits"""
    t = d['t']
    f = G.dec_float
    if t == 'float':
        a, b = f(d['min']), f(d['max'])
        return [a, b, math.nextafter(a, math.inf), math.nextafter(b, -math.inf), (a + b) / 2 if abs(a) < 1e300 and abs(b) < 1e300 else a]
    if t == 'int':
        a, b = d['min'], d['max']
        return [a, b, min(a + 1, b), max(b - 1, a), (a + b) // 2]
    if t == 'scaled':
        a, b, s = f(d['min']), f(d['max']), f(d['scale'])
        return [a, b, a + s, b - s]
    if t == 'bool':
        return [True, False]
    if t == 'enum':
        return [v for _, v in d['members']]
    return []


def _compat_probes(rng, a, b):
    a, b = X.plain(a), X.plain(b)                          # subclass tuples: probes of the plain tree they describe
    ga = X.to_g(a)
    out = []
    for _ in range(4):
        try:
            out.append(G.rand_valid(rng, ga))
        except (ValueError, IndexError, OverflowError):
            pass
    pairs = list(_pairs(a, b))
    if len(pairs) == 1:
        out += _limit_values(a)
        if b['t'] in ('float', 'int', 'scaled') and a['t'] in ('float', 'int', 'scaled'):
            out += [v for v in _limit_values(b)]
            if a['t'] == 'int':
                out = [int(v) if isinstance(v, float) and v.is_integer() and abs(v) < 2 ** 60 else v for v in out]
    else:
        # container: a valid value with one leaf moved to a limit of the corresponding leaf
        for _ in range(4):
            try:
                out.append(G.mutate(rng, ga, G.rand_valid(rng, ga)))
            except (ValueError, IndexError, OverflowError):
                pass
    res = []
    for v in out:
        if isinstance(v, float) and v != v:
            continue
        if _struct_from_sequence(ga, v):
            continue
        res.append(G.tag(v))
    return res[:10]


def _mutate_datainfo(rng, j, depth=0):
    """one malformation of a specification-side datainfo (returns (json, how))"""
    if isinstance(j, dict) and 'members' in j and rng.random() < 0.4:
        j = dict(j)
        m = j['members']
        if isinstance(m, dict) and j.get('type') == 'struct' and m:
            k = rng.choice(list(m))
            sub, how = _mutate_datainfo(rng, m[k], depth + 1)
            j['members'] = dict(m, **{k: sub})
            return j, how
        if isinstance(m, list) and m:
            i = rng.randrange(len(m))
            sub, how = _mutate_datainfo(rng, m[i], depth + 1)
            j['members'] = m[:i] + [sub] + m[i + 1:]
            return j, how
        if isinstance(m, dict) and j.get('type') == 'array':
            sub, how = _mutate_datainfo(rng, m, depth + 1)
            j['members'] = sub
            return j, how
    j = dict(j)
    keys = [k for k in j if k != 'type']
    r = rng.random()
    ty = j.get('type')
    if r < 0.2 and keys:
        k = rng.choice(keys)
        del j[k]
        return j, 'drop-' + k
    if r < 0.45 and keys:
        k = rng.choice(keys)
        choices = [None, True, False, 0, 1, -1, 5, 2.0, 2.5, 1e400, float('nan'), 2 ** 70, {}, [], 255]
        if not (ty == 'scaled' and k in ('scale', 'min', 'max')) and not (ty == 'enum'):
            choices += ['', 'x', '%d']
        if ty == 'enum' and k == 'members':
            if rng.random() < 0.5 and isinstance(j[k], dict) and j[k]:
                mk = rng.choice(list(j[k]))
                j[k] = dict(j[k], **{mk: rng.choice([True, 2.0, 2.5, 7, j[k][mk], {}, [], 1e400, float('nan'), -3, 10 ** 30])})
                if rng.random() < 0.3:
                    j[k]['dup'] = rng.choice(list(j[k].values()))
                return j, 'enum-code'
            j[k] = rng.choice([None, {}, 5, True])
            return j, 'wrong-kind-members'
        v = rng.choice(choices)
        j[k] = v
        return j, 'wrong-kind-' + k
    if r < 0.55:
        for lo, hi in (('min', 'max'), ('minchars', 'maxchars'), ('minbytes', 'maxbytes'), ('minlen', 'maxlen')):
            if lo in j and hi in j and not isinstance(j[lo], dict):
                j[lo], j[hi] = j[hi], j[lo]
                if j[lo] == j[hi] and isinstance(j[hi], (int, float)) and not isinstance(j[hi], bool):
                    j[lo] = j[hi] + 1
                return j, 'min-above-max'
        return j, 'same'
    if r < 0.65:
        j['type'] = rng.choice(['nix', 'Double', '', 5, None, ['int'], 'doubl'])
        return j, 'unknown-type'
    if r < 0.72:
        del j['type']
        return j, 'no-type'
    if r < 0.8:
        j['pname'] = 'zz'
        return j, 'pname-key'
    if r < 0.9 and depth == 0:
        base = j.pop('type')
        return [base, j], 'old-syntax'
    if ty == 'struct':
        j['optional'] = rng.choice([['nope'], 'a', 5, [5], None, [], list(j['members'])[:1] * 2])
        return j, 'optional'
    if ty in ('double', 'scaled'):
        j[rng.choice(['unit', 'fmtstr', 'absolute_resolution', 'relative_resolution'])] = rng.choice(
            [None, 5, 'K', 'g', '%g', -1.0, 0, 0.5, True, [], 1e400])
        return j, 'float-extra'
    return rng.choice([5, 'double', None, [], [1, 2], [j], True, 2.5]), 'not-an-object'


def _jsonable(j):
    """replace Opaque stand-ins (cannot occur in JSON) so that the case stays JSON-able"""
    if isinstance(j, G.Opaque):
        return None
    if isinstance(j, dict):
        return {k: _jsonable(v) for k, v in j.items()}
    if isinstance(j, list):
        return [_jsonable(v) for v in j]
    return j


EXTRA_KEYS = [('description', 'x'), ('unit', 'V'), ('foo', 1), ('min', 0), ('members', {}), ('maxlen', 1), ('x-y', [1, {}]),
              ('_custom', None), ('scale', 2), ('optional', []), ('isUTF8', True), ('Type', 'int')]


def _add_extras(rng, j, own):
    """unknown keys (not parameters of the type's own table entry) at every level"""
    if isinstance(j, dict) and 'type' in j:
        out = {}
        for k, v in j.items():
            if k == 'members' and j['type'] == 'struct':
                out[k] = {n: _add_extras(rng, x, own) for n, x in v.items()}
            elif k == 'members' and j['type'] == 'tuple':
                out[k] = [_add_extras(rng, x, own) for x in v]
            elif k == 'members' and j['type'] == 'array':
                out[k] = _add_extras(rng, v, own)
            else:
                out[k] = v
        for k, v in rng.sample(EXTRA_KEYS, rng.randint(1, 3)):
            if k not in own[j['type']] and k not in out:
                out[k] = v
        return out
    return j


# names every table entry binds itself (from the SECoP specification of the datainfo members + floatargs)
OWN = {
    'bool': set(), 'int': {'min', 'max'}, 'double': {'min', 'max', 'unit', 'fmtstr', 'absolute_resolution', 'relative_resolution'},
    'scaled': {'scale', 'min', 'max', 'unit', 'fmtstr', 'absolute_resolution', 'relative_resolution'},
    'blob': {'minbytes', 'maxbytes'}, 'string': {'minchars', 'maxchars', 'isUTF8'},
    'array': {'minlen', 'maxlen', 'members'}, 'tuple': {'members'}, 'enum': {'members'}, 'struct': {'members', 'optional'},
}


def catalogue():
    """60 types for the exhaustive ordered-pair sweep"""
    e = G.enc_float
    F = lambda a, b, **kw: dict({'t': 'float', 'min': e(float(a)), 'max': e(float(b))}, **{k: e(v) for k, v in kw.items()})
    I = lambda a, b: {'t': 'int', 'min': a, 'max': b}
    S = lambda s, a, b: {'t': 'scaled', 'scale': e(s), 'min': e(a * s + 0.0), 'max': e(b * s + 0.0)}
    E = lambda **m: {'t': 'enum', 'name': 'c', 'members': [[k, v] for k, v in m.items()]}
    Str = lambda a, b, u=False: {'t': 'string', 'min': a, 'max': b, 'utf8': u}
    B = lambda a, b: {'t': 'blob', 'min': a, 'max': b}
    A = lambda x, a, b: {'t': 'array', 'elem': x, 'min': a, 'max': b}
    T = lambda *xs: {'t': 'tuple', 'elems': list(xs)}
    St = lambda opt, **m: {'t': 'struct', 'members': [[k, v] for k, v in m.items()], 'optional': opt, 'client': False}
    bo = {'t': 'bool'}
    return [
        F(-G.FMAX, G.FMAX), F(0, 1), F(0, 10), F(-10, 10), F(5, 10), F(0, 1, rel=0.0), F(0, 1.0000001), F(1e-9, 1, abs=1e-3),
        F(0, 0), F(1, 2, rel=0.5),
        I(-2 ** 24, 2 ** 24), I(0, 1), I(0, 2), I(1, 2), I(1, 3), I(0, 10), I(5, 10), I(0, 0), I(-1, 1), I(0, 2 ** 53 + 1),
        S(0.1, 0, 10), S(0.1, 0, 100), S(0.5, 0, 20), S(1.0, 1, 2), S(1e-3, -1000, 1000), S(0.1, 50, 100),
        bo, E(a=0, b=1), E(a=1, b=2), E(a=1, b=2, c=3), E(x=1, y=2), E(off=0, on=1, err=5), E(z=0),
        Str(0, X.UNL), Str(0, 10), Str(0, 10, True), Str(2, 5), Str(0, 0), {'t': 'text', 'max': None}, {'t': 'text', 'max': 10},
        B(0, 255), B(0, 10), B(2, 5), B(1, 1),
        A(I(0, 1), 0, 3), A(I(0, 2), 0, 5), A(bo, 1, 3), A(F(0, 1), 0, 3), A(E(a=0, b=1), 0, 3),
        T(I(0, 1)), T(I(0, 2)), T(I(0, 1), bo), T(F(0, 1), Str(0, 10)), T(E(a=1, b=2), Str(0, X.UNL)),
        St(['b'], a=I(0, 1), b=bo), St([], a=I(0, 1), b=bo), St(['a', 'b'], a=I(0, 2), b=bo), St([], a=I(0, 1)),
        St(['c'], a=I(0, 5), b=bo, c=F(0, 1)), St([], a=E(a=1, b=2)),
    ]


def gen_cases(seed, tier):
    rng = random.Random(seed * 104729 + 3)
    n = {'quick': (1300, 700, 2600, 1400), 'thorough': (30000, 15000, 50000, 30000), 'search': (8000, 4000, 14000, 8000)}[tier]
    depth = 2 if tier == 'quick' else 3
    cases = []
    for _ in range(n[0]):
        d = X.rand_xt(rng, rng.randint(0, depth))
        cases.append({'kind': 'rebuild', 'd': d, 'pname': rng.choice(['', '', 'p']),
                      'probes': _probes(rng, d, 5), 'wprobes': _probes(rng, d, 3, wire=True)})
    for _ in range(n[1]):
        d = X.rand_xt(rng, rng.randint(0, depth))
        via = 'rebuilt' if rng.random() < 0.3 else 'ctor'
        cases.append({'kind': 'copy', 'd': d, 'via': via, 'probes': _probes(rng, d, 5)})
    for _ in range(n[2]):
        a = X.rand_xt(rng, rng.randint(0, depth), special=False)
        r = rng.random()
        if r < 0.55:
            b = X.widen(rng, a)
        elif r < 0.7:
            a, b = X.widen(rng, a), a
        elif r < 0.9:
            b = X.rand_xt(rng, rng.randint(0, depth), special=False)
        else:
            b = a
        cases.append({'kind': 'compat', 'a': a, 'b': b, 'probes': _compat_probes(rng, a, b)})
    for _ in range({'quick': 160, 'thorough': 3000, 'search': 1500}[tier]):
        a, b = X.rand_subclass_pair(rng)
        cases.append({'kind': 'compat', 'a': a, 'b': b, 'probes': _compat_probes(rng, a, b)})
    if tier == 'thorough':
        cat = catalogue()
        for a in cat:
            for b in cat:
                cases.append({'kind': 'compat', 'a': a, 'b': b, 'probes': _compat_probes(rng, a, b)})
    for _ in range(n[3]):
        d = X.rand_xt(rng, rng.randint(0, depth), special=False)
        j = X.spec_datainfo(d)
        pname = rng.choice(['', '', 'p'])
        if rng.random() < 0.3:
            cases.append({'kind': 'get', 'how': 'must-ignore', 'pname': pname, 'json': X.tag_json(_add_extras(rng, j, OWN)),
                          'plain': X.tag_json(j)})
        else:
            m, how = _mutate_datainfo(rng, j)
            cases.append({'kind': 'get', 'how': how, 'pname': pname, 'json': X.tag_json(_jsonable(m)), 'plain': None})
    return cases


def shrink(case):
    if case['kind'] in ('rebuild', 'copy'):
        d = case['d']
        for sub in _children(d):
            r0 = random.Random(0)
            yield dict(case, d=sub, probes=_probes(r0, sub, 8), wprobes=_probes(r0, sub, 4, wire=True))
        for key in ('probes', 'wprobes'):
            if len(case.get(key, [])) > 1:
                for i in range(len(case[key])):
                    yield dict(case, **{key: [case[key][i]]})
    elif case['kind'] == 'compat':
        a, b = case['a'], case['b']
        if a['t'] == b['t'] == 'array':
            yield dict(case, a=a['elem'], b=b['elem'], probes=_compat_probes(random.Random(0), a['elem'], b['elem']))
        if a['t'] == b['t'] == 'tuple':
            for x, y in zip(a['elems'], b['elems']):
                yield dict(case, a=x, b=y, probes=_compat_probes(random.Random(0), x, y))
        if a['t'] == b['t'] == 'struct':
            mb = dict(b['members'])
            for nme, x in a['members']:
                if nme in mb:
                    yield dict(case, a=x, b=mb[nme], probes=_compat_probes(random.Random(0), x, mb[nme]))
        if len(case['probes']) > 1:
            for p in case['probes']:
                yield dict(case, probes=[p])


def _children(d):
    t = d['t']
    if t == 'array':
        return [d['elem']]
    if t == 'tuple':
        return list(d['elems'])
    if t == 'struct':
        return [x for _, x in d['members']]
    return []
