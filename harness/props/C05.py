"""C05 — the update stream reconstructs the parameter cache: implementation driver (real Module / Parameter /
Dispatcher, fake driver methods, fake connections, virtual clock, 1..4 threads under harness/dsched.py: driver
threads and connection threads running the real handle_activate / handle_deactivate / remove_connection),
case encoder, direct oracle, generators"""
import copy
import json
import random
import threading

from harness import gal
from harness import dtgen as G

ID = 'C05'
COQ_DIRS = ['C01']
MODEL_TARGETS = ['theories/C05/Run.vo']
PROOF_TARGETS = ['theories/C05/Properties.vo']
PROPERTIES_V = 'theories/C05/Properties.v'
IMPORTS = 'Require Import FV.Base.F64 FV.Base.PyVal FV.C01.Model FV.Gen.C05 FV.C05.Model FV.C05.ModelCb FV.C05.Run.'
CASE_TYPE = 'case'
CHECK = 'check_case'
SHARD_SIZE = 122
RULE = ('a case = 1..2 real modules with 1..4 parameters drawn from a catalogue of 9 datatypes (double limited/unlimited, int, '
        'bool, enum, string, array of int, struct, tuple), each with its own export / update_unchanged setting '
        '(always, never, default through module or general setting, explicit interval) and initial state (default, value, '
        'uninitialised = ConfigError), 1..3 activated fake connections (whole node / one module / one parameter), and a '
        'history of 1..14 operations per thread: wrapped read_ (returns valid, equal, invalid value, None, Done, raises '
        'SECoP or foreign exception, the same exception instance again, a read calling another read that raises), wrapped '
        'write_ (with/without user method; returns value, None, Done, raises), attribute assignment of equal/different/'
        'invalid values, announceUpdate with error / explicit timestamp; every operation advances a virtual clock by 0..3 '
        'ticks of 1/8 s.  Single-thread cases run directly; 2..4 thread cases run the real threads under dsched with yield '
        'points at lock acquisition, in the fake driver, in time.time(), in send_reply and at the registration of '
        'handle_activate (seeded random schedules + systematic bounded-preemption schedules).  Connection threads run the '
        'real Dispatcher.handle_activate (whole node / module / module:parameter), handle_deactivate, remove_connection / '
        'reset_connection for connections that are or are not activated when the history starts, concurrently with the '
        'driver threads; two small scenario families (activation racing with updates; a connection leaving during a '
        'fan-out) are explored systematically.  Request threads: client `read` / `change` requests go through the real '
        'Dispatcher.handle_read / handle_change (wrapped read_ / write_, then the reply built with pobj.export_value() outside '
        'updateLock, a scheduler switch inside the datatype conversion of the reply value) racing with driver updates, '
        'with long omit intervals and repeated values (value stored, not announced), followed by the activation of a fresh '
        'connection; a third scenario family (reply under construction while a driver assigns, then activation) is '
        'explored systematically.  About a third of the single-thread cases (1..3 modules, up to 5 parameters, '
        'followers sharing parameter names) and a quarter of the threaded ones carry parameter callbacks registered through '
        'the real Module.addCallback (with/without extra arguments, callables accepting (value, err) or the value only) and '
        'Module.registerCallbacks (update_<param> methods of a follower, autoupdate = the follower\'s announceUpdate); every '
        'operation has a script tree saying what each callback does in that invocation: return, raise TypeError / '
        'ZeroDivisionError / ValueError / KeyError / RuntimeError / AttributeError, or call announceUpdate of a module with a '
        'value / error / explicit timestamp (nested funnel, depth <= 3, also about the operation\'s own parameter) and then '
        'return or raise; threaded cases: callbacks return or raise only.  Compared with the model: resolved omit interval, every message per '
        'connection in order (parameter, kind, exported value bit-exact or error name + text, timestamp), final cache '
        '(value bit-exact, error class/text, timestamp), and for threaded runs the schedule must be executable by the model.  '
        'non-trivial = at least one message after the activation snapshot; distinct = distinct case contents.')
ASSUMPTIONS = [
    'clock values and intervals are multiples of 1/8 s below 2^40 (float arithmetic on times is exact); time.time() never returns 0',
    'datatypes of generated parameters: FloatRange, IntRange, BoolType, EnumType, StringType, ArrayOf(IntRange), StructOf, TupleOf '
    '(no ScaledInteger / BLOBType); NaN only as top-level double value; raw values kept by "write_ returned None" are canonical or ints for doubles',
    'no check_ functions, SECoP exceptions carry exactly one positional argument',
    'parameter callbacks raise only subclasses of Exception (a BaseException such as SystemExit is not caught by the callback '
    'loop and is not considered); callbacks calling announceUpdate (nested funnel) are generated in single-thread cases only '
    '(in threaded cases callbacks return or raise: the concurrent model has no nested regions); registerCallbacks chains are '
    'acyclic (a module follows a module with a smaller index), nested announcements of scripted callbacks are finite trees',
    'handle_read / handle_change / handle_activate / handle_deactivate / remove_connection are called directly by the connection threads (not through '
    'handle_request, whose dispatcher-wide lock would serialise requests): more interleavings than a real server has',
    'threads are preempted only at synchronisation points (lock acquire, fake driver entry, time.time(), send_reply, '
    'the add() of a subscriber set in handle_activate, inside the datatype conversion of a reply value, a harness yield before handle_deactivate / remove_connection)',
    'fake connections hash to their index, so listener sets are iterated in index order (up to 4 connections)',
    'change requests carry scalar canonical values that the dispatcher-side import_value + validate give back unchanged; '
    'the cached value of the oracle is exported with the datatype itself, not through Parameter.export_value',
    'value equality of the property = python == on the exported values (so a silent 0.0 -> -0.0 change within the omit interval is not reported)',
]

TICK = 8            # ticks per second
T0 = 8000           # clock start (ticks)
MODNAMES = ['ma', 'mb', 'mc']
PNAMES = ['pa', 'pb', 'pc', 'pd', 'pe']
SECOP = ['HardwareError', 'CommunicationFailedError', 'ConfigError', 'RangeError', 'IsBusyError', 'InternalError',
         'ProgrammingError']
FOREIGN = ['ValueError', 'ZeroDivisionError', 'KeyError', 'RuntimeError']
MSGS = ['boom', 'x', '']
CB_EXC = ['TypeError', 'ZeroDivisionError', 'ValueError', 'KeyError', 'RuntimeError', 'AttributeError']


def _f(x):
    return G.enc_float(float(x))


CATALOGUE = [
    {'t': 'float', 'min': _f(-100), 'max': _f(100)},
    {'t': 'float', 'min': _f(-G.FMAX), 'max': _f(G.FMAX)},
    {'t': 'int', 'min': 0, 'max': 10},
    {'t': 'bool'},
    {'t': 'enum', 'members': [['off', 0], ['on', 1], ['auto', 5]]},
    {'t': 'string', 'min': 0, 'max': 8, 'utf8': True},
    {'t': 'array', 'elem': {'t': 'int', 'min': 0, 'max': 5}, 'min': 0, 'max': 3},
    {'t': 'struct', 'members': [['a', {'t': 'int', 'min': 0, 'max': 5}], ['b', {'t': 'float', 'min': _f(-10), 'max': _f(10)}]],
     'optional': [], 'client': False},
    {'t': 'tuple', 'elems': [{'t': 'int', 'min': 0, 'max': 5}, {'t': 'bool'}]},
]


# ------------------------------------------------------------------ implementation driver
class _Log:
    handlers = []

    def __getattr__(self, name):
        return lambda *a, **k: None


def _ticks(t):
    x = float(t) * TICK
    if x != int(x):
        raise ValueError(f'time {t!r} is not a multiple of 1/{TICK}')
    return int(x)


def _exc_classes():
    import frappy.errors as fe
    return {n: getattr(fe, n) for n in SECOP}


def _make_exc(spec, objs):
    if spec['secop']:
        key = spec['oid']
        if key not in objs:
            objs[key] = _exc_classes()[spec['cls']](spec['msg'])
        return objs[key]
    return {'ValueError': ValueError, 'ZeroDivisionError': ZeroDivisionError, 'KeyError': KeyError,
            'RuntimeError': RuntimeError}[spec['cls']](spec['msg'])


class _Env:
    def __init__(self, case, sched):
        from frappy.protocol.dispatcher import Dispatcher
        self.case = case
        self.sched = sched
        self.now = T0
        self.cur = {}          # thread ident -> op in progress
        self.objs = {}         # oid -> exception instance
        self.setup = True      # no yields, clock +1 per call
        self.frames = {}       # thread ident -> stack of announceUpdate invocations in progress (callback scripts)
        self.next_frames = {}  # thread ident -> frames of the announceUpdate calls the operation is about to make
        self.cb_next = {}      # thread ident -> frame of the announceUpdate call a scripted callback is about to make
        self.cbreg = []        # per parameter: identities of the registered callbacks, in order
        self.autocx = []       # [path, conversion data] of the announceUpdate calls made by autoupdate callbacks
        self.cbrun = []        # kinds of the callback invocations that happened
        self.orig_export = {}  # id(datatype) -> its own export_value (the harness wraps it with a scheduler switch)
        self.replying = {}     # thread ident -> [ti, oi] while the thread is inside handle_read / handle_change
        self.curpos = {}       # thread ident -> [ti, oi] of the op in progress
        self.marks = {}        # (ti, oi) -> number of park points inside the conversion of the reply value
        env = self

        class SecNode:
            def __init__(self):
                self.modules = {}
                self.export = []

            def get_module(self, name):
                return self.modules.get(name)

        class Clock:
            def time(self_):
                if env.setup:
                    env.now += 1
                    return env.now / TICK
                if env.sched is not None:
                    env.sched.switch('clock')
                op = env.cur.get(threading.get_ident())
                fr = env.frames.get(threading.get_ident())
                env.now += fr[-1]['dt'] if fr else (op['dt'] if op else 0)
                return env.now / TICK

            def __getattr__(self_, name):
                import time
                return getattr(time, name)

        class YSet(set):
            """a subscriber set whose add() is a synchronisation point (the registration of handle_activate)"""
            __slots__ = ()

            def add(self_, x):
                if env.sched is not None and not env.setup:
                    env.sched.switch('reg')
                set.add(self_, x)

        class YDict(dict):
            def setdefault(self_, key, default=None):
                if key not in self_:
                    dict.__setitem__(self_, key, YSet())
                return dict.__getitem__(self_, key)

        self.clock = Clock()
        self.secnode = SecNode()
        self.restart = self.shutdown = None
        self.dispatcher = Dispatcher('dispatcher', _Log(), {}, self)
        self.dispatcher._active_connections = YSet()
        self.dispatcher._subscriptions = YDict()
        self.conns = []
        self.inside = 0        # threads inside announceUpdate / handle_activate
        self.fanout = []       # exceptions that escaped from the dispatcher's fan-out into announceUpdate

    def conn(self, idx):
        env = self

        class Conn:
            def __init__(self):
                self.msgs = []

            def __hash__(self):
                return idx

            def send_reply(self, msg):
                if env.sched is not None and not env.setup:
                    env.sched.switch(f'send:{idx}')
                self.msgs.append(copy.deepcopy(msg))
        c = Conn()
        self.conns.append(c)
        self.dispatcher.add_connection(c)
        return c

    def spec(self, sc, pobjs):
        """SECoP specifier of a scope"""
        case = self.case
        if sc[0] == 'all':
            return None
        if sc[0] == 'mod':
            return case['mods'][sc[1]]['name']
        return f"{case['mods'][case['params'][sc[1]]['mod']]['name']}:{pobjs[sc[1]].export}"

    def regs(self, pobjs):
        """the registrations the dispatcher holds, per connection, as scopes"""
        case, d = self.case, self.dispatcher
        res = []
        for c in self.conns:
            l = []
            if c in d._active_connections:
                l.append(['all'])
            for mi, mc in enumerate(case['mods']):
                if c in d._subscriptions.get(mc['name'], ()):
                    l.append(['mod', mi])
            for pi, p in enumerate(case['params']):
                if pobjs[pi].export and c in d._subscriptions.get(f"{case['mods'][p['mod']]['name']}:{pobjs[pi].export}", ()):
                    l.append(['par', pi])
            res.append(l)
        return res


def _driver_read(env, pname, pidx):
    def read(self):
        from frappy.modulebase import Done
        if env.sched is not None:
            env.sched.switch('drv')
        op = env.cur[threading.get_ident()]
        if op['k'] == 'readvia':
            if op['p'] == pidx:
                q = env.case['params'][op['q']]
                return getattr(self, 'read_' + q['name'])()
            raise _make_exc(op['exc'], env.objs)
        r = op['res']
        if r[0] == 'ret':
            return G.untag(r[1])
        if r[0] == 'none':
            return None
        if r[0] == 'done':
            return Done
        raise _make_exc(r[1], env.objs)
    read.__name__ = 'read_' + pname
    return read


def _driver_write(env, pname):
    def write(self, value):
        from frappy.modulebase import Done
        if env.sched is not None:
            env.sched.switch('drv')
        op = env.cur[threading.get_ident()]
        r = op['res']
        if r[0] == 'ret':
            return G.untag(r[1])
        if r[0] == 'none':
            return None
        if r[0] == 'done':
            return Done
        raise _make_exc(r[1], env.objs)
    write.__name__ = 'write_' + pname
    return write


def _uu(p):
    u = p['uu']
    if u in ('always', 'never', 'default'):
        return u
    return u / TICK


def _cell(env, pobj):
    err = pobj.readerror
    e = None
    if err is not None:
        oid = 0
        for k, o in env.objs.items():
            if o is err:
                oid = k
        e = {'cls': type(err).__name__, 'msg': err.args[0] if len(err.args) == 1 else repr(err.args), 'oid': oid,
             'name': err.name, 'text': str(err)}
    try:
        # the exported form of the CACHED value, computed with the datatype itself (not through Parameter.export_value:
        # the cache is pobj.value, whatever that method may keep besides it)
        dt = pobj.datatype
        xv = G.tag(env.orig_export.get(id(dt), dt.export_value)(pobj.value))
    except Exception as ex:          # export of a raw cached value may fail: recorded as data
        xv = ['opaque', type(ex).__name__]
    return {'v': G.tag(pobj.value), 'err': e, 'ts': _ticks(pobj.timestamp or 0), 'xv': xv}


def _msg(env, index, m):
    kind, spec, data = m
    p = index[spec]
    t = _ticks(data[-1].get('t', 0))
    if kind == 'update':
        return {'p': p, 'kind': 'update', 'v': G.tag(data[0]), 'ts': t}
    return {'p': p, 'kind': kind, 'name': data[0], 'text': data[1], 'ts': t}


def _conv_data(case, op, counter):
    """python-runtime data of the conversion this op may fail in: text / type name of the exception, fresh object id"""
    p = case['params'][op['p']]
    dt = G.build(p['d'])
    if p['d']['t'] == 'enum':
        dt.set_name(p['name'])           # as Parameter.__set_name__ does (the name appears in error texts)
    raw = None
    if op['k'] == 'read':
        r = op['res']
        raw = ['none'] if r[0] == 'none' else (r[1] if r[0] == 'ret' else None)
    elif op['k'] == 'assign' or (op['k'] == 'announce' and op.get('err') is None):
        raw = op['v']
    cx = {'text': '', 'tname': '', 'oid': 10000 + counter}
    if raw is not None:
        from frappy.errors import SECoPError
        try:
            dt(G.untag(raw))
        except SECoPError as e:
            cx['text'] = e.args[0] if len(e.args) == 1 else repr(e.args)
            cx['tname'] = type(e).__name__
        except Exception as e:
            cx['text'] = str(e)
            cx['tname'] = type(e).__name__
    return cx


def flat_ops(case):
    """model-level op list per thread: readvia is two reads seeing the same exception instance"""
    res = []
    n = 0
    for ti, ops in enumerate(case['threads']):
        l = []
        for oi, op in enumerate(ops):
            if op['k'] in CONN_OPS:
                l.append(op)
                continue
            if op['k'] == 'readvia':
                subs = [{'k': 'read', 'p': op['q'], 'res': ['raise', op['exc']], 'dt': op['dt']},
                        {'k': 'read', 'p': op['p'], 'res': ['raise', op['exc']], 'dt': op['dt']}]
            else:
                subs = [op]
            for si, (o, lv) in enumerate(zip(subs, op_scripts(op))):
                o = dict(o)
                o['cx'] = _conv_data(case, o, n)
                o['cbs'] = lv
                o['path'] = [ti, oi, si]
                n += 1
                l.append(o)
        res.append(l)
    return res


def _policy(spec):
    from harness import dsched
    if spec['kind'] == 'seeded':
        return dsched.Seeded(spec['seed'], spec.get('stick', 0.0))
    if spec['kind'] == 'explicit':
        return dsched.Explicit(spec['decisions'])
    return dsched.Preempt(spec['points'])


CONN_OPS = ('activate', 'deactivate', 'reset')


def is_threaded(case):
    return len(case['threads']) > 1 or any(op['k'] in CONN_OPS for ops in case['threads'] for op in ops)


# ------------------------------------------------------------------ parameter callbacks (addCallback / registerCallbacks)
def _cb_exc(name):
    return {'TypeError': TypeError, 'ZeroDivisionError': ZeroDivisionError, 'ValueError': ValueError, 'KeyError': KeyError,
            'RuntimeError': RuntimeError, 'AttributeError': AttributeError}[name]('callback')


def reg_kinds(case):
    """per parameter the callbacks the registrations of the case produce (harness-side mirror, used by the generators
    and the encoder; the Coq model computes its own and compares with what the implementation holds)"""
    kinds = [[] for _ in case['params']]
    for r in case.get('cbregs') or []:
        if r['k'] == 'add':
            kinds[r['p']].append(['fun', bool(r['strict'])])
            continue
        upd = dict((n, st) for n, st in case['mods'][r['dst']].get('updates') or [])
        for pi, p in enumerate(case['params']):
            if p['mod'] != r['src']:
                continue
            if p['name'] in upd:
                kinds[pi].append(['fun', bool(upd[p['name']])])
            elif p['name'] in r['auto']:
                q = [qi for qi, qp in enumerate(case['params']) if qp['mod'] == r['dst'] and qp['name'] == p['name']]
                kinds[pi].append(['auto', q[0]] if q else ['bad'])
    return kinds


def _conv_cx(case, q, raw, oid, pyvalue=False):
    """python-runtime data of converting the tagged value raw (pyvalue: the python object raw[0]) with the datatype of
    parameter q"""
    p = case['params'][q]
    dt = G.build(p['d'])
    if p['d']['t'] == 'enum':
        dt.set_name(p['name'])
    cx = {'text': '', 'tname': '', 'oid': oid}
    if raw is not None:
        from frappy.errors import SECoPError
        try:
            dt(raw[0] if pyvalue else G.untag(raw))
        except SECoPError as e:
            cx['text'] = e.args[0] if len(e.args) == 1 else repr(e.args)
            cx['tname'] = type(e).__name__
        except Exception as e:
            cx['text'] = str(e)
            cx['tname'] = type(e).__name__
    return cx


def _run_script(env, mods, cbid):
    """body of a scripted callback: what it does is the entry of the script level of the announceUpdate in progress"""
    tid = threading.get_ident()
    parent = env.frames[tid][-1]
    pos = env.cbreg[parent['p']].index(('fun', cbid))
    e = parent['cbs'][pos]
    env.cbrun.append(e['k'] + (':' + e['cls'] if e['k'] == 'raise' else ''))
    if e['k'] == 'ret':
        return
    if e['k'] == 'raise':
        raise _cb_exc(e['cls'])
    q = e['p']
    pq = env.case['params'][q]
    env.cb_next[tid] = {'cbs': e.get('cbs') or [], 'p': q, 'dt': e['dt'], 'path': parent['path'] + [pos]}
    err = _make_exc(e['err'], env.objs) if e.get('err') else None
    ts = e['ts'] / TICK if e.get('ts') else None
    mods[pq['mod']].announceUpdate(pq['name'], G.untag(e['v']), err, ts)
    if e.get('then'):
        raise _cb_exc(e['then'])


def _scripted(env, mods, cbid, strict, nargs, method=False):
    """a callable with the real signature: strict = accepts the value only (python itself raises TypeError when the
    funnel passes (value, err)); nargs extra positional arguments given to addCallback come first"""
    if method:
        if strict:
            def f(self, value):
                return _run_script(env, mods, cbid)
        else:
            def f(self, value, err=None):
                return _run_script(env, mods, cbid)
    elif nargs:
        if strict:
            def f(tag, value):
                return _run_script(env, mods, cbid)
        else:
            def f(tag, value, err=None):
                return _run_script(env, mods, cbid)
    elif strict:
        def f(value):
            return _run_script(env, mods, cbid)
    else:
        def f(value, err=None):
            return _run_script(env, mods, cbid)
    f._cbid = cbid
    f._strict = strict
    return f


def _auto_frame(env, mods, mi, pname, args):
    """announceUpdate of module mi called by the real callback loop (registerCallbacks autoupdate): find its script"""
    tid = threading.get_ident()
    parent = env.frames[tid][-1]
    pos = env.cbreg[parent['p']].index(('auto', mi, pname))
    e = parent['cbs'][pos]
    env.cbrun.append('auto')
    q = [qi for qi, qp in enumerate(env.case['params']) if qp['mod'] == mi and qp['name'] == pname][0]
    path = parent['path'] + [pos]
    err = args[1] if len(args) > 1 else None
    env.autocx.append([path, _conv_cx(env.case, q, [args[0]] if err is None else None, 0, pyvalue=True)])
    return {'cbs': e.get('cbs') or [], 'p': q, 'dt': e['dt'], 'path': path}


def _script_entries(level):
    for e in level or []:
        yield e
        if e['k'] in ('ann', 'auto'):
            yield from _script_entries(e.get('cbs'))


def op_scripts(op):
    """the script levels of an operation (a nested read announces twice)"""
    return [op.get('cbs_q') or [], op.get('cbs') or []] if op['k'] == 'readvia' else [op.get('cbs') or []]


def _script_targets(case, kinds, p, level):
    """parameters the announcements nested in a script level (of parameter p) are about"""
    res = []
    for pos, e in enumerate(level or []):
        q = None
        if e['k'] == 'ann':
            q = e['p']
        elif e['k'] == 'auto' and pos < len(kinds[p]) and kinds[p][pos][0] == 'auto':
            q = kinds[p][pos][1]
        if q is not None:
            res.append(q)
            res.extend(_script_targets(case, kinds, q, e.get('cbs')))
    return res


def has_callbacks(case):
    return bool(case.get('cbregs'))



def run_case(case):
    import frappy.modulebase as mb
    from frappy.lib import generalConfig
    from frappy.core import Module, Parameter
    from frappy.logging import RemoteLogHandler
    from harness import dsched

    nthreads = len(case['threads'])
    sched = dsched.Scheduler(_policy(case['sched']), max_steps=4000) if is_threaded(case) else None
    env = _Env(case, sched)
    saved_cfg = generalConfig._config
    saved_time = mb.time
    generalConfig.testinit(omit_unchanged_within=case['general'] / TICK)
    mb.time = env.clock

    class MLog(_Log):
        handlers = [RemoteLogHandler()]       # reset_connection switches remote logging off through it

    try:
        mods = []
        for mi, mc in enumerate(case['mods']):
            ns = {}
            for pi, p in enumerate(case['params']):
                if p['mod'] != mi:
                    continue
                kw = {'datatype': G.build(p['d']), 'readonly': False, 'export': p['export'], 'update_unchanged': _uu(p)}
                if p['init'] is not None:
                    kw[p['init'][0]] = G.untag(p['init'][1])
                ns[p['name']] = Parameter('x', **kw)
                ns['read_' + p['name']] = _driver_read(env, p['name'], pi)
                if p['has_write']:
                    ns['write_' + p['name']] = _driver_write(env, p['name'])
            for uname, ustrict in mc.get('updates') or []:
                # update_<param> methods: what registerCallbacks of a followed module looks for
                ns['update_' + uname] = _scripted(env, mods, ['upd', mi, uname], bool(ustrict), 0, method=True)
            cls = type(f'M{mi}', (Module,), ns)
            cfg = {'description': 'x'}
            if mc['omit'] is not None:
                cfg['omit_unchanged_within'] = mc['omit'] / TICK
            m = cls(mc['name'], MLog(), cfg, env)
            env.secnode.modules[mc['name']] = m
            env.secnode.export.append(mc['name'])
            m.earlyInit()
            m.initModule()
            if sched is not None:
                m.accessLock = sched.RLock()
                m.accessLock.name = f'A{mi}'
                m.updateLock = sched.RLock()
                m.updateLock.name = f'U{mi}'
            mods.append(m)
        pobjs = [mods[p['mod']].parameters[p['name']] for p in case['params']]
        if sched is not None:
            # a scheduler switch inside the conversion of a value that a request thread exports for its REPLY (the
            # dispatcher builds it outside updateLock); conversions inside announceUpdate / handle_activate are left alone
            for po in pobjs:
                dt = po.datatype
                if id(dt) in env.orig_export:
                    continue
                env.orig_export[id(dt)] = dt.export_value

                def export_value(value, _orig=dt.export_value):
                    tid = threading.get_ident()
                    pos = env.replying.get(tid)
                    if pos is not None and not env.setup and not env.frames.get(tid):
                        env.marks[tuple(pos)] = env.marks.get(tuple(pos), 0) + 1
                        sched.switch('export')
                    return _orig(value)
                dt.export_value = export_value
        index = {}
        for pi, (p, po) in enumerate(zip(case['params'], pobjs)):
            if po.export:
                index[f"{case['mods'][p['mod']]['name']}:{po.export}"] = pi
        obs = {'omit': [po.omit_unchanged_within * TICK for po in pobjs],
               'exported': [po.export if po.export else None for po in pobjs],
               'init': [_cell(env, po) for po in pobjs], 'errors': [list(m.errors) for m in mods]}
        # activation (before the history)
        for ci, sc in enumerate(case['conns']):
            c = env.conn(ci)
            if sc[0] != 'none':
                env.dispatcher.handle_activate(c, env.spec(sc, pobjs), None)
        obs['snap'] = [len(c.msgs) for c in env.conns]
        obs['now0'] = env.now
        # observation points at the boundary module -> dispatcher and around the announce region
        for m in mods:
            def cb(modobj, pobj, _orig=m.updateCallback):
                try:
                    return _orig(modobj, pobj)
                except Exception as e:
                    env.fanout.append([type(e).__name__, str(e)])
                    raise
            m.updateCallback = cb

            def au(pname, *a, _orig=m.announceUpdate, _mi=mods.index(m), **k):
                tid = threading.get_ident()
                env.inside += 1
                nf = env.next_frames.get(tid)
                if env.frames.get(tid):          # called from inside a callback loop of this thread:
                    fr = env.cb_next.pop(tid, None)                 # ... by a scripted callback
                    if fr is None:
                        fr = _auto_frame(env, mods, _mi, pname, a)  # ... by the loop itself (autoupdate)
                elif nf:
                    fr = nf.pop(0)               # announced by the worker (the operation)
                else:
                    fr = {'cbs': [], 'p': None, 'dt': 0, 'path': []}
                env.frames.setdefault(tid, []).append(fr)
                try:
                    return _orig(pname, *a, **k)
                finally:
                    env.frames[tid].pop()
                    env.inside -= 1
            m.announceUpdate = au
        # callbacks: the real addCallback / registerCallbacks, scripted callables
        for ri, r in enumerate(case.get('cbregs') or []):
            if r['k'] == 'add':
                pr = case['params'][r['p']]
                f = _scripted(env, mods, ['add', ri], bool(r['strict']), r.get('nargs', 0))
                mods[pr['mod']].addCallback(pr['name'], f, *(['tag'] * r.get('nargs', 0)))
            else:
                mods[r['src']].registerCallbacks(mods[r['dst']], autoupdate=list(r['auto']))
        obs['cbreg'] = []
        for pi, pr in enumerate(case['params']):
            kinds, ids = [], []
            for func, args in mods[pr['mod']].paramCallbacks[pr['name']]:
                cbid = getattr(func, '_cbid', None)
                owner = [mj for mj, mm in enumerate(mods) if func is mm.__dict__.get('announceUpdate')]
                if cbid is not None:
                    kinds.append(['fun', bool(func._strict)])
                    ids.append(('fun', cbid))
                elif owner and len(args) == 1:
                    q = [qi for qi, qp in enumerate(case['params']) if qp['mod'] == owner[0] and qp['name'] == args[0]]
                    kinds.append(['auto', q[0]] if q else ['bad'])
                    ids.append(('auto', owner[0], args[0]))
                else:
                    kinds.append(['bad'])
                    ids.append(('bad',))
            obs['cbreg'].append(kinds)
            env.cbreg.append(ids)
        env.setup = False
        results = [[] for _ in case['threads']]
        states = []          # single thread: cache after every op
        nmsg = []            # ... and number of messages per connection so far
        quiet = []           # threaded: cache / registrations / message counts whenever an op ends with no thread
        #                      inside announceUpdate or handle_activate

        def do(op, mod, pname):
            k = op['k']
            if op.get('req'):
                # a client request: Dispatcher.handle_read / handle_change (reply built outside updateLock)
                po = pobjs[op['p']]
                spec = f"{mod.name}:{po.export}"
                tid = threading.get_ident()
                env.replying[tid] = env.curpos[tid]
                try:
                    if k == 'read':
                        return env.dispatcher.handle_read(env.conns[0], spec, None)
                    wire = env.orig_export[id(po.datatype)](G.untag(op['v']))
                    return env.dispatcher.handle_change(env.conns[0], spec, wire)
                finally:
                    env.replying[tid] = None
            if k in ('read', 'readvia'):
                return getattr(mod, 'read_' + pname)()
            if k == 'write':
                return getattr(mod, 'write_' + pname)(G.untag(op['v']))
            if k == 'assign':
                return setattr(mod, pname, G.untag(op['v']))
            err = _make_exc(op['err'], env.objs) if op.get('err') else None
            ts = op['ts'] / TICK if op.get('ts') else None
            return mod.announceUpdate(pname, G.untag(op['v']), err, ts)

        def do_conn(op):
            c = env.conns[op['c']]
            d = env.dispatcher
            if op['k'] == 'activate':
                env.inside += 1
                try:
                    return d.handle_activate(c, env.spec(op['sc'], pobjs), None)
                finally:
                    env.inside -= 1
            sched.switch('conn')
            if op['k'] == 'deactivate':
                return d.handle_deactivate(c, env.spec(op['sc'], pobjs), None)
            if op.get('via') == 'reset':
                return d.reset_connection(c)
            return d.remove_connection(c)

        def worker(ti):
            for oi, op in enumerate(case['threads'][ti]):
                env.cur[threading.get_ident()] = op
                env.curpos[threading.get_ident()] = [ti, oi]
                if op['k'] not in CONN_OPS:
                    tgt = [op['q'], op['p']] if op['k'] == 'readvia' else [op['p']]
                    env.next_frames[threading.get_ident()] = [
                        {'cbs': lv, 'p': tp, 'dt': op['dt'], 'path': [ti, oi, si]}
                        for si, (lv, tp) in enumerate(zip(op_scripts(op), tgt))]
                try:
                    if op['k'] in CONN_OPS:
                        do_conn(op)
                    else:
                        p = case['params'][op['p']]
                        do(op, mods[p['mod']], p['name'])
                    results[ti].append('ok')
                except Exception as e:
                    results[ti].append(type(e).__name__)
                env.cur[threading.get_ident()] = None
                env.next_frames[threading.get_ident()] = []
                if sched is None:
                    states.append([_cell(env, po) for po in pobjs])
                    nmsg.append([len(c.msgs) for c in env.conns])
                elif env.inside == 0:
                    quiet.append({'cells': [_cell(env, po) for po in pobjs], 'n': [len(c.msgs) for c in env.conns],
                                  'regs': env.regs(pobjs), 'after': [ti, len(results[ti]) - 1]})

        if sched is None:
            worker(0)
            obs['status'] = 'ok'
            obs['decisions'] = []
        else:
            def main():
                hs = [sched.spawn(worker, f'w{ti}', ti) for ti in range(nthreads)]
                for h in hs:
                    h.join()
            res = sched.run(main)
            obs['status'] = res.status
            obs['decisions'] = [int(d[1:]) for d in res.decisions if d != 'main']
            obs['all_decisions'] = list(res.decisions)
            obs['trace'] = [[t, lab] for t, lab, _ in res.trace if t != 'main']
            obs['thread_errors'] = res.thread_errors
        obs['results'] = results
        obs['conns'] = [[_msg(env, index, m) for m in c.msgs] for c in env.conns]
        obs['final'] = [_cell(env, po) for po in pobjs]
        obs['regs'] = env.regs(pobjs)
        obs['fanout'] = env.fanout
        obs['states'] = states
        obs['nmsg'] = nmsg
        obs['quiet'] = quiet
        obs['autocx'] = env.autocx
        obs['cbrun'] = env.cbrun
        obs['marks'] = [[ti, oi, n] for (ti, oi), n in sorted(env.marks.items())]
        return obs
    finally:
        mb.time = saved_time
        generalConfig._config = saved_cfg


# ------------------------------------------------------------------ encoder
def gs(s):
    return G.gal_str(G.cps(s))


def enc_exc(x):
    if x['secop']:
        return f"(XSecop {gs(x['cls'])} {gs(x['msg'])} {gal.nat(x['oid'])})"
    cls = {'ValueError': ValueError, 'ZeroDivisionError': ZeroDivisionError, 'KeyError': KeyError,
           'RuntimeError': RuntimeError}[x['cls']]
    return f"(XOther {gs(x['cls'])} {gs(str(cls(x['msg'])))})"


def enc_dres(r):
    if r[0] == 'ret':
        return f'(DRet {G.gal_val(r[1])})'
    if r[0] == 'none':
        return 'DNone'
    if r[0] == 'done':
        return 'DDone'
    return f'(DRaise {enc_exc(r[1])})'


def enc_job(o):
    k = o['k']
    if k == 'activate':
        return f"(JConn {gal.nat(o['c'])} (AActivate {enc_scope(o['sc'])}))"
    if k == 'deactivate':
        return f"(JConn {gal.nat(o['c'])} (ADeactivate {enc_scope(o['sc'])}))"
    if k == 'reset':
        return f"(JConn {gal.nat(o['c'])} AReset)"
    return f'(JOp {enc_op(o)})'


def enc_op(o):
    k = o['k']
    if k == 'read':
        kk = f"(KRead {enc_dres(o['res'])})"
    elif k == 'write':
        kk = f"(KWrite {G.gal_val(o['v'])} {gal.option(o['res'], enc_dres)})"
    elif k == 'assign':
        kk = f"(KAssign {G.gal_val(o['v'])})"
    else:
        kk = f"(KAnnounce {G.gal_val(o['v'])} {gal.option(o.get('err'), enc_exc)} {gal.z(o.get('ts') or 0)})"
    return '{| o_p := %s; o_k := %s; o_dt := %s; o_cx := %s |}' % (gal.nat(o['p']), kk, gal.z(o['dt']), enc_cx(o['cx']))


def enc_cx(cx):
    return '{| cx_text := %s; cx_tname := %s; cx_oid := %s |}' % (gs(cx['text']), gs(cx['tname']), gal.nat(cx['oid']))


def enc_cbs(case, kinds, autocx, p, level, path):
    """script level of parameter p -> Gallina term of type cbs"""
    term = 'CNil'
    for pos in reversed(range(len(level))):
        e = level[pos]
        kind = kinds[p][pos] if p is not None and pos < len(kinds[p]) else ['fun', False]
        strict = gal.boolean(bool(kind[0] == 'fun' and kind[1]))
        here = path + [pos]
        if e['k'] == 'ret':
            term = f'(CRet {strict} {term})'
        elif e['k'] == 'raise':
            term = f"(CRaise {strict} {gs(e['cls'])} {term})"
        elif e['k'] == 'ann':
            cx = _conv_cx(case, e['p'], e['v'] if not e.get('err') else None, 0)
            sub = enc_cbs(case, kinds, autocx, e['p'], e.get('cbs') or [], here)
            term = (f"(CAnn {strict} {gal.nat(e['p'])} {G.gal_val(e['v'])} {gal.option(e.get('err'), enc_exc)} "
                    f"{gal.z(e.get('ts') or 0)} {gal.z(e['dt'])} {enc_cx(cx)} {sub} {gal.option(e.get('then'), gs)} {term})")
        else:
            q = kind[1] if kind[0] == 'auto' else 0
            cx = autocx.get(json.dumps(here), {'text': '', 'tname': '', 'oid': 0})
            sub = enc_cbs(case, kinds, autocx, q, e.get('cbs') or [], here)
            term = f"(CAuto {gal.nat(q)} {gal.z(e['dt'])} {enc_cx(cx)} {sub} {term})"
    return term


def enc_kind(k):
    return f'(CKFun {gal.boolean(k[1])})' if k[0] == 'fun' else (f'(CKAuto {gal.nat(k[1])})' if k[0] == 'auto' else 'CKBad')


def enc_reg(case, r):
    if r['k'] == 'add':
        return f"(RAdd {gal.nat(r['p'])} {gal.boolean(bool(r['strict']))})"
    upd = case['mods'][r['dst']].get('updates') or []
    return (f"(RFollow {gal.nat(r['src'])} {gal.nat(r['dst'])} "
            f"{gal.lst(upd, lambda u: '(%s, %s)' % (gs(u[0]), gal.boolean(bool(u[1]))))} {gal.lst(r['auto'], gs)})")


def enc_cell(c):
    e = c['err']
    ee = 'None' if e is None else f"(Some {{| e_cls := {gs(e['cls'])}; e_msg := {gs(e['msg'])}; e_oid := {gal.nat(e['oid'])} |}})"
    return f"{{| c_val := {G.gal_val(c['v'])}; c_err := {ee}; c_ts := {gal.z(c['ts'])} |}}"


def enc_msg(m):
    if m['kind'] == 'update':
        pay = f"(PVal {G.gal_val(m['v'])})"
    else:
        pay = f"(PErr {gs(m['name'])} {gs(m['text'])})"
    return f"{{| m_p := {gal.nat(m['p'])}; m_pay := {pay}; m_ts := {gal.z(m['ts'])} |}}"


def enc_scope(sc):
    if sc[0] == 'none':
        return 'SNone'
    return 'SAll' if sc[0] == 'all' else (f'(SMod {gal.nat(sc[1])})' if sc[0] == 'mod' else f'(SPar {gal.nat(sc[1])})')


def enc_uu(p):
    u = p['uu']
    return gal.z({'always': 0, 'never': 999999999 * TICK, 'default': -1}.get(u, u) if isinstance(u, str) else u)


def enc_final(c):
    e = c['err']
    ee = 'None' if e is None else f"(Some ({gs(e['cls'])}, {gs(e['name'])}, {gs(e['text'])}))"
    return f"({G.gal_val(c['v'])}, {ee}, {gal.z(c['ts'])})"


def encode(case, obs):
    params = []
    for p, ex, om in zip(case['params'], obs['exported'], obs['omit']):
        dt = G.build(p['d'])
        om_i = int(om) if om == int(om) else -7
        params.append('(%s, %s, %s, {| p_mod := %s; p_mname := %s; p_name := %s; p_export := %s; p_dt := %s; p_omit := %s |})' % (
            enc_uu(p), gal.option(case['mods'][p['mod']]['omit'], gal.z), gal.boolean(p['has_write']),
            gal.nat(p['mod']), gs(case['mods'][p['mod']]['name']), gs(p['name']), gal.option(ex, gs),
            G.gal_dtype(p['d'], dt), gal.z(om_i)))
    progs = flat_ops(case)
    kinds = reg_kinds(case)
    autocx = {json.dumps(path): cx for path, cx in obs.get('autocx') or []}
    marks = {(ti, oi): n for ti, oi, n in obs.get('marks') or []}
    scripts = [[('CNil' if o['k'] in CONN_OPS else enc_cbs(case, kinds, autocx, o['p'], o.get('cbs') or [], o['path']))
                for o in l] for l in progs]
    return ('{| k_general := %s; k_params := %s; k_conns := %s; k_nmods := %s; k_init := %s; k_now := %s; k_progs := %s; '
            'k_sched := %s; k_threaded := %s; k_msgs := %s; k_final := %s; k_regs := %s; k_cbobs := %s; k_cbs := %s; '
            'k_marks := %s |}' % (
                gal.z(case['general']), gal.lst(params, str), gal.lst(case['conns'], enc_scope), gal.nat(len(case['mods'])),
                gal.lst(obs['init'], enc_cell), gal.z(obs['now0']),
                gal.lst(progs, lambda l: gal.lst(l, enc_job)), gal.lst(obs['decisions'], gal.nat),
                gal.boolean(is_threaded(case)),
                gal.lst(obs['conns'], lambda l: gal.lst(l, enc_msg)), gal.lst(obs['final'], enc_final),
                gal.lst(case.get('cbregs') or [], lambda r: enc_reg(case, r)),
                gal.lst(obs.get('cbreg') or [[] for _ in case['params']], lambda l: gal.lst(l, enc_kind)),
                gal.lst(scripts, lambda l: gal.lst(l, str)),
                gal.lst([[(marks.get((o['path'][0], o['path'][1]), 0) if o['k'] not in CONN_OPS and o['path'][2] == 0 else 0)
                          for o in l] for l in progs], lambda l: gal.lst(l, gal.nat))))


def model_result_term(case, obs):
    return f'model_result ({encode(case, obs)})'


# ------------------------------------------------------------------ the property itself (from the property text)
def _same_value(a, b):
    """exported values as a client sees them: python ==, NaN equal to NaN"""
    x, y = G.untag(a), G.untag(b)
    if isinstance(x, float) and isinstance(y, float) and x != x and y != y:
        return True
    return x == y and type(x) is type(y) or (isinstance(x, (int, float)) and isinstance(y, (int, float)) and x == y)


def _client_view(m):
    """what a client holds for a parameter after a message"""
    if m['kind'] == 'update':
        return ('value', m['v'], m['ts'])
    return ('error', m['name'], m['text'], m['ts'])


def _cache_view(c):
    if c['err'] is None:
        return ('value', c['xv'], c['ts'])
    return ('error', c['err']['name'], c['err']['text'], c['ts'])


def _view_eq(a, b):
    if a[0] != b[0] or a[-1] != b[-1]:
        return False
    if a[0] == 'value':
        return _same_value(a[1], b[1])
    return a[1:] == b[1:]


def _covers(case, obs, sc, p):
    if not obs['exported'][p]:
        return False
    return sc[0] == 'all' or (sc[0] == 'mod' and case['params'][p]['mod'] == sc[1]) or (sc[0] == 'par' and sc[1] == p)


def _last_view(msgs, p):
    ms = [m for m in msgs if m['p'] == p]
    return _client_view(ms[-1]) if ms else None


def oracle(case, obs):
    """the property, on the observation only.  A quiescent point = no thread inside announceUpdate / handle_activate
    (the end of the run; in threaded runs also every op end at which the harness counted nobody inside).  At each of
    them: for every connection, every scope it is registered for (the dispatcher's own sets), every exported parameter
    in that scope: the last update / error_update it received for the parameter is the cached value-or-error."""
    fails = []

    def fail(cls, what, **kw):
        fails.append(dict({'class': cls, 'what': what}, **kw))

    if obs['status'] != 'ok':
        fail('run-' + obs['status'], f"threads did not finish: {obs.get('thread_errors')}")
        return fails
    # every cache change is announced: nothing may escape from the fan-out into the thread that changed the cache
    for name, text in obs['fanout'][:1]:
        fail('fanout-exception', f'the fan-out of an update raised {name}: {text} into the updating thread; '
             f'the cache had already changed')
    nparams = len(case['params'])
    touched = {op['c'] for ops in case['threads'] for op in ops if op['k'] in CONN_OPS}

    def check_point(regs, cells, counts, where, **kw):
        for ci, scs in enumerate(regs):
            msgs = obs['conns'][ci] if counts is None else obs['conns'][ci][:counts[ci]]
            for p in range(nparams):
                if not any(_covers(case, obs, sc, p) for sc in scs):
                    continue
                tag = f"{where}: connection {ci} parameter {case['params'][p]['name']}"
                last, cache = _last_view(msgs, p), _cache_view(cells[p])
                if last is None:
                    fail('no-snapshot', f'{tag}: activated, but no message at all', p=p, **kw)
                elif not _view_eq(last, cache):
                    only_text = (last[0] == cache[0] == 'error' and last[1] == cache[1] and last[-1] == cache[-1])
                    fail('stale-error-text' if only_text else 'replay-differs',
                         f'{tag}: last message {last} but the node caches {cache}', p=p, **kw)

    check_point(obs['regs'], obs['final'], None, 'end of the run')
    for qi, q in enumerate(obs['quiet']):
        check_point(q['regs'], q['cells'], q['n'], f"quiescent point after op {q['after'][1]} of thread {q['after'][0]}", q=qi)

    # connections activated before the history and never (de)activated in it
    per = {}
    for ci, sc in enumerate(case['conns']):
        if ci in touched or sc[0] == 'none':
            continue
        for p in range(nparams):
            if _covers(case, obs, sc, p):
                per[(ci, p)] = [m for m in obs['conns'][ci] if m['p'] == p]
    # ... see the same per-parameter sequence after their snapshot
    for p in range(nparams):
        seqs = [(ci, ms[1:]) for (ci, q), ms in per.items() if q == p and ms]
        for ci, s in seqs[1:]:
            if [_client_view(m) for m in s] != [_client_view(m) for m in seqs[0][1]]:
                fail('connections-disagree', f"parameter {case['params'][p]['name']}: connection {ci} and {seqs[0][0]} got different streams", p=p)
    # single thread: quiescent point after every op -> order, no phantom state, every change (recovery!) announced
    if not is_threaded(case) and obs['states']:
        kinds = reg_kinds(case)
        # how many announcements about a parameter one operation may make: its own and those of the callbacks it runs
        nann = []
        for op in case['threads'][0]:
            tg = [op['q'], op['p']] if op['k'] == 'readvia' else [op['p']]
            allt = list(tg)
            for lv, tp in zip(op_scripts(op), tg):
                allt.extend(_script_targets(case, kinds, tp, lv))
            nann.append(allt)
        for (ci, p), ms in per.items():
            if not ms:
                continue
            prev = _cache_view(obs['init'][p])
            prev_err = obs['init'][p]['err'] is not None
            if not _view_eq(_client_view(ms[0]), prev):
                fail('snapshot-differs', f'connection {ci} parameter {p}: snapshot {ms[0]} but cache was {prev}', p=p)
            lo = obs['snap'][ci]
            for opi, st in enumerate(obs['states']):
                hi = obs['nmsg'][opi][ci]
                sent = [_client_view(m) for m in obs['conns'][ci][lo:hi] if m['p'] == p]
                lo = hi
                cur = _cache_view(st[p])
                cur_err = st[p]['err'] is not None
                many = nann[opi].count(p) > 1
                for m in (sent[-1:] if many else sent):
                    # (an operation whose callbacks announce the parameter again may send the states in between)
                    if _view_eq(m, cur):
                        continue
                    only_text = (cur[0] == m[0] == 'error' and cur[1] == m[1] and cur[-1] == m[-1])
                    fail('stale-error-text' if only_text else 'phantom-state',
                         f'connection {ci} parameter {p}: op {opi} sent {m} but the cache holds {cur} at the next quiescent point',
                         p=p, op=opi)
                if len(sent) > max(1, nann[opi].count(p)):
                    fail('phantom-state', f'connection {ci} parameter {p}: op {opi} sent {len(sent)} messages for one change', p=p, op=opi)
                if not sent and (not _view_eq(cur, prev) or (prev_err and not cur_err)):
                    only_text = (cur[0] == prev[0] == 'error' and cur[1] == prev[1] and cur[-1] == prev[-1])
                    fail('stale-error-text' if only_text else ('recovery-not-announced' if prev_err and not cur_err
                                                               else 'change-not-announced'),
                         f'connection {ci} parameter {p}: after op {opi} the cache went {prev} -> {cur} without a message', p=p, op=opi)
                # a wrapped read_/write_ that returned normally (and not Done) IS a recovery: it must be announced
                op = case['threads'][0][opi]
                if (prev_err and not sent and op['p'] == p and op['k'] in ('read', 'write') and obs['results'][0][opi] == 'ok'
                        and not many
                        and (op.get('res') or ['ret'])[0] != 'done'):
                    fail('recovery-not-announced', f'connection {ci} parameter {p}: op {opi} ({op["k"]}) succeeded on a parameter '
                         f'in error state {prev} but no update was sent', p=p, op=opi)
                prev, prev_err = cur, cur_err
    return fails


def _reused_oids(case):
    seen, reused = set(), set()
    for ops in case['threads']:
        for op in ops:
            xs = []
            if op['k'] in CONN_OPS:
                continue
            if op['k'] == 'readvia':
                xs = [op['exc'], op['exc']]
            elif op['k'] in ('read', 'write') and op.get('res') and op['res'][0] == 'raise':
                xs = [op['res'][1]]
            elif op['k'] == 'announce' and op.get('err'):
                xs = [op['err']]
            for lv in op_scripts(op):
                xs = xs + [e['err'] for e in _script_entries(lv) if e['k'] == 'ann' and e.get('err')]
            for x in xs:
                if x['secop']:
                    (reused if x['oid'] in seen else seen).add(x['oid'])
    return reused


def _is_shared_exception_text(case, obs, failure):
    """the cached SECoPError instance was seen again by a read_/write_ wrapper (same instance re-raised, or a read_
    method calling another read_ method), which appended to its raising_methods after the error update was sent"""
    if failure['class'] != 'stale-error-text':
        return False
    p = failure.get('p')
    if failure.get('op') is not None:
        err = obs['states'][failure['op']][p]['err']
    elif failure.get('q') is not None:
        err = obs['quiet'][failure['q']]['cells'][p]['err']
    else:
        err = obs['final'][p]['err']
    return err is not None and err['oid'] in _reused_oids(case)


FINDING_CLASSIFIERS = {'shared_exception_text': _is_shared_exception_text}


def nontrivial_key(case, obs):
    if obs.get('status') != 'ok':
        return None
    if sum(len(c) for c in obs['conns']) <= sum(obs['snap']):
        return None
    return json.dumps([case['params'], case['conns'], case['threads'], case.get('sched'), case.get('cbregs')],
                      sort_keys=True, default=str)


def outcome_labels(case, obs):
    labs = [f"threads={len(case['threads'])}"]
    for ops in case['threads']:
        for op in ops:
            labs.append('op=' + ('request-' if op.get('req') else '') + op['k'] + (':' + op['res'][0] if op.get('res') else '')
                        + (':' + op['sc'][0] if op.get('sc') else ''))
    for r in case.get('cbregs') or []:
        labs.append('register=' + ('addCallback' if r['k'] == 'add' else 'registerCallbacks'))
    for k in obs.get('cbrun') or []:
        labs.append('callback=' + k)
    for _ in obs.get('marks') or []:
        labs.append('reply-built-by-request-thread')
    post = sum(len(c) for c in obs.get('conns', [])) - sum(obs.get('snap', []))
    labs.append('messages=' + ('0' if post == 0 else '1-5' if post <= 5 else '6+'))
    for c in obs.get('conns', []):
        for m in c:
            labs.append('msg=' + m['kind'])
    return labs


def sample_repr(case, obs):
    return {'params': [(p['name'], p['d']['t'], p['uu']) for p in case['params']], 'conns': case['conns'],
            'threads': [[(o['k'], o.get('p', o.get('c'))) for o in ops] for ops in case['threads']],
            'callbacks': [(r['k'], r.get('p', (r.get('src'), r.get('dst')))) for r in case.get('cbregs') or []],
            'messages': [[(m['p'], m['kind'], m['ts']) for m in c] for c in obs.get('conns', [])]}


# ------------------------------------------------------------------ generators
def rand_exc(rng, oids):
    if rng.random() < 0.75:
        if oids and rng.random() < 0.12:
            spec = rng.choice(oids)          # the same instance again
            return dict(spec)
        spec = {'secop': True, 'cls': rng.choice(SECOP), 'msg': rng.choice(MSGS), 'oid': 0}
        spec['oid'] = 1 + len(oids) + rng.randrange(1000) * 10
        while any(o['oid'] == spec['oid'] for o in oids):
            spec['oid'] += 1
        oids.append(spec)
        return dict(spec)
    return {'secop': False, 'cls': rng.choice(FOREIGN), 'msg': rng.choice(MSGS)}


def canonical(d, v):
    """harness-side canonical value of a valid python value (what the datatype returns), as a tagged value"""
    dt = G.build(d)
    t = G.tag(dt(v))
    return ['int', str(t[2])] if t[0] == 'enum' else t       # enum members are offered by their code


def rand_value(rng, p, recent):
    d = p['d']
    r = rng.random()
    if r < 0.3 and recent.get(p['name']):
        return rng.choice(recent[p['name']])              # equal to something seen before
    if r < 0.8:
        v = G.rand_valid(rng, d)
        if d['t'] == 'struct' and not isinstance(v, dict):
            v = {'a': 1, 'b': 0.5}
        t = G.tag(v)
        recent.setdefault(p['name'], []).append(t)
        return t
    if r < 0.85 and d['t'] == 'float' and G.dec_float(d['max']) == G.FMAX:
        return G.tag(float('nan'))
    v = G.mutate(rng, d, G.rand_valid(rng, d))
    if d['t'] in ('struct',) and isinstance(v, (list, tuple)):
        v = 5
    if d['t'] in ('array', 'tuple'):
        v = _no_nested_struct_seq(v)
    return G.tag(v)


def _no_nested_struct_seq(v):
    return v


def _has_nan(t):
    if t[0] == 'float':
        return t[1] == 'nan'
    if t[0] in ('list', 'tuple'):
        return any(_has_nan(x) for x in t[1])
    if t[0] == 'dict':
        return any(_has_nan(x) for _, x in t[1])
    return False


def rand_op(rng, case, oids, recent, single):
    pi = rng.randrange(len(case['params']))
    p = case['params'][pi]
    dt = rng.choice([0, 0, 1, 1, 2, 3])
    r = rng.random()

    def val():
        for _ in range(20):
            t = rand_value(rng, p, recent)
            if t[0] == 'float' or not _has_nan(t):       # NaN only at top level
                return t
        return G.tag(G.rand_valid(rng, p['d']))

    if r < 0.4:
        rr = rng.random()
        if rr < 0.6:
            res = ['ret', val()]
        elif rr < 0.65:
            res = ['none']
        elif rr < 0.72:
            res = ['done']
        else:
            res = ['raise', rand_exc(rng, oids)]
        return {'k': 'read', 'p': pi, 'res': res, 'dt': dt}
    if r < 0.47 and single and len(case['params']) > 1:
        q = rng.choice([i for i in range(len(case['params'])) if i != pi and case['params'][i]['mod'] == p['mod']] or [None])
        if q is not None:
            x = rand_exc(rng, oids)
            if x['secop']:
                return {'k': 'readvia', 'p': pi, 'q': q, 'exc': x, 'dt': dt}
    if r < 0.65:
        v = val()
        if not p['has_write']:
            res = None
        else:
            rr = rng.random()
            if rr < 0.4:
                res = ['ret', val()]
            elif rr < 0.7:
                res = ['none']
            elif rr < 0.8:
                res = ['done']
            else:
                res = ['raise', rand_exc(rng, oids)]
            if res in (['none'], ['ret', ['none']]):
                res = ['none']
                # raw value is kept by the wrapper: canonical values or ints for doubles only (stated restriction)
                try:
                    cv = canonical(p['d'], G.untag(v))
                    if not (p['d']['t'] == 'float' and v[0] == 'int'):
                        v = cv
                except Exception:
                    pass
        return {'k': 'write', 'p': pi, 'v': v, 'res': res, 'dt': dt}
    if r < 0.85:
        return {'k': 'assign', 'p': pi, 'v': val(), 'dt': dt}
    rr = rng.random()
    err = rand_exc(rng, oids) if rr < 0.7 else None
    ts = rng.choice([0, 0, T0 + rng.randrange(-40, 80)])
    return {'k': 'announce', 'p': pi, 'v': val() if err is None or rng.random() < 0.3 else ['none'], 'err': err, 'ts': ts, 'dt': dt}


def _contains_enum(t):
    return t[0] == 'enum'


def rand_case(rng, nthreads, maxops=14, nmods=None, maxparams=4):
    nmods = nmods or rng.choice([1, 1, 2])
    case = {'general': rng.choice([0, 1, 2, 8]),
            'mods': [{'name': MODNAMES[i], 'omit': rng.choice([None, None, 0, 2, 4])} for i in range(nmods)],
            'params': [], 'conns': [], 'threads': [], 'sched': None}
    pmods = sorted(rng.randrange(nmods) for _ in range(rng.randint(1, maxparams)))     # snapshot order = module order
    for i, pm in enumerate(pmods):
        d = rng.choice(CATALOGUE)
        p = {'mod': pm, 'name': PNAMES[i], 'd': d,
             'export': rng.choice([True, True, True, True, False, 'custom' + PNAMES[i]]),
             'uu': rng.choice(['always', 'never', 'default', 'default', 'default', 1, 3, 16]),
             'has_write': rng.random() < 0.6, 'init': None}
        r = rng.random()
        if r < 0.75:
            v = G.rand_valid(rng, d)
            if d['t'] == 'struct' and not isinstance(v, dict):
                v = {'a': 1, 'b': 0.5}
            p['init'] = [rng.choice(['default', 'value']), G.tag(v)]
        case['params'].append(p)
    for _ in range(rng.randint(1, 3)):
        r = rng.random()
        if r < 0.5:
            case['conns'].append(['all'])
        elif r < 0.75:
            case['conns'].append(['mod', rng.randrange(nmods)])
        else:
            exp = [i for i, p in enumerate(case['params']) if p['export']]
            case['conns'].append(['par', rng.choice(exp)] if exp else ['all'])
    oids, recent = [], {}
    for _ in range(nthreads):
        case['threads'].append([rand_op(rng, case, oids, recent, nthreads == 1)
                                for _ in range(rng.randint(1, maxops if nthreads == 1 else 4))])
    if nthreads > 1:
        case['sched'] = {'kind': 'seeded', 'seed': rng.randrange(1 << 30), 'stick': rng.choice([0.0, 0.5, 0.8])}
    return case


# ---- callbacks
def _case_excs(case):
    """the exception specifications with an object identity used so far (so that new ones get fresh identities)"""
    res = []
    for ops in case['threads']:
        for op in ops:
            if op['k'] in CONN_OPS:
                continue
            xs = [op.get('exc'), op.get('err'), op['res'][1] if op.get('res') and op['res'][0] == 'raise' else None]
            for lv in op_scripts(op):
                xs += [e.get('err') for e in _script_entries(lv)]
            res += [dict(x) for x in xs if x and x.get('secop')]
    return res


def gen_level(rng, case, kinds, p, depth, flat, oids, recent):
    """what the callbacks registered on parameter p do in one invocation"""
    out = []
    for kind in kinds[p]:
        if kind[0] == 'auto':
            out.append({'k': 'auto', 'dt': rng.choice([0, 0, 1]),
                        'cbs': gen_level(rng, case, kinds, kind[1], depth + 1, flat, oids, recent)})
            continue
        r = rng.random()
        if kind[0] != 'fun' or r < 0.35:
            out.append({'k': 'ret'})
        elif flat or depth >= 2 or r < 0.72:
            out.append({'k': 'raise', 'cls': 'TypeError' if rng.random() < 0.25 else rng.choice(CB_EXC[1:])})
        else:
            others = [i for i in range(len(case['params'])) if i != p]
            q = p if (not others or rng.random() < 0.12) else rng.choice(others)
            pq = case['params'][q]
            v = None
            for _ in range(20):
                t = rand_value(rng, pq, recent)
                if t[0] == 'float' or not _has_nan(t):
                    v = t
                    break
            if v is None:
                v = G.tag(G.rand_valid(rng, pq['d']))
            err = rand_exc(rng, oids) if rng.random() < 0.3 else None
            out.append({'k': 'ann', 'p': q, 'v': v if err is None or rng.random() < 0.3 else ['none'], 'err': err,
                        'ts': rng.choice([0, 0, 0, T0 + rng.randrange(-40, 80)]), 'dt': rng.choice([0, 0, 1, 2]),
                        'cbs': gen_level(rng, case, kinds, q, depth + 1, flat, oids, recent),
                        'then': None if rng.random() < 0.7 else rng.choice(CB_EXC)})
    return out


def add_callbacks(rng, case, flat):
    """registrations through the real addCallback / registerCallbacks and a script for every operation; flat = the
    callbacks only return or raise (threaded cases)"""
    nm = len(case['mods'])
    # followers need parameters named like those of the module they follow
    first = [p['name'] for p in case['params'] if p['mod'] == 0]
    for mi in range(1, nm):
        mine = [p for p in case['params'] if p['mod'] == mi]
        for k, p in enumerate(mine):
            if k < len(first) and rng.random() < 0.75 and first[k] not in [x['name'] for x in mine]:
                p['name'] = first[k]
    regs = []
    for dst in range(1, nm):
        if rng.random() < 0.75:                    # acyclic: a module follows one with a smaller index
            src = rng.randrange(dst)
            nsrc = [p['name'] for p in case['params'] if p['mod'] == src]
            ndst = [p['name'] for p in case['params'] if p['mod'] == dst]
            case['mods'][dst]['updates'] = [[n, rng.random() < 0.35] for n in nsrc if rng.random() < 0.35]
            auto = [] if flat else [n for n in nsrc if n in ndst and rng.random() < 0.8]
            regs.append({'k': 'follow', 'src': src, 'dst': dst, 'auto': auto})
    for _ in range(rng.choice([0, 1, 1, 2, 3]) if regs else rng.choice([1, 1, 2, 3])):
        regs.append({'k': 'add', 'p': rng.randrange(len(case['params'])), 'strict': rng.random() < 0.3,
                     'nargs': rng.choice([0, 0, 1])})
    rng.shuffle(regs)
    case['cbregs'] = regs
    kinds = reg_kinds(case)
    oids, recent = _case_excs(case), {}
    for ops in case['threads']:
        for op in ops:
            if op['k'] in CONN_OPS:
                continue
            op['cbs'] = gen_level(rng, case, kinds, op['p'], 0, flat, oids, recent)
            if op['k'] == 'readvia':
                op['cbs_q'] = gen_level(rng, case, kinds, op['q'], 0, flat, oids, recent)
    return case


def rand_cb_case(rng, nthreads=1, conn=False):
    if conn:
        case = rand_conn_case(rng)
    else:
        case = rand_case(rng, nthreads, 8 if nthreads == 1 else 4, nmods=rng.choice([1, 2, 2, 3]), maxparams=5)
    return add_callbacks(rng, case, is_threaded(case))


def rand_scope(rng, case, allow_none=False):
    r = rng.random()
    nmods = len(case['mods'])
    exp = [i for i, p in enumerate(case['params']) if p['export']]
    if allow_none and r < 0.35:
        return ['none']
    if r < 0.6:
        return ['all']
    if r < 0.8 or not exp:
        return ['mod', rng.randrange(nmods)]
    return ['par', rng.choice(exp)]


def rand_conn_case(rng):
    """driver threads + connection threads: activation / deactivation / removal racing with updates"""
    nd = rng.choice([1, 1, 2])
    case = rand_case(rng, nd + 1, 3)                 # threaded flavour of the driver ops (no nested reads)
    del case['threads'][nd:]
    for t in case['threads']:
        del t[3:]
    nconn = rng.randint(2, 4)
    case['conns'] = [rand_scope(rng, case, allow_none=True) for _ in range(nconn)]
    if all(sc[0] == 'none' for sc in case['conns']) and rng.random() < 0.7:
        case['conns'][0] = ['all']
    for _ in range(rng.choice([1, 1, 2])):
        ci = rng.randrange(nconn)
        ops = []
        active = case['conns'][ci][0] != 'none'
        for _ in range(rng.choice([1, 1, 2])):
            r = rng.random()
            if not active or r < 0.5:
                ops.append({'k': 'activate', 'c': ci, 'sc': rand_scope(rng, case)})
                active = True
            elif r < 0.8:
                sc = rng.choice([case['conns'][ci]] + [o['sc'] for o in ops if o['k'] == 'activate']
                                + [rand_scope(rng, case)])
                ops.append({'k': 'deactivate', 'c': ci, 'sc': sc if sc[0] != 'none' else ['all']})
            else:
                ops.append({'k': 'reset', 'c': ci, 'via': rng.choice(['remove', 'reset'])})
                active = False
        case['threads'].append(ops)
    case['sched'] = {'kind': 'seeded', 'seed': rng.randrange(1 << 30), 'stick': rng.choice([0.0, 0.5, 0.8])}
    return case


# ---- request threads: read / change requests through the dispatcher, replies built outside updateLock
def _change_ok(p, v):
    """can `change <p> <export of v>` be told to the model as the wrapped write_ method called with v: scalar datatype,
    v canonical, and the dispatcher's import_value + validate give v back"""
    if p['d']['t'] not in ('float', 'int', 'bool', 'string') or (v[0] == 'float' and v[1] == 'nan'):
        return False
    try:
        dt = G.build(p['d'])
        x = G.untag(v)
        if G.tag(dt(x)) != v:
            return False
        return G.tag(dt.validate(dt.import_value(dt.export_value(x)))) == v
    except Exception:
        return False


def add_requests(rng, case, prob=0.6):
    """turn wrapped reads / writes of exported parameters into client requests"""
    n = 0
    for ops in case['threads']:
        for op in ops:
            if op['k'] not in ('read', 'write') or not case['params'][op['p']]['export'] or rng.random() > prob:
                continue
            if op['k'] == 'write' and not _change_ok(case['params'][op['p']], op['v']):
                continue
            op['req'] = True
            n += 1
    return n


def rand_req_case(rng):
    """request threads racing with driver updates, then (or meanwhile) a fresh connection activates.  Values repeat
    and omit intervals are long, so that reads are stored without being announced (the reply then is the first export
    of the stored value)"""
    for _ in range(50):
        case = rand_conn_case(rng)
        for p in case['params']:
            if rng.random() < 0.6:
                p['uu'] = rng.choice([16, 16, 'never'])
                if p['export'] is False:
                    p['export'] = True
        # reads repeat what is cached / was assigned before
        vals = {}
        for ops in case['threads']:
            for op in ops:
                if op['k'] in CONN_OPS:
                    continue
                if op['k'] in ('assign', 'write') or (op['k'] == 'read' and op['res'][0] == 'ret'):
                    v = op['v'] if op['k'] != 'read' else op['res'][1]
                    if op['k'] == 'read' and vals.get(op['p']) and rng.random() < 0.6:
                        op['res'] = ['ret', rng.choice(vals[op['p']])]
                    else:
                        vals.setdefault(op['p'], []).append(v)
                op['dt'] = rng.choice([0, 1, 1])
        if 'none' not in [sc[0] for sc in case['conns']]:
            case['conns'].append(['none'])
        fresh = [i for i, sc in enumerate(case['conns']) if sc[0] == 'none'
                 and not any(op.get('c') == i for ops in case['threads'] for op in ops)]
        if fresh:
            act = {'k': 'activate', 'c': fresh[0], 'sc': rng.choice([['all'], ['all'], rand_scope(rng, case)])}
            if rng.random() < 0.5:
                case['threads'][rng.randrange(len(case['threads']))].append(act)
            else:
                case['threads'].append([act])
        if add_requests(rng, case):
            return case
    return case


def scenario_base(rng, kind):
    """small bases for the systematic exploration of the two races the multi-thread clause is about:
    'activate': a connection is being activated while driver threads change parameters;
    'leave': a connection deactivates / is removed while an update is being fanned out"""
    fl = {'t': 'float', 'min': _f(-100), 'max': _f(100)}
    if kind == 'reply':
        # a client reads (or changes) a parameter whose value is stored but not announced again (omitted as unchanged),
        # so the reply is the first export of the stored object, built outside updateLock; a driver thread changes the
        # parameter meanwhile; afterwards a fresh connection activates
        case = {'general': 0, 'mods': [{'name': 'ma', 'omit': None}], 'conns': [['none'], ['all']],
                'params': [{'mod': 0, 'name': 'pa', 'd': fl, 'export': True, 'uu': rng.choice([16, 'never']),
                            'has_write': True, 'init': ['default', G.tag(1.0)]}],
                'threads': [], 'sched': {'kind': 'explicit', 'decisions': []}}
        if rng.random() < 0.7:
            req = {'k': 'read', 'p': 0, 'res': ['ret', G.tag(5.0)], 'dt': 1, 'req': True}
        else:
            req = {'k': 'write', 'p': 0, 'v': G.tag(5.0), 'res': ['ret', G.tag(5.0)], 'dt': 1, 'req': True}
        act = {'k': 'activate', 'c': 0, 'sc': rng.choice([['all'], ['par', 0]])}
        case['threads'] = [[{'k': 'assign', 'p': 0, 'v': G.tag(5.0), 'dt': 1}, req, act],
                           [{'k': 'assign', 'p': 0, 'v': G.tag(10.0), 'dt': 1}]]
        return case
    nmods = rng.choice([1, 2]) if kind == 'activate' else 1
    case = {'general': 0, 'mods': [{'name': MODNAMES[i], 'omit': None} for i in range(nmods)], 'params': [], 'conns': [],
            'threads': [], 'sched': {'kind': 'explicit', 'decisions': []}}
    for i in range(nmods if nmods == 2 else rng.choice([1, 2])):
        case['params'].append({'mod': i if nmods == 2 else 0, 'name': PNAMES[i], 'd': fl, 'export': True,
                               'uu': rng.choice(['always', 'default']), 'has_write': False,
                               'init': ['default', G.tag(float(i))]})

    def assign(p, v):
        return {'k': 'assign', 'p': p, 'v': G.tag(float(v)), 'dt': 1}
    np_ = len(case['params'])
    if kind == 'activate':
        case['conns'] = [['none']] + ([['all']] if rng.random() < 0.5 else [])
        sc = rng.choice([['all'], ['all'], ['mod', 0], ['par', 0]])
        case['threads'] = [[assign(0, 10)] + ([assign(np_ - 1, 11)] if rng.random() < 0.5 else []),
                           [{'k': 'activate', 'c': 0, 'sc': sc}]]
    else:
        n = rng.choice([2, 3])
        case['conns'] = [['all']] * n
        if rng.random() < 0.3:
            case['conns'][rng.randrange(n)] = ['mod', 0]
        ci = rng.randrange(n)
        leave = rng.choice([{'k': 'reset', 'c': ci, 'via': 'remove'}, {'k': 'reset', 'c': ci, 'via': 'reset'},
                            {'k': 'deactivate', 'c': ci, 'sc': case['conns'][ci]}])
        case['threads'] = [[assign(0, 10), assign(0, 10)], [leave]]
    return case


def _explore(case, max_preempt, limit):
    """explicit-schedule variants of `case` discovered with dsched.explore on the real code"""
    from harness import dsched
    out = []
    holder = {}

    def run_fn(policy):
        c = dict(case, sched={'kind': 'explicit', 'decisions': list(policy.decisions)})
        res = _run_for_steps(c)
        holder['last'] = res
        return res
    for prefix, res in dsched.explore(run_fn, max_preempt, limit):
        if res.status == 'ok':
            out.append(dict(case, sched={'kind': 'explicit', 'decisions': list(res.decisions)}))
    return out


class _Capture(Exception):
    pass


def _run_for_steps(case):
    """run the case and return the dsched RunResult (for explore)"""
    from harness import dsched
    holder = {}
    orig = dsched.Scheduler.run

    def run(self, main, *a, **k):
        r = orig(self, main, *a, **k)
        holder['res'] = r
        return r
    dsched.Scheduler.run = run
    try:
        run_case(case)
    finally:
        dsched.Scheduler.run = orig
    return holder['res']


def gen_cases(seed, tier):
    rng = random.Random(f'C05-{seed}-{tier}')
    n1, n2, n3, nsys, lim = {'quick': (1000, 250, 300, 2, 50), 'thorough': (8000, 1600, 1600, 8, 150),
                              'search': (6000, 2500, 2500, 8, 200)}[tier]
    n4 = {'quick': 100, 'thorough': 1200, 'search': 2000}[tier]
    # about a third of the single-thread cases and a quarter of the threaded ones carry parameter callbacks
    c1, c2, c3 = (n1 * 35) // 100, n2 // 4, n3 // 5
    cases = [rand_case(rng, 1) for _ in range(n1 - c1)]
    cases += [rand_cb_case(rng) for _ in range(c1)]
    cases += [rand_case(rng, rng.choice([2, 2, 3])) for _ in range(n2 - c2)]
    cases += [rand_cb_case(rng, rng.choice([2, 2, 3])) for _ in range(c2)]
    cases += [rand_conn_case(rng) for _ in range(n3 - c3)]
    cases += [rand_cb_case(rng, conn=True) for _ in range(c3)]
    cases += [rand_req_case(rng) for _ in range(n4)]
    for _ in range(nsys):
        base = rand_case(rng, 2, 3)
        for t in base['threads']:
            del t[2:]
        base['sched'] = {'kind': 'explicit', 'decisions': []}
        cases.extend(_explore(base, 2, lim))
    # the two races of the multi-thread clause, systematically (all schedules with <= 2 preemptions, up to lim)
    for kind in ('activate', 'leave', 'reply') * (1 if tier == 'quick' else 3):
        cases.extend(_explore(scenario_base(rng, kind), 2, lim))
    return cases


def _reg_sources(case):
    """per parameter: the index of the registration each of its callbacks comes from (same walk as reg_kinds)"""
    src = [[] for _ in case['params']]
    for ri, r in enumerate(case.get('cbregs') or []):
        if r['k'] == 'add':
            src[r['p']].append(ri)
            continue
        upd = dict((n, st) for n, st in case['mods'][r['dst']].get('updates') or [])
        for pi, p in enumerate(case['params']):
            if p['mod'] == r['src'] and (p['name'] in upd or p['name'] in r['auto']):
                src[pi].append(ri)
    return src


def drop_reg(case, ri):
    """the case without registration ri: its entries are removed from every script level"""
    c = copy.deepcopy(case)
    src, kinds = _reg_sources(case), reg_kinds(case)

    def fix(level, p):
        out = []
        for pos, e in enumerate(level or []):
            if pos < len(src[p]) and src[p][pos] == ri:
                continue
            if e['k'] == 'ann':
                e['cbs'] = fix(e.get('cbs'), e['p'])
            elif e['k'] == 'auto' and pos < len(kinds[p]) and kinds[p][pos][0] == 'auto':
                e['cbs'] = fix(e.get('cbs'), kinds[p][pos][1])
            out.append(e)
        return out
    for ops in c['threads']:
        for op in ops:
            if op['k'] in CONN_OPS:
                continue
            op['cbs'] = fix(op.get('cbs'), op['p'])
            if op['k'] == 'readvia':
                op['cbs_q'] = fix(op.get('cbs_q'), op['q'])
    del c['cbregs'][ri]
    return c


def _simpler_scripts(case):
    """variants with one script entry made simpler (the shape of the script levels is kept)"""
    def walk(level, path):
        for i, e in enumerate(level or []):
            yield path + [i], e
            if e['k'] in ('ann', 'auto'):
                yield from walk(e.get('cbs'), path + [i, 'cbs'])
    for ti, ops in enumerate(case['threads']):
        for oi, op in enumerate(ops):
            for key in ('cbs', 'cbs_q'):
                for path, e in walk(op.get(key), []):
                    if e['k'] in ('raise', 'ann'):
                        c = copy.deepcopy(case)
                        lv = c['threads'][ti][oi][key]
                        for step in path[:-1]:
                            lv = lv[step]
                        lv[path[-1]] = {'k': 'ret'}
                        yield c


def shrink(case):
    # no callbacks at all, fewer threads, fewer ops, fewer connections
    if case.get('cbregs'):
        c = copy.deepcopy(case)
        c['cbregs'] = []
        for ops in c['threads']:
            for op in ops:
                op.pop('cbs', None)
                op.pop('cbs_q', None)
        for m in c['mods']:
            m.pop('updates', None)
        yield c
    if len(case['threads']) > 1:
        for i in range(len(case['threads'])):
            c = copy.deepcopy(case)
            del c['threads'][i]
            if len(c['threads']) == 1:
                c['sched'] = None
            elif c['sched'] and c['sched']['kind'] == 'explicit':
                c['sched'] = {'kind': 'seeded', 'seed': 1, 'stick': 0.5}
            yield c
    for ti, ops in enumerate(case['threads']):
        for i in range(len(ops)):
            if len(ops) == 1 and len(case['threads']) == 1:
                break
            c = copy.deepcopy(case)
            del c['threads'][ti][i]
            if c['sched'] and c['sched']['kind'] == 'explicit':
                continue
            yield c
    if len(case['conns']) > 1:
        for i in range(len(case['conns'])):
            c = copy.deepcopy(case)
            del c['conns'][i]
            yield c
    if case['sched'] and case['sched']['kind'] == 'seeded':
        for s in range(1, 6):
            c = copy.deepcopy(case)
            c['sched'] = {'kind': 'seeded', 'seed': s, 'stick': 0.5}
            yield c
    for ri in range(len(case.get('cbregs') or [])):
        if len(case['cbregs']) > 1:
            yield drop_reg(case, ri)
    yield from _simpler_scripts(case)
