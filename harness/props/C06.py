"""C06 — the node's self-description is true of its behaviour: implementation driver (real SecNode + Dispatcher built
from generated module classes and configurations), case encoder, direct oracle, generators"""
import inspect
import itertools
import json
import math
import random

from harness import dtgen as G
from harness import gal

ID = 'C06'
COQ_DIRS = ['C01']
MODEL_TARGETS = ['theories/C06/Run.vo']
PROOF_TARGETS = ['theories/C06/Properties.vo']
PROPERTIES_V = 'theories/C06/Properties.v'
IMPORTS = 'Require Import FV.Base.F64 FV.Base.PyVal FV.C01.Model FV.Gen.C06 FV.C06.Model FV.C06.Run.'
CASE_TYPE = 'case'
CHECK = 'check_case'
SHARD_SIZE = 30
RULE = ('a case = a node of 1..3 generated module classes (base Module/Readable/Writable/Drivable, 0..2 generated Feature '
        'mixins, module export flag, group, visibility, in 15 % of the modules a configuration section that itself names '
        'implementation / interface_classes / features) with 1..5 own accessibles each (parameters of the datatypes double, int, '
        'scaled, bool, enum, string, array of int, struct of leaves, with units containing $, readonly, constant '
        'given in the class or in the configuration, default or none; 45 % of the parameters have a user read method returning a '
        'hardware register, for 30 % the class declares a wider datatype and the configuration narrows minchars/maxchars, '
        'minlen/maxlen, min/max (also of array members); commands with optional argument/result type; export '
        'True / False / custom string / empty string in the class, optionally overridden in the configuration; predefined and '
        'custom names, occasionally colliding wire names = a configuration both sides must refuse) built into a real SecNode + Dispatcher, x a history of 4..14 requests '
        'through Dispatcher.handle_request (describe, read, change, do, activate of node / module / accessible), driver-side '
        'assignments and changes of the hardware registers (values the described datatype takes, values between the configured and '
        'the class-level limits, values beyond both, wrong kinds; followed by one or two reads), aimed at described names, hidden names, attribute names, other-kind names and unknown names, with payloads '
        'from the boundary catalogue of the datatype (limits, limits +-1, wrong kinds, wrong lengths, missing/extra members).  '
        'Compared with the model per operation: reply data or error class, every update the connection received (specifier, value '
        'or error), and the whole structure report (wire names in order, datainfo rebuilt with get_datatype, unit, readonly, '
        'constant, group, visibility, implementation, interface_classes, features).  Plus an exhaustive scope: every combination '
        'of module export x class export setting x configured export x kind x predefined/custom name, probed with every request kind.  '
        'The node is started by the real Server._processCfg (create_modules, start-up get_descriptive_data, get_module of every module).  '
        '150 (quick) cases contain an output module with the real mixin HasControlledBy and one or two control loops '
        '(HasOutputModule) attached to it by the configuration, listed before or after it, exported or not: initModule of a loop '
        'extends the enum of the output module controlled_by during start-up; driver assignments of the new members follow.  '
        'non-trivial = at least one request was answered with data or an update; distinct = distinct (node, history).')
ASSUMPTIONS = [
    'user read methods return the content of a hardware register and never raise themselves; there are no user write_/check_ '
    'methods (a change stores the validated value); command methods return a fixed value valid for the result type; no poller '
    'is started (Server._processCfg with testonly: startModule is not called)',
    'attachments: only HasOutputModule -> HasControlledBy (frappy/mixins.py); an output module has no output module itself (no '
    'chains); the control loops have no write_target (activate_control / update_target are not exercised, controlled_by is set '
    'by driver-side assignments)',
    'omit_unchanged_within = 0 (every announceUpdate is delivered); one connection; single thread; time stamps are not compared',
    'datatypes restricted to double, int, scaled, bool, enum, string, fixed-length array of int, struct of leaves (+ the inherited '
    'status tuple and pollinterval); datatype validation itself is the subject of C01 (its model FV.C01.Model is imported)',
    'C3 MRO, class qualname, datatype.default, int(str) are python runtime behaviour and enter the model as data; numeric '
    'properties of datatypes are read back from the run-time datatype objects',
    'description texts, the meaning property, node-level properties (equipment_id, firmware) and describe with a specifier are not modelled; '
    'Limit parameters, optional accessibles, overriding by bare values and Pinata modules are not generated',
    'whether a read error equals the stored one (then it is not announced again) depends on the message text: the identity of the '
    'stored error (type, arguments) after every read / driver assignment is python runtime data supplied with the case',
    'the configured narrowing of a datatype is applied by frappy (C10); the model is told the datatype of the instance, which is the '
    'object the report exports; a narrowed parameter always has a default that the narrow datatype accepts',
    'emitted values are checked with import_value of the described datatype (the property text says importable): '
    'a double or int outside the described range that the hardware delivered is emitted by design of frappy',
]

BASES = ['Module', 'Readable', 'Writable', 'Drivable']
# SECoP: accessibles every implementation of the interface class has (spec knowledge used by the oracle)
BASE_ACCESSIBLES = {'Module': [], 'Readable': ['value', 'status', 'pollinterval'],
                    'Writable': ['value', 'status', 'pollinterval', 'target'],
                    'Drivable': ['value', 'status', 'pollinterval', 'target', 'stop']}
MIXIN_ACCESSIBLES = {'cb': ['controlled_by'], 'om': ['control_active']}
PREDEFINED_PARAMS = ['value', 'status', 'target', 'pollinterval', 'ramp', 'use_ramp', 'setpoint', 'time_to_target',
                     'controlled_by', 'control_active', 'unit', 'loglevel', 'mode', 'ctrlpars']
PREDEFINED_CMDS = ['stop', 'reset', 'go', 'abort', 'shutdown', 'communicate']


# ------------------------------------------------------------------ implementation driver
class _Log:
    handlers = []

    def __init__(self):
        self.parent = self

    def getChild(self, name):
        return self

    def __getattr__(self, name):
        return lambda *a, **k: None


class _Conn:
    def __init__(self):
        self.msgs = []

    def send_reply(self, msg):
        self.msgs.append(msg)


class _Srv:
    """the node is started by the real frappy.server.Server._processCfg (create_modules, the start-up call of
    get_descriptive_data which initialises the exported modules one by one, then get_module for every module); the Server
    object is made without Server.__init__ (no configuration file, no interfaces): _processCfg reads name, log, node_cfg,
    module_cfg, _testonly only"""
    def __init__(self, cfg):
        import io
        import sys
        from frappy.server import Server
        srv = Server.__new__(Server)
        srv.name = 'node'
        srv.log = _Log()
        srv.node_cfg = {'cls': 'frappy.protocol.dispatcher.Dispatcher', 'equipment_id': 'eq', 'description': 'generated node'}
        srv.module_cfg = cfg
        srv.interfaces = {}
        srv._testonly = True
        srv.restart = srv.shutdown = None
        self.failed = False
        saved = sys.stderr
        sys.stderr = io.StringIO()
        try:
            srv._processCfg()
        except SystemExit:
            self.failed = True          # _processCfg prints the collected configuration errors and exits
        finally:
            sys.stderr = saved
        self.srv = srv
        self.secnode = srv.secnode
        self.dispatcher = srv.dispatcher


def _build_dt(d, unit=''):
    dt = G.build(d)
    if unit:
        dt.setProperty('unit', unit)
    return dt


def _export_arg(e):
    return e          # True / False / str


def _make_class(mod, idx):
    import frappy.modules as FM
    from frappy.modulebase import Feature, Module
    from frappy.params import Command, Parameter
    ns = {}
    for a in mod['accs']:
        kw = {'export': a['export']}
        if a['group']:
            kw['group'] = a['group']
        if a['vis'] != 1:
            kw['visibility'] = a['vis']
        if a['kind'] == 'p':
            kw['readonly'] = a['readonly']
            if a['default'] is not None:
                kw['default'] = G.untag(a['default'])
            if a['const_cls'] is not None:
                kw['constant'] = G.untag(a['const_cls'])
            ns[a['attr']] = Parameter('p ' + a['attr'], _build_dt(a['d'], a['unit']), **kw)
            if a.get('rd'):
                # a user read method: it returns what the hardware register holds at the moment
                def rfunc(self, _attr=a['attr']):
                    return self._hw[_attr]
                rfunc.__name__ = 'read_' + a['attr']
                ns['read_' + a['attr']] = rfunc
        else:
            ret = G.untag(a['ret'])

            def func(self, *args, _ret=ret, **kwds):
                return _ret
            func.__name__ = a['attr']
            func.__doc__ = 'c ' + a['attr']
            arg = _build_dt(a['arg']) if a['arg'] is not None else None
            res = _build_dt(a['res']) if a['res'] is not None else None
            ns[a['attr']] = Command(arg, result=res, **kw)(func)
    base = Module if mod['base'] == 'Module' else getattr(FM, mod['base'])
    feats = tuple(type(f, (Feature,), {}) for f in mod['features'])
    ns['_hw'] = None
    ns['_built'] = None
    mixins = ()
    if mod.get('mixin') == 'cb':
        from frappy.mixins import HasControlledBy
        mixins = (HasControlledBy,)
    elif mod.get('mixin') == 'om':
        from frappy.mixins import HasOutputModule
        mixins = (HasOutputModule,)
    cls = type(f'Gen{idx}{mod["base"]}', feats + mixins + (base,), ns)

    def init(self, *args, **kwds):
        # what Module.__init__ built (datatypes of the instance's Parameter objects), recorded before any module is initialised
        super(cls, self).__init__(*args, **kwds)
        self._built = {attr: _acc_model_data(attr, None, aobj) for attr, aobj in self.accessibles.items()}
    cls.__init__ = init
    return cls


AUTO_PROPS = ('implementation', 'interface_classes', 'features')


def _cfg_of(mod, cls):
    cfg = {'cls': cls, 'description': 'module ' + mod['name']}
    if not mod['export']:
        cfg['export'] = False
    if mod['group']:
        cfg['group'] = mod['group']
    if mod['vis'] != 1:
        cfg['visibility'] = mod['vis']
    if mod.get('mixin') == 'om' and mod.get('output_module'):
        cfg['output_module'] = mod['output_module']
    for key, value in mod.get('cfg_auto', []):
        # a configuration naming module properties which the code derives from the class
        cfg[key] = value
    for a in mod['accs']:
        ac = {}
        if 'cfg_export' in a:
            ac['export'] = a['cfg_export']
        if a['kind'] == 'p':
            ac.update(a.get('cfg_dt') or {})          # datatype properties narrowed by the configuration
        if a['kind'] == 'p' and a.get('const_cfg') is not None:
            ac['constant'] = G.untag(a['const_cfg'])
        if ac:
            cfg[a['attr']] = ac
    return cfg


def desc_of_obj(o):
    """descriptor (harness/dtgen.py) of a real datatype object"""
    from frappy import datatypes as T
    e = G.enc_float
    if isinstance(o, T.FloatRange):
        return {'t': 'float', 'min': e(float(o.min)), 'max': e(float(o.max))}
    if isinstance(o, T.IntRange):
        return {'t': 'int', 'min': o.min, 'max': o.max}
    if isinstance(o, T.ScaledInteger):
        return {'t': 'scaled', 'scale': e(o.scale), 'min': e(o.min), 'max': e(o.max)}
    if isinstance(o, T.BoolType):
        return {'t': 'bool'}
    if isinstance(o, T.EnumType):
        return {'t': 'enum', 'members': [[m.name, int(m.value)] for m in o._enum.members]}
    if isinstance(o, T.StringType):
        return {'t': 'string', 'min': o.minchars, 'max': o.maxchars, 'utf8': bool(o.isUTF8)}
    if isinstance(o, T.BLOBType):
        return {'t': 'blob', 'min': o.minbytes, 'max': o.maxbytes}
    if isinstance(o, T.ArrayOf):
        return {'t': 'array', 'elem': desc_of_obj(o.members), 'min': o.minlen, 'max': o.maxlen}
    if isinstance(o, T.TupleOf):
        return {'t': 'tuple', 'elems': [desc_of_obj(x) for x in o.members]}
    if isinstance(o, T.StructOf):
        return {'t': 'struct', 'members': [[n, desc_of_obj(x)] for n, x in o.members.items()],
                'optional': list(o.optional), 'client': bool(o.client)}
    raise ValueError(f'datatype outside the modelled subset: {o!r}')


class _NoClient:
    """view of a datatype the client built from the report: the `client` mark of structs is not part of the datainfo"""
    def __init__(self, o):
        self._o = o

    def __getattr__(self, name):
        if name == 'client':
            return False
        v = getattr(self._o, name)
        if name == 'members':
            if isinstance(v, dict):
                return {k: _NoClient(x) for k, x in v.items()}
            if isinstance(v, (list, tuple)):
                return [_NoClient(x) for x in v]
            return _NoClient(v)
        return v


def _gd(o, described=False):
    return G.gal_dtype(desc_of_obj(o), _NoClient(o) if described else o)


def _exc_name(e):
    return type(e).__name__


def _strip(data):
    """remove the time stamp qualifier of a [value, qualifiers] pair"""
    if isinstance(data, list) and len(data) == 2 and isinstance(data[1], dict) and set(data[1]) <= {'t'}:
        return [data[0], {}]
    return data


def _updates(conn):
    res = []
    for m in conn.msgs:
        mod, _, w = m[1].partition(':')
        if m[0] == 'update':
            res.append([mod, None if w in ('False', '') else w, ['v', G.tag(m[2][0])]])
        elif m[0] == 'error_update':
            res.append([mod, None if w in ('False', '') else w, ['e', m[2][0]]])
        else:
            res.append([mod, w, ['?', m[0]]])
    del conn.msgs[:]
    return res


def _client_verdict(dtobj, payload):
    """does the datatype a client builds from the report accept the payload (transport form)"""
    try:
        dtobj.validate(dtobj.import_value(payload))
        return 'ok'
    except Exception as e:
        return _exc_name(e)


def _importable(dtobj, value):
    try:
        dtobj.import_value(value)
        return True
    except Exception:
        return False


def _stale(secnode, desc):
    """described parameters whose described datainfo is not the datainfo of the live Parameter object of the node
    (both through JSON): [module, wire, described, in use]"""
    res = []
    for mn, md in desc['modules'].items():
        mobj = secnode.modules.get(mn)
        for w, ad in md['accessibles'].items():
            attr = mobj.accessiblename2attr.get(w) if mobj is not None else None
            aobj = mobj.accessibles.get(attr) if attr is not None else None
            if aobj is None:
                continue
            try:
                used = json.loads(json.dumps(aobj.datatype.export_datatype()))
                shown = json.loads(json.dumps(ad['datainfo']))
            except Exception:
                continue
            if used != shown:
                res.append([mn, str(w), json.dumps(shown, sort_keys=True)[:300], json.dumps(used, sort_keys=True)[:300]])
    return res


def _acc_model_data(name, aobj_cls, aobj):
    """what the model needs about one accessible of the instantiated module, read from the run-time objects"""
    from frappy.params import Parameter
    if isinstance(aobj, Parameter):
        dt = aobj.datatype
        return {'kind': 'p', 'gd': _gd(dt), 'dtdefault': G.tag(dt.default)}       # dt: the datatype of the INSTANCE
    c = {'kind': 'c'}
    c['garg'] = _gd(aobj.argument) if aobj.argument is not None else None
    c['gres'] = _gd(aobj.result) if aobj.result is not None else None
    return c


def _inherited_spec(attr, cobj):
    """an accessible the generated class inherits from its interface class, described like a generated one"""
    from frappy.params import Parameter
    spec = {'attr': attr, 'export': cobj.export, 'group': cobj.group, 'vis': int(cobj.visibility), 'inherited': True}
    if isinstance(cobj, Parameter):
        dt = cobj.datatype
        dflt = cobj.propertyValues.get('default')
        spec.update(kind='p', unit=getattr(dt, 'unit', '') or '', readonly=bool(cobj.readonly), const_cls=None, const_cfg=None,
                    default=None if dflt is None else G.tag(dflt))
    else:
        spec.update(kind='c', ret=['none'])
    return spec


def run_case(case):
    import frappy.secnode
    from frappy.datatypes import get_datatype
    from frappy.lib import generalConfig
    saved_cfg = generalConfig._config
    saved_ver = frappy.secnode.get_version
    generalConfig.testinit(omit_unchanged_within=0)
    frappy.secnode.get_version = lambda: 'verif'
    try:
        classes = []
        try:
            for i, mod in enumerate(case['mods']):
                classes.append(_make_class(mod, i))
            srv = _Srv({mod['name']: _cfg_of(mod, cls) for mod, cls in zip(case['mods'], classes)})
        except Exception as e:
            return {'build_error': f'{_exc_name(e)}: {e}'}
        if srv.failed or srv.secnode.errors or len(srv.secnode.modules) != len(case['mods']):
            # the implementation refused the configuration: the model is told what the classes say
            from frappy.modulebase import Feature
            mods = []
            for mod, cls in zip(case['mods'], classes):
                own = {a['attr']: a for a in mod['accs']}
                accs = [{'spec': own.get(attr) or _inherited_spec(attr, cobj), 'rt': _acc_model_data(attr, cobj, cobj)}
                        for attr, cobj in cls.accessibles.items() if not cobj.optional]
                mods.append({'impl': f'{cls.__module__}.{cls.__name__}',
                             'mro': [[b.__name__, Feature in b.__bases__] for b in cls.__mro__], 'accs': accs})
            return {'rejected': '; '.join(srv.secnode.errors)[:400], 'mods': mods, 'steps': [], 'env': G.pyenv_for([])}

        # what the model is told about the instantiated modules (order of accessibles, run-time datatypes, MRO)
        from frappy.modulebase import Feature
        mods = []
        for mod, cls in zip(case['mods'], classes):
            mobj = srv.secnode.modules[mod['name']]
            own = {a['attr']: a for a in mod['accs']}
            accs = []
            for attr, aobj in mobj.accessibles.items():
                spec = own.get(attr) or _inherited_spec(attr, cls.accessibles[attr])
                accs.append({'spec': spec, 'rt': mobj._built[attr]})          # as constructed, before start-up
            mods.append({'impl': f'{cls.__module__}.{cls.__name__}',
                         'mro': [[b.__name__, Feature in b.__bases__] for b in cls.__mro__], 'accs': accs})

        for mod in case['mods']:
            srv.secnode.modules[mod['name']]._hw = {a['attr']: G.untag(a['hw0']) for a in mod['accs']
                                                    if a['kind'] == 'p' and a.get('rd')}
        tokens = {}          # identity of a read error (type, arguments) -> small number; the message text is runtime data

        def err_token(modname, attr):
            mobj = srv.secnode.modules.get(modname)
            pobj = mobj.parameters.get(attr) if mobj is not None and isinstance(attr, str) else None
            err = getattr(pobj, 'readerror', None)
            if err is None:
                return 0
            key = (type(err).__name__, repr(err.args), repr(sorted(getattr(err, 'kwds', {}).items())))
            return tokens.setdefault(key, len(tokens) + 1)

        conn = _Conn()
        first_desc = None
        client = {}          # (module, wire) -> ('p', datatype) | ('c', argument datatype or None)
        steps = []
        strings = []
        for op in case['ops']:
            kind = op[0]
            st = {}
            try:
                if kind == 'describe':
                    r = srv.dispatcher.handle_request(conn, ('describe', '', None))
                    desc = r[2]
                    text = json.dumps(desc)
                    try:
                        strict = json.loads(json.dumps(desc, allow_nan=False)) == desc
                    except ValueError:
                        strict = False
                    st['reply'] = ['desc', _canon_desc(desc)]
                    st['text'] = text
                    st['strict'] = strict
                    st['stale'] = _stale(srv.secnode, desc)
                    if first_desc is None:
                        first_desc = desc
                        for mn, md in desc['modules'].items():
                            for w, ad in md['accessibles'].items():
                                cdt = get_datatype(ad['datainfo'])
                                client[(mn, str(w))] = ('c', cdt.argument) if ad['datainfo'].get('type') == 'command' else ('p', cdt)
                elif kind == 'read':
                    r = srv.dispatcher.handle_request(conn, ('read', f'{op[1]}:{op[2]}', None))
                    st['reply'] = ['data', G.tag(_strip(r[2]))]
                    st['raw'] = G.tag(r[2][0]) if isinstance(r[2], list) and len(r[2]) == 2 and isinstance(r[2][1], dict) else None
                elif kind == 'hwset':
                    # the hardware changes; the node is not told
                    srv.secnode.modules[op[1]]._hw[op[2]] = G.untag(op[3])
                    st['reply'] = ['none']
                elif kind == 'change':
                    payload = G.untag(op[3])
                    c = client.get((op[1], op[2]))
                    if c and c[0] == 'p':
                        st['client'] = _client_verdict(c[1], payload)
                    r = srv.dispatcher.handle_request(conn, ('change', f'{op[1]}:{op[2]}', payload))
                    st['reply'] = ['data', G.tag(_strip(r[2]))]
                    st['raw'] = G.tag(r[2][0])
                elif kind == 'do':
                    payload = G.untag(op[3])
                    c = client.get((op[1], op[2]))
                    if c and c[0] == 'c':
                        if c[1] is None:
                            st['client'] = 'ok' if payload is None else 'WrongTypeError'
                        else:
                            st['client'] = 'WrongTypeError' if payload is None else _client_verdict(c[1], payload)
                    r = srv.dispatcher.handle_request(conn, ('do', f'{op[1]}:{op[2]}', payload))
                    st['reply'] = ['data', G.tag(_strip(r[2]))]
                elif kind == 'activate':
                    spec = op[1]
                    text = None if spec is None else ':'.join(spec)
                    r = srv.dispatcher.handle_request(conn, ('activate', text, None))
                    st['reply'] = ['active']
                elif kind == 'dset':
                    setattr(srv.secnode.modules[op[1]], op[2], G.untag(op[3]))
                    st['reply'] = ['none']
                else:
                    raise ValueError(op)
            except Exception as e:       # every exception of the code under test is data
                st['reply'] = ['err', _exc_name(e)]
            st['upds'] = _updates(conn)
            if kind == 'dset':
                st['tok'] = err_token(op[1], op[2])
            elif kind == 'read':
                mobj = srv.secnode.modules.get(op[1])
                st['tok'] = err_token(op[1], mobj.accessiblename2attr.get(op[2])) if mobj is not None else 0
            # can a client import what the node emitted for described parameters
            imp = []
            emitted = [(u[0], u[1], u[2][1]) for u in st['upds'] if u[2][0] == 'v']
            if kind in ('read', 'change') and st['reply'][0] == 'data' and st.get('raw') is not None:
                emitted.append((op[1], op[2], st['raw']))
            for mn, w, tv in emitted:
                c = client.get((mn, w))
                if c and c[0] == 'p':
                    imp.append([mn, w, _importable(c[1], G.untag(tv))])
            st['imp'] = imp
            steps.append(st)
            if len(op) > 3:
                strings.append(op[3])
        for mod in case['mods']:
            strings.extend(a['hw0'] for a in mod['accs'] if a['kind'] == 'p' and a.get('rd'))
        env = G.pyenv_for(strings)
        return {'mods': mods, 'steps': steps, 'env': env, 'described': sorted([list(k) for k in client])}
    finally:
        generalConfig._config = saved_cfg
        frappy.secnode.get_version = saved_ver


def _canon_desc(desc):
    """structure report -> JSON-able canonical form (datainfo as Gallina dtype text of the datatype a client builds)"""
    from frappy.datatypes import get_datatype
    mods = []
    for mn, md in desc['modules'].items():
        accs = []
        for w, ad in md['accessibles'].items():
            info = ad['datainfo']
            cdt = get_datatype(info)
            item = {'wire': str(w), 'group': ad.get('group'), 'vis': ad.get('visibility')}
            if info.get('type') == 'command':
                item.update(kind='c', garg=_gd(cdt.argument, True) if cdt.argument is not None else None,
                            gres=_gd(cdt.result, True) if cdt.result is not None else None)
            else:
                item.update(kind='p', gd=_gd(cdt, True), unit=info.get('unit', ''), readonly=ad.get('readonly'),
                            has_constant='constant' in ad, constant=G.tag(ad['constant']) if 'constant' in ad else None)
            accs.append(item)
        mods.append({'name': mn, 'accs': accs, 'group': md.get('group'), 'vis': md.get('visibility'),
                     'impl': md.get('implementation'), 'ifaces': md.get('interface_classes'), 'features': md.get('features')})
    return mods


# ------------------------------------------------------------------ encoding into Gallina
def gs(s):
    return G.gal_str(G.cps(s))


def g_export(e):
    if e is True:
        return 'ExTrue'
    if e is False:
        return 'ExFalse'
    return f'(ExName {gs(e)})'


def g_opt(x, enc):
    return 'None' if x is None else f'(Some {enc(x)})'


def g_acfg(a):
    spec, rt = a['spec'], a['rt']
    if spec['kind'] == 'p':
        body = ('(BParam {| pc_dt := %s; pc_dtdefault := %s; pc_unit := %s; pc_readonly := %s; pc_const_cls := %s; '
                'pc_const_cfg := %s; pc_default := %s; pc_hw := %s |})'
                % (rt['gd'], G.gal_val(rt['dtdefault']), gs(spec['unit']), gal.boolean(spec['readonly']),
                   g_opt(spec['const_cls'], G.gal_val), g_opt(spec.get('const_cfg'), G.gal_val), g_opt(spec['default'], G.gal_val),
                   g_opt(spec['hw0'] if spec.get('rd') else None, G.gal_val)))
    else:
        body = ('(BCmd {| cc_arg := %s; cc_res := %s; cc_ret := %s |})'
                % (g_opt(rt['garg'], str), g_opt(rt['gres'], str), G.gal_val(spec['ret'])))
    return ('{| ac_attr := %s; ac_export := %s; ac_cfg_export := %s; ac_group := %s; ac_vis := %s; ac_body := %s |}'
            % (gs(spec['attr']), g_export(spec['export']), g_opt(spec.get('cfg_export'), g_export) if 'cfg_export' in spec else 'None',
               gs(spec['group']), gal.z(spec['vis']), body))


AKEY = {'implementation': 'KImpl', 'interface_classes': 'KIfaces', 'features': 'KFeatures'}


def g_auto(kv):
    key, value = kv
    if isinstance(value, str):
        return f'({AKEY[key]}, MPStr {gs(value)})'
    if isinstance(value, list) and all(isinstance(x, str) for x in value):
        return f'({AKEY[key]}, MPList {gal.lst(value, gs)})'
    raise ValueError(f'configured module property outside the modelled kinds: {kv!r}')


def g_mcfg(mod, rt):
    return ('{| mc_name := %s; mc_export := %s; mc_group := %s; mc_vis := %s; mc_impl := %s; mc_mro := %s; mc_accs := %s; '
            'mc_cfg_auto := %s |}'
            % (gs(mod['name']), gal.boolean(mod['export']), gs(mod['group']), gal.z(mod['vis']), gs(rt['impl']),
               gal.lst(rt['mro'], lambda p: f'({gs(p[0])}, {gal.boolean(p[1])})'),
               '[' + ';\n      '.join(g_acfg(a) for a in rt['accs']) + ']', gal.lst(mod.get('cfg_auto', []), g_auto)))


def g_op(op, st=None):
    k = op[0]
    tok = gal.N((st or {}).get('tok', 0))
    if k == 'describe':
        return 'ODescribe'
    if k == 'read':
        return f'(ORead {gs(op[1])} {gs(op[2])} {tok})'
    if k == 'hwset':
        return f'(OHwSet {gs(op[1])} {gs(op[2])} {G.gal_val(op[3])})'
    if k == 'change':
        return f'(OChange {gs(op[1])} {gs(op[2])} {G.gal_val(op[3])})'
    if k == 'do':
        return f'(ODo {gs(op[1])} {gs(op[2])} {G.gal_val(op[3])})'
    if k == 'activate':
        sp = op[1]
        if sp is None:
            return '(OActivate None)'
        return '(OActivate (Some (%s, %s)))' % (gs(sp[0]), g_opt(sp[1] if len(sp) > 1 else None, gs))
    if k == 'dset':
        return f'(ODriverSet {gs(op[1])} {gs(op[2])} {G.gal_val(op[3])} {tok})'
    raise ValueError(op)


EXC = {'RangeError': 'ERange', 'WrongTypeError': 'EWrongType', 'TypeError': 'EType', 'ValueError': 'EValue',
       'OverflowError': 'EOverflow', 'KeyError': 'EKey', 'AttributeError': 'EAttr', 'ZeroDivisionError': 'EZeroDiv'}
RERR = {'NoSuchModuleError': 'RNoMod', 'NoSuchParameterError': 'RNoPar', 'NoSuchCommandError': 'RNoCmd',
        'ReadOnlyError': 'RReadOnly'}


def g_desc(mods):
    def acc(a):
        g = g_opt(a['group'], gs)
        v = g_opt(a['vis'], gal.z)
        if a['kind'] == 'c':
            return f'({gs(a["wire"])}, DC {g} {v} {g_opt(a["garg"], str)} {g_opt(a["gres"], str)})'
        if not isinstance(a['readonly'], bool):
            raise ValueError('parameter description without readonly flag')
        p = ('{| pd_dt := %s; pd_unit := %s; pd_readonly := %s; pd_constant := %s |}'
             % (a['gd'], gs(a['unit']), gal.boolean(a['readonly']), g_opt(a['constant'], G.gal_val) if a['has_constant'] else 'None'))
        return f'({gs(a["wire"])}, DP {g} {v} {p})'

    def mod(m):
        return ('(%s, {| md_accs := %s; md_group := %s; md_vis := %s; md_impl := %s; md_ifaces := %s; md_features := %s |})'
                % (gs(m['name']), '[' + '; '.join(acc(a) for a in m['accs']) + ']', g_opt(m['group'], gs), g_opt(m['vis'], gal.z),
                   gs(m['impl']), gal.lst(m['ifaces'], gs), gal.lst(m['features'], gs)))
    return '[' + ';\n    '.join(mod(m) for m in mods) + ']'


def g_reply(r):
    k = r[0]
    if k == 'desc':
        return f'(RpDesc {g_desc(r[1])})'
    if k == 'data':
        return f'(RpData {G.gal_val(r[1])})'
    if k == 'active':
        return 'RpActive'
    if k == 'none':
        return 'RpNone'
    if k == 'err':
        if r[1] in RERR:
            return f'(RpErr {RERR[r[1]]})'
        return f'(RpErr (RExc {EXC.get(r[1], "EOther")}))'
    raise ValueError(r)


def g_upd(u):
    body = f'(UV {G.gal_val(u[2][1])})' if u[2][0] == 'v' else 'UE' if u[2][0] == 'e' else 'UX'
    return '{| u_mod := %s; u_wire := %s; u_body := %s |}' % (gs(u[0]), g_opt(u[1], gs), body)


def encode(case, obs):
    if 'build_error' in obs:
        raise ValueError('the implementation rejected the generated configuration: ' + obs['build_error'])
    cfg = '[' + ';\n   '.join(g_mcfg(m, rt) for m, rt in zip(case['mods'], obs['mods'])) + ']'
    ops = '[' + '; '.join(g_op(o, st) for o, st in zip(case['ops'], obs['steps'])) + ']'
    # identical structure reports are written once (let-bound), which keeps the shards small
    shared = {}
    replies = []
    for s in obs['steps']:
        if s['reply'][0] == 'desc':
            term = g_desc(s['reply'][1])
            name = shared.setdefault(term, f'd{len(shared)}')
            replies.append(f'(RpDesc {name})')
        else:
            replies.append(g_reply(s['reply']))
    steps = '[' + ';\n   '.join('{| o_reply := %s; o_upds := %s |}' % (r, gal.lst(s['upds'], g_upd))
                                for r, s in zip(replies, obs['steps'])) + ']'
    if 'rejected' in obs:
        ops = '[]'
    lets = ''.join(f'let {name} : description := {term} in\n  ' for term, name in shared.items())
    links = gal.lst(case_links(case), lambda l: f'({gs(l[0])}, {gs(l[1])})')
    return '(%s{| c_env := %s; c_cfg := %s; c_ops := %s; c_obs := %s; c_rejected := %s; c_links := %s |})' % (
        lets, G.gal_pyenv(obs['env']), cfg, ops, steps, gal.boolean('rejected' in obs), links)


def case_links(case):
    """(control loop, configured output module) in configuration order"""
    return [[m['name'], m['output_module']] for m in case['mods'] if m.get('mixin') == 'om' and m.get('output_module')]


def model_result_term(case, obs):
    return f'model_result ({encode(case, obs)})'


# ------------------------------------------------------------------ the property itself, on the observations
def spec_wire(attr, export):
    """wire name rule of the specification: predefined names bare, custom names with a leading underscore,
    an explicit string as it is, False (or an empty name) hidden"""
    if export is True:
        return attr if attr in PREDEFINED_PARAMS + PREDEFINED_CMDS else '_' + attr
    return export or None


def spec_accessibles(mod):
    """[(attr, kind, wire name or None, spec)] of a module as the generated class + configuration intend it"""
    res = []
    own = {a['attr'] for a in mod['accs']}
    for attr in BASE_ACCESSIBLES[mod['base']] + MIXIN_ACCESSIBLES.get(mod.get('mixin'), []):
        if attr not in own:
            res.append((attr, 'c' if attr in PREDEFINED_CMDS else 'p', attr if mod['export'] else None, None))
    for a in mod['accs']:
        export = a['cfg_export'] if 'cfg_export' in a else a['export']
        res.append((a['attr'], a['kind'], spec_wire(a['attr'], export) if mod['export'] else None, a))
    return res


def oracle(case, obs):
    fails = []

    def fail(cls, what, **kw):
        fails.append(dict({'class': cls, 'what': what}, **kw))

    if 'build_error' in obs:
        return fails
    if 'rejected' in obs:
        # two accessibles of a module under one wire name cannot both be listed: refusing the configuration is the
        # only way to keep the report true; any other refusal of a generated configuration is not expected
        # (a configuration that names an automatic module property may be refused as well: nothing false is described then)
        if not any(m['export'] and _dup_wires(m) for m in case['mods']) and not any(m.get('cfg_auto') for m in case['mods']):
            fail('configuration-rejected', 'the node refused a configuration with distinct wire names: ' + obs['rejected'])
        return fails
    steps = obs['steps']
    descs = [(i, s) for i, (op, s) in enumerate(zip(case['ops'], steps)) if op[0] == 'describe' and s['reply'][0] == 'desc']
    for i, (op, s) in enumerate(zip(case['ops'], steps)):
        if op[0] == 'describe' and s['reply'][0] != 'desc':
            fail('describe-fails', f'op {i}: describe answered {s["reply"]}', op_index=i)
    if not descs:
        return fails
    d0 = descs[0][1]['reply'][1]
    described = {}           # (module, wire) -> description item
    for m in d0:
        for a in m['accs']:
            described[(m['name'], a['wire'])] = a
    # --- strict JSON, stable between calls
    for i, s in descs:
        if not s['strict']:
            fail('strict-json', f'op {i}: the structure report is not strict JSON (or does not survive a JSON round trip)', op_index=i)
            break
    # --- the description lists for every parameter the datainfo the node uses (current, not a stale copy)
    for i, s in descs:
        for mn, w, shown, used in s.get('stale', []):
            fail('description-current', f'op {i}: {mn}:{w} is described with datainfo {shown} but the node works with {used}',
                 op_index=i, module=mn, wire=w)
    for i, s in descs[1:]:
        if s['text'] != descs[0][1]['text']:
            fail('stable', f'op {i}: the structure report differs from the one of op {descs[0][0]}', op_index=i)
            break
    # --- lists exactly the exported modules and accessibles under their wire names
    spec_mods = {m['name']: m for m in case['mods']}
    spec_index = {m['name']: i for i, m in enumerate(case['mods'])}
    want_mods = [m['name'] for m in case['mods'] if m['export']]
    got_mods = [m['name'] for m in d0]
    if sorted(want_mods) != sorted(got_mods):
        fail('lists-exactly', f'described modules {got_mods}, exported modules {want_mods}', module=None,
             missing=sorted(set(want_mods) - set(got_mods)), extra=sorted(set(got_mods) - set(want_mods)))
    for m in d0:
        sm = spec_mods.get(m['name'])
        if sm is None or not sm['export']:
            continue
        want = [(w, k) for _, k, w, _ in spec_accessibles(sm) if w]
        got = [(a['wire'], a['kind']) for a in m['accs']]
        if sorted(want) != sorted(got):
            fail('lists-exactly', f'module {m["name"]}: described accessibles {sorted(got)}, exported accessibles {sorted(want)}',
                 module=m['name'], missing=sorted({w for w, _ in want} - {w for w, _ in got}),
                 extra=sorted({w for w, _ in got} - {w for w, _ in want}),
                 duplicates=sorted({w for w, _ in want if [x for x, _ in want].count(w) > 1}))
        # interface class and features match the implementing class
        want_if = [] if sm['base'] == 'Module' else [sm['base']]
        if m['ifaces'] != want_if:
            fail('interface-class', f'module {m["name"]}: interface_classes {m["ifaces"]} but the class implements {want_if}', module=m['name'])
        if m['features'] != list(sm['features']):
            fail('features', f'module {m["name"]}: features {m["features"]} but the class has {sm["features"]}', module=m['name'])
        # the implementing class is the one the harness generated for this module (its qualified name is harness knowledge)
        want_impl = obs['mods'][spec_index[m['name']]]['impl']
        if m['impl'] != want_impl or not want_impl.endswith(f'.Gen{spec_index[m["name"]]}{sm["base"]}'):
            fail('implementation', f'module {m["name"]}: implementation {m["impl"]!r} but the module is an instance of {want_impl!r}',
                 module=m['name'])
        if (m['group'] or '') != sm['group'] or (m['vis'] or 1) != sm['vis']:
            fail('module-properties', f'module {m["name"]}: group/visibility {m["group"]}/{m["vis"]}, configured {sm["group"]}/{sm["vis"]}',
                 module=m['name'])
    # --- behaviour against the report
    ro_seen = {}
    for i, (op, s) in enumerate(zip(case['ops'], steps)):
        k = op[0]
        rep = s['reply']
        # nothing undescribed is emitted
        for u in s['upds']:
            if (u[0], u[1]) not in described:
                fail('undescribed-update', f'op {i} ({op[:3]}): update for {u[0]}:{u[1]} which the report does not list',
                     op_index=i, module=u[0], wire=u[1])
        for mn, w, ok in s.get('imp', []):
            if not ok:
                fail('emitted-importable', f'op {i}: a value emitted for {mn}:{w} cannot be imported with the described datainfo',
                     op_index=i, module=mn, wire=w)
        if k not in ('read', 'change', 'do', 'activate'):
            continue
        if k == 'activate':
            if op[1] is None:
                continue
            mn = op[1][0]
            w = op[1][1] if len(op[1]) > 1 else None
            target_described = (mn in got_mods) if w is None else ((mn, w) in described)
        else:
            mn, w = op[1], op[2]
            target_described = (mn, w) in described
        if not target_described:
            if rep[0] != 'err' or rep[1] not in ('NoSuchModuleError', 'NoSuchParameterError', 'NoSuchCommandError'):
                fail('undescribed-access', f'op {i}: {k} {mn}:{w} is not described but was answered with {rep[:2]}',
                     op_index=i, module=mn, wire=w, request=k)
            continue
        if w is None:
            continue
        item = described[(mn, w)]
        if rep[0] == 'err' and rep[1] in ('NoSuchModuleError', 'NoSuchParameterError', 'NoSuchCommandError') and \
                ((k in ('read', 'change') and item['kind'] == 'p') or (k == 'do' and item['kind'] == 'c') or k == 'activate' and item['kind'] == 'p'):
            fail('described-unreachable', f'op {i}: {k} {mn}:{w} is described but answered with {rep[1]}',
                 op_index=i, module=mn, wire=w, request=k)
            continue
        if item['kind'] == 'p' and k == 'change':
            refused = rep[0] == 'err' and rep[1] == 'ReadOnlyError'
            flagged = bool(item['readonly']) or item['has_constant']
            if flagged != refused:
                fail('flags-predict', f'op {i}: change {mn}:{w}: described readonly={item["readonly"]} constant={item["has_constant"]} '
                     f'but the request was {"refused as read-only" if refused else "not refused as read-only: " + str(rep[:2])}',
                     op_index=i, module=mn, wire=w)
            elif not refused and 'client' in s:
                node_ok = rep[0] == 'data'
                if node_ok != (s['client'] == 'ok'):
                    fail('datainfo-same-verdict', f'op {i}: change {mn}:{w} {G.untag(op[3])!r}: node {rep[:2]}, described datainfo {s["client"]}',
                         op_index=i, module=mn, wire=w)
        if item['kind'] == 'c' and k == 'do' and 'client' in s:
            node_ok = rep[0] == 'data'
            if node_ok != (s['client'] == 'ok'):
                fail('datainfo-same-verdict', f'op {i}: do {mn}:{w} {G.untag(op[3])!r}: node {rep[:2]}, described argument datainfo {s["client"]}',
                     op_index=i, module=mn, wire=w)
        if item['kind'] == 'p' and k == 'read' and item['has_constant']:
            want = ['list', [item['constant'], ['dict', []]]]
            if rep[0] != 'data' or rep[1] != want:
                fail('constant-read', f'op {i}: read {mn}:{w} answered {rep[:2]} but the described constant is {G.untag(item["constant"])!r}',
                     op_index=i, module=mn, wire=w)
    return fails


def _mod(case, name):
    return next((m for m in case['mods'] if m['name'] == name), None)


def _dup_wires(mod):
    ws = [w for _, _, w, _ in spec_accessibles(mod) if w]
    return {w for w in ws if ws.count(w) > 1}


def _cls_nan_constant(case, obs, failure):
    """a NaN constant of a double parameter is put into the structure report as the non-JSON token NaN"""
    if failure['class'] != 'strict-json':
        return False
    for m in case['mods']:
        for a in m['accs']:
            for key in ('const_cls', 'const_cfg'):
                c = a.get(key)
                if a['kind'] == 'p' and c is not None and c == ['float', 'nan'] and m['export']:
                    return True
    return False


FINDING_CLASSIFIERS = {
    'nan_constant_not_strict_json': _cls_nan_constant,
}


def nontrivial_key(case, obs):
    if 'build_error' in obs:
        return None
    if 'rejected' in obs:
        return json.dumps([case['mods'], 'rejected'], sort_keys=True)
    if not any(s['reply'][0] == 'data' or s['upds'] for s in obs['steps']):
        return None
    return json.dumps([case['mods'], case['ops']], sort_keys=True)


def outcome_labels(case, obs):
    if 'build_error' in obs:
        return ['build_error']
    if 'rejected' in obs:
        return ['configuration rejected']
    labs = set()
    for op, s in zip(case['ops'], obs['steps']):
        labs.add(f'{op[0]}:' + (s['reply'][1] if s['reply'][0] == 'err' else s['reply'][0]))
        if s['upds']:
            labs.add('updates')
    return sorted(labs)


def sample_repr(case, obs):
    if 'build_error' in obs or 'rejected' in obs:
        return {'case': case, 'build_error': obs.get('build_error') or obs.get('rejected')}
    return {'mods': [{k: v for k, v in m.items()} for m in case['mods']][:2], 'ops': case['ops'][:6],
            'steps': [{'reply': s['reply'] if s['reply'][0] != 'desc' else ['desc', '...'], 'upds': s['upds']}
                      for s in obs['steps'][:6]]}


# ------------------------------------------------------------------ generators
F = G.enc_float
CUSTOM = ['foo', 'bar', 'baz', 'p1', 'x_y', 'Temp']
EXPORT_NAMES = ['_foo', '_bar', 'custom', 'xx', '_p1']
UNITS = ['', '', 'K', 'mm/s', '$', '$/min', 'm$']
GROUPS = ['', '', '', 'grp']


def gen_type(rng, leaf_only=False):
    kinds = ['float', 'float', 'int', 'int', 'scaled', 'bool', 'enum', 'string']
    if not leaf_only:
        kinds += ['array', 'struct']
    t = rng.choice(kinds)
    if t == 'float':
        a, b = rng.choice([(-G.FMAX, G.FMAX), (0.0, 10.0), (-5.5, 5.5), (1.0, 100.0), (-G.FMAX, 0.0), (2.5, 2.5)])
        return {'t': 'float', 'min': F(a), 'max': F(b)}
    if t == 'int':
        a, b = rng.choice([(-16777216, 16777216), (0, 10), (-3, 3), (1, 255), (5, 5), (0, 2 ** 53)])
        return {'t': 'int', 'min': a, 'max': b}
    if t == 'scaled':
        scale = rng.choice([0.1, 0.5, 0.25, 1.0, 2.0, 1e-3])
        k1, k2 = rng.choice([(0, 100), (-10, 10), (1, 1000), (-1000, 0)])
        return {'t': 'scaled', 'scale': F(scale), 'min': F(k1 * scale), 'max': F(k2 * scale)}
    if t == 'bool':
        return {'t': 'bool'}
    if t == 'enum':
        n = rng.randint(1, 3)
        names = rng.sample(['off', 'on', 'auto', 'a', 'b'], n)
        vals = sorted(rng.sample([0, 1, 2, 3, 5, 10], n))
        return {'t': 'enum', 'members': [[a, b] for a, b in zip(names, vals)]}
    if t == 'string':
        a = rng.choice([0, 0, 1])
        b = rng.choice([a + 2, 8, 1 << 64])
        return {'t': 'string', 'min': a, 'max': b, 'utf8': rng.random() < 0.5}
    if t == 'array':
        n = rng.randint(1, 3)
        n2 = n + rng.choice([0, 0, 0, 1, 2])
        a, b = rng.choice([(-16777216, 16777216), (0, 10), (-3, 3)])
        return {'t': 'array', 'elem': {'t': 'int', 'min': a, 'max': b}, 'min': rng.choice([n, n, 0]) if n2 > n else n, 'max': n2}
    n = rng.randint(1, 3)
    names = rng.sample(['a', 'b', 'c', 'x'], n)
    members = [[nm, gen_type(rng, True)] for nm in names]
    members = [[nm, d if d['t'] != 'scaled' else {'t': 'int', 'min': 0, 'max': 10}] for nm, d in members]
    optional = [] if rng.random() < 0.6 else [nm for nm in names if rng.random() < 0.5]
    return {'t': 'struct', 'members': members, 'optional': optional, 'client': False}


def valid_internal(rng, d):
    """a value the datatype converts without complaint (internal form, builtin kinds only)"""
    t = d['t']
    if t == 'float':
        a, b = G.dec_float(d['min']), G.dec_float(d['max'])
        c = [v for v in [a, b, 0.0, 1.0, 2.5, 3.0, -1.5, 7.25, 100.0] if a <= v <= b]
        v = rng.choice(c)
        return int(v) if rng.random() < 0.2 and v == int(v) and abs(v) < 1e9 else v
    if t == 'int':
        return rng.choice([v for v in [d['min'], d['max'], 0, 1, 2, 3, 5, 7, 100, -2] if d['min'] <= v <= d['max']])
    if t == 'scaled':
        s = G.dec_float(d['scale'])
        k1, k2 = round(G.dec_float(d['min']) / s), round(G.dec_float(d['max']) / s)
        return rng.choice([k1, k2, rng.randint(k1, k2)]) * s
    if t == 'bool':
        return rng.choice([True, False])
    if t == 'enum':
        n, v = rng.choice(d['members'])
        return rng.choice([n, v])
    if t == 'string':
        n = rng.randint(d['min'], min(d['max'], d['min'] + 4))
        return ''.join(rng.choice('abXY 09' + ('é' if d['utf8'] else '')) for _ in range(n))
    if t == 'array':
        return [valid_internal(rng, d['elem']) for _ in range(rng.randint(d['min'], d['max']))]
    return {n: valid_internal(rng, x) for n, x in d['members']}


def wire_valid(rng, d):
    t = d['t']
    if t == 'scaled':
        s = G.dec_float(d['scale'])
        k1, k2 = round(G.dec_float(d['min']) / s), round(G.dec_float(d['max']) / s)
        return rng.choice([k1, k2, rng.randint(k1, k2)])
    if t == 'enum':
        return rng.choice(d['members'])[1]
    if t == 'array':
        return [wire_valid(rng, d['elem']) for _ in range(rng.randint(d['min'], d['max']))]
    if t == 'struct':
        return {n: wire_valid(rng, x) for n, x in d['members'] if not (n in d['optional'] and rng.random() < 0.4)}
    return valid_internal(rng, d)


def payload(rng, d):
    """transport values from the boundary catalogue of the datatype (inside the region untouched by the C01 findings)"""
    t = d['t']
    r = rng.random()
    if r < 0.45:
        return wire_valid(rng, d)
    if t == 'float':
        a, b = G.dec_float(d['min']), G.dec_float(d['max'])
        return rng.choice([a, b, math.nextafter(a, -math.inf), math.nextafter(b, math.inf), a - 1, b + 1, a * (1 - 1e-7), b * (1 + 1e-7),
                           0, 3, True, None, 'x', '1.5', math.inf, -math.inf, math.nan, [1.0], 1e308, 2 ** 70])
    if t == 'int':
        a, b = d['min'], d['max']
        return rng.choice([a, b, a - 1, b + 1, float(a), a + 0.5, True, None, '3', [a], 2 ** 70, -2 ** 70, 1e300])
    if t == 'scaled':
        s = G.dec_float(d['scale'])
        k1, k2 = round(G.dec_float(d['min']) / s), round(G.dec_float(d['max']) / s)
        return rng.choice([k1, k2, k1 - 1, k2 + 1, k1 - 2, k2 + 2, True, None, [k1], 2 ** 70, float(k1), k1 + 0.5, '5', math.nan, math.inf])
    if t == 'bool':
        return rng.choice([True, False, 0, 1, 2, -1, 1.0, 0.5, 'true', None, []])
    if t == 'enum':
        vals = [v for _, v in d['members']]
        return rng.choice([vals[0], vals[-1], max(vals) + 1, -7, d['members'][0][0], 'nosuch', float(vals[0]), 1.5, None, [vals[0]], True])
    if t == 'string':
        return rng.choice(['x' * (d['max'] + 1) if d['max'] < 100 else 'x' * 40, 'x' * max(0, d['min'] - 1), 'é', 'a\0b', 'ab', '', 5, None,
                           ['a'], True])
    if t == 'array':
        e = d['elem']
        good = [wire_valid(rng, e) for _ in range(rng.randint(max(d['min'], 1), d['max']))]
        bad = list(good)
        bad[rng.randrange(len(bad))] = rng.choice([e['min'] - 1, e['max'] + 1, 0.5, 'x', None, [1]])
        short = [wire_valid(rng, e) for _ in range(max(d['min'] - 1, 0))]
        long = [wire_valid(rng, e) for _ in range(d['max'] + 1)]
        return rng.choice([short, long, [], bad, bad, long + long, None, 5, 'ab', {'a': 1}, tuple(good),
                           [wire_valid(rng, e) for _ in range(d['min'])], [wire_valid(rng, e) for _ in range(d['max'])]])
    v = wire_valid(rng, d)
    rr = rng.random()
    names = [n for n, _ in d['members']]
    if rr < 0.25 and v:
        del v[rng.choice(list(v))]
    elif rr < 0.45:
        v['zz'] = 1
    elif rr < 0.8 and v:
        k = rng.choice(list(v))
        sub = dict(d['members'])[k]
        v[k] = rng.choice([payload(rng, sub), 'bad', [1]])
        if v[k] is None:
            v[k] = 'bad'
    elif rr < 0.9:
        return rng.choice([None, 5, True, 'ab', [1], [], ''])
    else:
        v = {n: wire_valid(rng, dict(d['members'])[n]) for n in names}
    return v


def driver_value(rng, d, allow_bad):
    """what driver code assigns to the parameter attribute"""
    t = d['t']
    r = rng.random()
    if r < 0.6:
        return valid_internal(rng, d), False
    if t == 'float':
        a, b = G.dec_float(d['min']), G.dec_float(d['max'])
        return rng.choice([a - 1, b + 1, b * 2 + 5, -1e300, 1e300, math.inf, 7, True]), False      # converted, limits not checked
    if t == 'int':
        return rng.choice([d['min'] - 1, d['max'] + 1, 2 ** 40, 3.0, True]), False
    if t == 'scaled':
        s = G.dec_float(d['scale'])
        return rng.choice([G.dec_float(d['max']) + 5 * s, G.dec_float(d['min']) - 3 * s, 0.26, 1, True]), False
    if allow_bad:
        if t == 'bool':
            return rng.choice([2, 'x', None]), True
        if t == 'enum':
            return rng.choice([-7, 'nosuch', 1.5, None]), True
        if t == 'string':
            return rng.choice([5, None, 'a\0b', 'x' * 40 if d['max'] < 40 else 5]), True
        if t == 'array':
            return rng.choice([[0] * max(d['min'] - 1, 0) if d['min'] else ['x'], [0] * (d['max'] + 1), ['x'] * max(d['min'], 1)]), True
        return rng.choice([{}, {'zz': 1}, 5, None]), True
    return valid_internal(rng, d), False


# -- datatype properties narrowed by the configuration: the class declares the wide type, the module section of the
#    configuration gives the narrow limits; the instance (and the report) then have the narrow type
def apply_dt_cfg(d, o):
    """the generator's own idea of the instance datatype (used to choose interesting values only; the model is told the
    datatype of the real instance)"""
    d = dict(d)
    t = d['t']
    for k, v in (o or {}).items():
        if t == 'string':
            d[{'minchars': 'min', 'maxchars': 'max'}[k]] = v
        elif t == 'array' and k in ('minlen', 'maxlen'):
            d[{'minlen': 'min', 'maxlen': 'max'}[k]] = v
        elif t == 'array':
            d['elem'] = apply_dt_cfg(d['elem'], {k: v})        # ArrayOf.setProperty forwards to the members
        elif t in ('float', 'scaled'):
            d[k] = F(float(v))
        elif t == 'int':
            d[k] = v
        else:
            raise ValueError((d, o))
    return d


def inst_desc(a):
    return apply_dt_cfg(a['d'], a.get('cfg_dt'))


def widen(rng, d):
    """(class-level descriptor, configured datatype properties) such that the configuration narrows the class-level type
    to d; ({}: nothing to narrow)"""
    t = d['t']
    cls, cfg = dict(d), {}
    if t == 'string':
        if d['max'] < (1 << 64) and rng.random() < 0.85:
            cls['max'] = rng.choice([d['max'] + 1, d['max'] + 8, 32 if d['max'] < 32 else d['max'] + 3, 1 << 64])
            cfg['maxchars'] = d['max']
        if d['min'] > 0 and rng.random() < 0.6:
            cls['min'] = 0
            cfg['minchars'] = d['min']
    elif t == 'array':
        if rng.random() < 0.8:
            cls['max'] = d['max'] + rng.choice([1, 2, 4])
            cfg['maxlen'] = d['max']
        if d['min'] > 0 and rng.random() < 0.5:
            cls['min'] = rng.choice([0, d['min'] - 1])
            cfg['minlen'] = d['min']
        e = d['elem']
        if rng.random() < 0.3 and e['max'] < 1000:
            cls['elem'] = dict(e, max=e['max'] + 5)
            cfg['max'] = e['max']
    elif t == 'float':
        a, b = G.dec_float(d['min']), G.dec_float(d['max'])
        if b < 1e300 and rng.random() < 0.8:
            cls['max'] = F(rng.choice([b + 1, b + 10.5, G.FMAX]))
            cfg['max'] = b
        if a > -1e300 and rng.random() < 0.6:
            cls['min'] = F(rng.choice([a - 1, a - 10.5, -G.FMAX]))
            cfg['min'] = a
    elif t == 'int':
        if d['max'] < 2 ** 24 and rng.random() < 0.8:
            cls['max'] = d['max'] + rng.choice([1, 5, 1000])
            cfg['max'] = d['max']
        if d['min'] > -2 ** 24 and rng.random() < 0.6:
            cls['min'] = d['min'] - rng.choice([1, 5, 1000])
            cfg['min'] = d['min']
    elif t == 'scaled':
        sc = G.dec_float(d['scale'])
        k1, k2 = round(G.dec_float(d['min']) / sc), round(G.dec_float(d['max']) / sc)
        if rng.random() < 0.8:
            cls['max'] = F((k2 + rng.choice([1, 10])) * sc)
            cfg['max'] = k2 * sc
        if rng.random() < 0.5:
            cls['min'] = F((k1 - rng.choice([1, 10])) * sc)
            cfg['min'] = k1 * sc
    return cls, cfg


def between(rng, dc, d):
    """a value that fits the class-level datatype dc but not the narrowed datatype d (None: there is none)"""
    t = d['t']
    if t == 'string':
        lens = [n for n in (d['max'] + 1, d['max'] + 2, min(dc['max'], d['max'] + 9), d['min'] - 1, dc['min'])
                if dc['min'] <= n <= min(dc['max'], 60) and not d['min'] <= n <= d['max']]
        return 'x' * rng.choice(lens) if lens else None
    if t == 'array':
        lens = [n for n in (d['max'] + 1, dc['max'], d['min'] - 1, dc['min']) if dc['min'] <= n <= dc['max'] and not d['min'] <= n <= d['max']]
        e = d['elem']
        if lens and rng.random() < 0.8:
            return [valid_internal(rng, e) for _ in range(rng.choice(lens))]
        ec = dc['elem']
        if ec != e:
            v = [valid_internal(rng, e) for _ in range(rng.randint(max(d['min'], 1), d['max']))]
            v[rng.randrange(len(v))] = ec['max']
            return v
        return None
    if t in ('float', 'scaled'):
        a, b, ac, bc = (G.dec_float(x[k]) for x in (d, dc) for k in ('min', 'max'))
        c = [v for v in (b + (bc - b) / 2 if bc < 1e300 else b + 7, bc if bc < 1e300 else None, a - (a - ac) / 2 if ac > -1e300 else a - 7)
             if v is not None and ac <= v <= bc and not a <= v <= b]
        return rng.choice(c) if c else None
    if t == 'int':
        c = [v for v in (d['max'] + 1, dc['max'], d['min'] - 1, dc['min']) if dc['min'] <= v <= dc['max'] and not d['min'] <= v <= d['max']]
        return rng.choice(c) if c else None
    return None


def hw_value(rng, a):
    """what the hardware delivers to read_<attr>: values the described datatype takes, values between the configured and the
    class-level limits, values neither takes, wrong kinds"""
    d = inst_desc(a)
    r = rng.random()
    if a.get('cfg_dt') and r < 0.45:
        v = between(rng, a['d'], d)
        if v is not None:
            return v
    if r < 0.7:
        return valid_internal(rng, d)
    return driver_value(rng, d, True)[0]


def const_value(rng, d):
    t = d['t']
    if t == 'float' and rng.random() < 0.08 and G.dec_float(d['min']) == -G.FMAX:
        return math.nan
    return valid_internal(rng, d)


def add_read_method(rng, a, narrow):
    """give the parameter a read method (and, when `narrow`, let the configuration narrow its datatype)"""
    if narrow and a['const_cls'] is None and a.get('const_cfg') is None and a['default'] is not None:
        cls, cfg = widen(rng, a['d'])
        if cfg:
            a['d'], a['cfg_dt'] = cls, cfg
    a['rd'] = True
    a['hw0'] = G.tag(valid_internal(rng, inst_desc(a)) if rng.random() < 0.8 else hw_value(rng, a))


def gen_param(rng, attr, mod_has_value_unit, reads=True):
    a = _gen_param(rng, attr)
    if reads:
        r = rng.random()
        if r < 0.45:
            add_read_method(rng, a, narrow=r < 0.3)
        elif r < 0.55 and a['const_cls'] is None and a['const_cfg'] is None and a['default'] is not None:
            cls, cfg = widen(rng, a['d'])             # narrowed, but no read method
            if cfg:
                a['d'], a['cfg_dt'] = cls, cfg
    return a


def _gen_param(rng, attr):
    d = gen_type(rng)
    a = {'attr': attr, 'kind': 'p', 'd': d, 'unit': '', 'group': rng.choice(GROUPS), 'vis': rng.choice([1, 1, 1, 2, 3]),
         'readonly': rng.random() < 0.4, 'const_cls': None, 'const_cfg': None, 'default': None}
    if d['t'] in ('float', 'scaled'):
        a['unit'] = rng.choice(UNITS)
    r = rng.random()
    if r < 0.12:
        a['const_cls'] = G.tag(const_value(rng, d))
    elif r < 0.2:
        a['const_cfg'] = G.tag(const_value(rng, d))
    if a['const_cls'] is None and a['const_cfg'] is None or rng.random() < 0.3:
        if rng.random() < 0.85:
            a['default'] = G.tag(valid_internal(rng, d))
    return a


def gen_cmd(rng, attr):
    a = {'attr': attr, 'kind': 'c', 'group': rng.choice(GROUPS), 'vis': rng.choice([1, 1, 2, 3]), 'arg': None, 'res': None, 'ret': ['none']}
    if rng.random() < 0.6:
        a['arg'] = gen_type(rng, leaf_only=rng.random() < 0.8)
        if a['arg']['t'] == 'struct':
            a['arg'] = gen_type(rng, True)
    if rng.random() < 0.5:
        a['res'] = gen_type(rng, True)
        a['ret'] = G.tag(valid_internal(rng, a['res']))
    return a


def gen_export(rng):
    r = rng.random()
    if r < 0.6:
        return True
    if r < 0.75:
        return False
    if r < 0.8:
        return ''
    return rng.choice(EXPORT_NAMES)


def gen_mod(rng, name, findings):
    base = rng.choice(['Module', 'Module', 'Readable', 'Writable', 'Drivable'])
    mod = {'name': name, 'export': rng.random() < 0.8, 'group': rng.choice(GROUPS), 'vis': rng.choice([1, 1, 2, 3]), 'base': base,
           'features': rng.sample(['HasAlpha', 'HasBeta', 'HasGamma'], rng.choice([0, 0, 1, 2])), 'accs': []}
    taken = set()
    if base != 'Module' and rng.random() < 0.7:
        # the main value with a unit (interface classes with a target need a double)
        if base == 'Readable':
            d = rng.choice([{'t': 'float', 'min': F(-G.FMAX), 'max': F(G.FMAX)}, {'t': 'float', 'min': F(0.0), 'max': F(10.0)},
                            {'t': 'int', 'min': 0, 'max': 10}, {'t': 'scaled', 'scale': F(0.1), 'min': F(0.0), 'max': F(10.0)}])
        else:
            d = {'t': 'float', 'min': F(-G.FMAX), 'max': F(G.FMAX)}
        unit = rng.choice(['K', 'mm', 'T$', '']) if d['t'] != 'int' else ''
        mod['accs'].append({'attr': 'value', 'kind': 'p', 'd': d, 'unit': unit, 'group': '', 'vis': 1, 'readonly': True, 'export': True,
                            'const_cls': None, 'const_cfg': None, 'default': G.tag(valid_internal(rng, d)) if rng.random() < 0.7 else None})
        if rng.random() < 0.5:
            add_read_method(rng, mod['accs'][-1], narrow=rng.random() < 0.5)
        taken.add('value')
    for _ in range(rng.randint(1, 5)):
        is_cmd = rng.random() < 0.3
        pool = (PREDEFINED_CMDS[1:5] if is_cmd else ['ramp', 'setpoint', 'mode', 'unit']) if rng.random() < 0.2 else CUSTOM
        free = [n for n in pool if n not in taken and n not in BASE_ACCESSIBLES[base]]
        if not free:
            continue
        attr = rng.choice(free)
        taken.add(attr)
        a = gen_cmd(rng, attr) if is_cmd else gen_param(rng, attr, False)
        a['export'] = gen_export(rng)
        if findings and rng.random() < 0.12:
            a['cfg_export'] = rng.choice([True, False, '', 'renamed', 'xx'])
        mod['accs'].append(a)
    if rng.random() < 0.15:
        # a module section that names properties the code derives from the class (copied from another entry / a report)
        auto = []
        for key in rng.sample(AUTO_PROPS, rng.choice([1, 1, 2, 3])):
            if key == 'implementation':
                v = rng.choice(['frappy.modules.Drivable', 'frappy_demo.cryo.Cryostat', 'x', ''])
            elif key == 'interface_classes':
                v = rng.choice([['Drivable'], ['Readable'], ['Writable'], [], ['Drivable', 'Readable'], ['Magnet']])
            else:
                v = rng.choice([['HasOffset'], [], ['HasAlpha'], ['HasBeta', 'HasOffset']])
            if findings and rng.random() < 0.1:
                v = 'Drivable' if isinstance(v, list) else ['x']      # wrong kind of value: a configuration error
            auto.append([key, v])
        mod['cfg_auto'] = auto
    if not findings:
        # keep wire names distinct
        seen = set()
        for _, _, w, a in spec_accessibles(mod):
            if w and w in seen and a is not None:
                a['export'] = False
            elif w:
                seen.add(w)
        for a in mod['accs']:
            if a['kind'] == 'p':
                for key in ('const_cls', 'const_cfg'):
                    if a[key] == ['float', 'nan']:
                        a[key] = ['float', F(1.0)]
    return mod


def gen_ops(rng, mods, n_ops):
    """a history aimed at described names, hidden names, attribute names, other-kind names and unknown names"""
    ops = [['describe']]
    targets = []         # (module, wire-ish name, spec or None)
    for m in mods:
        for attr, kind, w, a in spec_accessibles(m):
            names = {w, attr, '_' + attr, spec_wire(attr, True)}
            if a is not None:
                names.add(spec_wire(attr, a['export']))
                if 'cfg_export' in a:
                    names.add(spec_wire(attr, a['cfg_export']))
            names.discard(None)
            names.discard('')
            targets.append((m['name'], w, sorted(names), kind, a))
    for _ in range(n_ops):
        r = rng.random()
        if r < 0.06:
            ops.append(['describe'])
            continue
        if r < 0.12:
            ops.append(['activate', None])
            continue
        if r < 0.2:
            mn = rng.choice([m['name'] for m in mods] + ['nomod'])
            ops.append(['activate', [mn]])
            continue
        if r < 0.28:
            mn, nm = rng.choice([(rng.choice(mods)['name'], rng.choice(['nosuch', '', 'value', '_value', 'False'])),
                                 ('nomod', 'value'), ('', 'x')])
            kind, a = rng.choice(['p', 'c']), None
        else:
            mn, w, names, kind, a = rng.choice(targets)
            nm = w if w and rng.random() < 0.7 else rng.choice(names)
        d = inst_desc(a) if a is not None and kind == 'p' else None
        rr = rng.random()
        if a is not None and kind == 'p' and a.get('rd') and rng.random() < 0.45:
            # the hardware delivers something new, then the parameter is read (sometimes twice: a repeated error)
            ops.append(['hwset', mn, a['attr'], G.tag(hw_value(rng, a))])
            for _ in range(rng.choice([1, 1, 2])):
                ops.append(['read', mn, nm])
            if rng.random() < 0.3:
                ops.append(['activate', rng.choice([None, [mn], [mn, nm]])])
        elif a is not None and kind == 'p' and rr < 0.18:
            v, bad = driver_value(rng, d, True)
            ops.append(['dset', mn, a['attr'], G.tag(v)])
            if bad and rng.random() < 0.3:
                ops.append(['dset', mn, a['attr'], G.tag(v if rng.random() < 0.6 else driver_value(rng, d, True)[0])])
        elif rr < 0.4:
            ops.append(['read', mn, nm])
        elif rr < 0.7:
            if d is not None:
                v = payload(rng, d)
            else:
                v = rng.choice([1, 2.5, 'x', None, True])
            ops.append(['change', mn, nm, G.tag(v)])
        elif rr < 0.85:
            if a is not None and kind == 'c' and a['arg'] is not None and rng.random() < 0.85:
                v = payload(rng, a['arg'])
            else:
                v = rng.choice([None, None, 1, 'x'])
            ops.append(['do', mn, nm, G.tag(v)])
        else:
            ops.append(['activate', [mn, nm]])
    if rng.random() < 0.5:
        ops.append(['describe'])
    return ops


def rand_case(rng, findings):
    names = rng.sample(['m1', 'dev', 'cryo', 'T'], rng.randint(1, 3))
    mods = [gen_mod(rng, nm, findings) for nm in names]
    return {'mods': mods, 'ops': gen_ops(rng, mods, rng.randint(4, 14))}


def gen_linked_case(rng):
    """an output module (real mixin HasControlledBy) and one or two control loops (HasOutputModule) attached to it by the
    configuration, in random order (the output module before or after its controller), exported or not: initModule of a
    loop changes the datatype of the output module's controlled_by while the node is being started"""
    def linked_mod(name, mixin):
        while True:
            m = gen_mod(rng, name, False)
            if m['base'] in ('Writable', 'Drivable'):
                break
        m['accs'] = [a for a in m['accs'] if a['attr'] not in ('controlled_by', 'control_active', 'target', 'output_module')]
        m['mixin'] = mixin
        return m
    outs = ['heater'] + (['valve'] if rng.random() < 0.2 else [])
    mods = []
    for o in outs:
        m = linked_mod(o, 'cb')
        m['export'] = rng.random() < 0.9
        mods.append(m)
    loops = ['loop'] + (['loop2'] if rng.random() < 0.35 else [])
    for l in loops:
        m = linked_mod(l, 'om')
        m['output_module'] = rng.choice(outs) if rng.random() < 0.9 else None
        mods.append(m)
    if rng.random() < 0.3:
        mods.append(gen_mod(rng, 'dev', False))
    rng.shuffle(mods)
    ops = gen_ops(rng, mods, rng.randint(2, 8))
    extra = []
    for _ in range(rng.randint(2, 5)):
        o = rng.choice(outs)
        r = rng.random()
        if r < 0.5:
            extra.append(['dset', o, 'controlled_by', G.tag(rng.choice([0, 1, 1, 2, 3, 'self', 'loop', 'loop2', 'nosuch', 2.5]))])
            if rng.random() < 0.5:
                extra.append(['read', o, 'controlled_by'])
        elif r < 0.65:
            extra.append(['activate', rng.choice([None, [o], [o, 'controlled_by']])])
        elif r < 0.8:
            extra.append(['change', o, 'controlled_by', G.tag(rng.choice([0, 1, 'loop']))])
        elif r < 0.9:
            extra.append(['dset', rng.choice(loops), 'control_active', G.tag(rng.choice([True, False, 1, 'x']))])
        else:
            extra.append(['describe'])
    pos = rng.randint(1, len(ops))
    ops = ops[:pos] + extra + ops[pos:]
    if rng.random() < 0.5:
        ops.insert(1, ['activate', None])
    return {'mods': mods, 'ops': ops + [['describe']]}


def exhaustive_cases(full=False):
    """every combination of module export x class export x configured export x kind x predefined/custom name
    (full: x readonly x constant none/class/configuration), probed with every request kind on every candidate name"""
    fl = {'t': 'float', 'min': F(0.0), 'max': F(10.0)}
    variants = [(ro, c) for ro in (False, True) for c in (None, 'cls', 'cfg')] if full else [(False, None)]
    for mexp, exp, cfg, kind, predefined, (ro, const) in itertools.product(
            [True, False], [True, False, '', 'cust'], [None, True, False, 'ren'], ['p', 'c'], [False, True], variants):
        if kind == 'c' and (ro, const) != (False, None):
            continue
        attr = ('ramp' if kind == 'p' else 'reset') if predefined else 'foo'
        if kind == 'p':
            a = {'attr': attr, 'kind': 'p', 'd': fl, 'unit': '', 'group': '', 'vis': 1, 'readonly': ro,
                 'const_cls': G.tag(2.5) if const == 'cls' else None, 'const_cfg': G.tag(2.5) if const == 'cfg' else None,
                 'default': G.tag(1.0), 'export': exp}
        else:
            a = {'attr': attr, 'kind': 'c', 'group': '', 'vis': 1, 'arg': None, 'res': None, 'ret': ['none'], 'export': exp}
        if cfg is not None:
            a['cfg_export'] = cfg
        other = {'attr': 'bar', 'kind': 'p', 'd': fl, 'unit': '', 'group': '', 'vis': 1, 'readonly': True, 'const_cls': None,
                 'const_cfg': None, 'default': G.tag(2.0), 'export': True}
        mod = {'name': 'm', 'export': mexp, 'group': '', 'vis': 1, 'base': 'Module', 'features': [], 'accs': [a, other]}
        names = sorted({attr, '_' + attr, 'cust', 'ren'})
        ops = [['describe']]
        for nm in names:
            ops += [['read', 'm', nm], ['change', 'm', nm, G.tag(3.0)], ['do', 'm', nm, ['none']], ['activate', ['m', nm]]]
        ops += [['dset', 'm', attr, G.tag(4.0)]] if kind == 'p' else []
        ops += [['activate', ['m']], ['activate', None], ['dset', 'm', 'bar', G.tag(5.0)]]
        ops += [['dset', 'm', attr, G.tag(6.0)]] if kind == 'p' else []
        ops += [['describe']]
        yield {'mods': [mod], 'ops': ops}


def gen_cases(seed, tier):
    rng = random.Random(seed * 1000003 + 6)
    n = {'quick': 1850, 'thorough': 20000, 'search': 20000}[tier]
    cases = list(exhaustive_cases(full=(tier != 'quick')))
    for i in range(n):
        cases.append(rand_case(rng, findings=(i % 4 == 0)))
    rng2 = random.Random(seed * 1000003 + 606)
    for i in range({'quick': 150, 'thorough': 2000, 'search': 2000}[tier]):
        cases.append(gen_linked_case(rng2))
    return cases


def shrink(case):
    ops = case['ops']
    for i in range(len(ops) - 1, 0, -1):
        yield dict(case, ops=ops[:i] + ops[i + 1:])
    if len(case['mods']) > 1:
        for i in range(len(case['mods'])):
            mods = case['mods'][:i] + case['mods'][i + 1:]
            keep = {m['name'] for m in mods}
            mods = [dict(m, output_module=None) if m.get('output_module') and m['output_module'] not in keep else m for m in mods]
            yield {'mods': mods, 'ops': [o for o in ops if o[0] == 'describe' or
                                         (o[0] == 'activate' and (o[1] is None or o[1][0] in keep)) or
                                         (o[0] != 'activate' and o[1] in keep)]}
    for mi, m in enumerate(case['mods']):
        for ai in range(len(m['accs'])):
            if len(m['accs']) > 1:
                m2 = dict(m, accs=m['accs'][:ai] + m['accs'][ai + 1:])
                gone = m['accs'][ai]['attr']
                yield {'mods': case['mods'][:mi] + [m2] + case['mods'][mi + 1:],
                       'ops': [o for o in ops if not (o[0] in ('dset', 'hwset') and o[1] == m['name'] and o[2] == gone)]}
    # simpler configurations: no configured automatic properties, no read method, no narrowing
    for mi, m in enumerate(case['mods']):
        if m.get('cfg_auto'):
            for k in range(len(m['cfg_auto'])):
                m2 = dict(m, cfg_auto=m['cfg_auto'][:k] + m['cfg_auto'][k + 1:])
                yield dict(case, mods=case['mods'][:mi] + [m2] + case['mods'][mi + 1:])


def search_cases(seed, mismatching):
    rng = random.Random(seed * 7919 + 6)
    out = list(mismatching[:30])
    for c in mismatching[:30]:
        for _ in range(20):
            out.append({'mods': c['mods'], 'ops': gen_ops(rng, c['mods'], rng.randint(4, 14))})
    out.extend(exhaustive_cases())
    out.extend(gen_linked_case(rng) for i in range(600))
    out.extend(rand_case(rng, findings=(i % 4 == 0)) for i in range(6000))
    return out
