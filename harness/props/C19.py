"""C19 — UDP discovery responder: implementation driver, case encoder, direct oracle, generators"""
import json
import os
import random

from harness import gal

ID = 'C19'
MODEL_TARGETS = ['theories/C19/Run.vo']
PROOF_TARGETS = ['theories/C19/Properties.vo']
PROPERTIES_V = 'theories/C19/Properties.v'
IMPORTS = 'From Coq Require Import Init.Byte.\nRequire Import FV.Gen.C19 FV.C19.Model FV.C19.Run.'
CASE_TYPE = 'case'
CHECK = 'check_case'
SHARD_SIZE = 150
RULE = ('a case = constructor arguments of UDPListener (equipment id, version, description built from segments of '
        'ASCII / 2-,3-,4-byte / JSON-escaped characters with total message length steered to the 508 byte boundary, '
        'the disabling boundary, far below and far above; 0-3 interfaces tcp://<port> / ws://<port>; broadcast flag) '
        'x a scripted socket delivering 0-7 datagrams (discovery requests in several spellings, other JSON objects, '
        'arrays, strings, numbers, literals, malformed JSON, invalid UTF-8, empty, longer than the receive buffer, '
        'socket errors) from 4 sender addresses; the real UDPListener runs on a fake socket module (thorough: also on '
        'real loopback UDP sockets); nested / very long datagrams around the receive size and around the measured '
        'nesting limit of json.loads; server cases: the real Server.run with 1-4 configured interfaces (tcp://, ws://, '
        'bare port) whose fake interface classes open / fail / hang until the start-up time-out in a scripted order, '
        'the responder it creates runs on the fake socket; non-trivial = at least one datagram sent or received or '
        'an interface thread event; distinct = distinct case')
ASSUMPTIONS = [
    'equipment id, version and description are strings of Unicode scalar values (a lone surrogate makes str.encode raise in the constructor; outside the domain)',
    'interface uris have the form <scheme>://<decimal port>, port 1..65535 for tcp (what TCPServer can bind); tcp://0 (OS-chosen port, advertised as 0) is outside the domain',
    'json.loads / str.encode / bytes.decode are CPython: the result of json.loads is supplied to the model with each datagram, UTF-8 and the JSON string escaper are modelled and compared byte for byte',
    'a datagram longer than the receive buffer is cut by the kernel; the fake socket cuts at the size the code asks for',
    'socket errors other than on recvfrom (sendto failing, e.g. unreachable broadcast address) are not modelled',
    'json.loads raises only ValueErrors on text with fewer nested brackets than the measured limit (Gen constant json_depth_limit; checked on every datagram of every case)',
    'Server.run start-up: an interface that was opened stays open until shutdown (serve_forever blocks); interface classes are replaced by fakes that open / fail / hang as scripted, the 12 s time-out is cut short by a MultiEvent subclass once all scripted events happened; _processCfg is stubbed',
]

LIMIT = 508          # from the property text
ADDRS = [['10.1.0.1', 40001], ['10.1.0.2', 40002], ['192.168.7.9', 5], ['10.1.0.1', 40003]]
BCAST_IP = '255.255.255.255'


_CONST = {}


def _consts():
    """receive size of run() as the translator reads it (1024 when it cannot)"""
    if 'recv' not in _CONST:
        try:
            from translator import facts_C19
            _CONST['recv'] = int(facts_C19.recv_bufsize()[1].split('%')[0])
        except Exception:
            _CONST['recv'] = 1024
    return _CONST['recv']


def json_limit():
    """nesting depth from which json.loads of this interpreter raises RecursionError (measured, not assumed)"""
    if 'limit' not in _CONST:
        from translator import facts_C19
        _CONST['limit'] = facts_C19.measure_json_depth_limit()
    return _CONST['limit']


# ------------------------------------------------------------------ implementation driver
class _Log:
    def __getattr__(self, name):
        return lambda *a, **k: None

    def getChild(self, *a, **k):
        return self


def _fake_socket_module(env):
    import socket as real

    class Sock:
        def __init__(self, *a, **k):
            env['created'].append([int(x) for x in a])

        def setsockopt(self, *a):
            env['opts'].append([int(x) for x in a])

        def bind(self, addr):
            env['bound'] = [addr[0], addr[1]]

        def sendto(self, data, addr):
            ev = {'i': env['consumed'] - 1, 'hex': bytes(data).hex(), 'to': [addr[0], addr[1]]}
            if 'open_tcp' in env:
                ev['open'] = env['open_tcp']()       # server cases: tcp ports listened on right now
            env['events'].append(ev)
            return len(data)

        def recvfrom(self, n):
            env['bufsizes'].append(n)
            k = env['consumed']
            env['consumed'] += 1
            if k >= len(env['script']) or 'error' in env['script'][k]:
                raise OSError(9, 'Bad file descriptor')
            item = env['script'][k]
            return bytes.fromhex(item['hex'])[:n], tuple(ADDRS[item['from']])

        def shutdown(self, *a):
            pass

        def close(self):
            pass

    class Mod:
        socket = Sock
        error = OSError

        def __getattr__(self, name):
            return getattr(real, name)

    return Mod()


def _listener_fields(lst):
    return {
        'enabled': bool(lst.is_enabled),
        'desc': lst.description,
        'fw': lst.firmware,
        'ports': list(lst.ports),
    }


def run_case(case):
    if case.get('real'):
        obs = _run_real(case)
    elif case.get('server'):
        obs = _run_server(case)
    else:
        obs = _run_fake(case)
    if obs.get('init_exc') is None and obs.get('run_exc') is None:
        try:
            obs['gal'] = _encode(case, obs)
        except Exception as e:     # reported by encode()
            obs['gal_error'] = f'{type(e).__name__}: {e}'
    return obs


def _run_fake(case):
    import frappy.protocol.discovery as D
    env = {'created': [], 'opts': [], 'bound': None, 'events': [], 'bufsizes': [], 'consumed': 0,
           'script': case['dgrams']}
    saved = (D.socket, D.get_version)
    obs = {'init_exc': None}
    try:
        D.socket = _fake_socket_module(env)
        D.get_version = lambda: case['version']
        try:
            lst = D.UDPListener(case['eid'], case['desc'], list(case['ifaces']), _Log(),
                                startup_broadcast=case['bcast'])
        except BaseException as e:
            obs['init_exc'] = type(e).__name__
            return obs
        obs.update(_listener_fields(lst))
        exc = None
        try:
            lst.run()
        except BaseException as e:
            exc = type(e).__name__
        obs['exc'] = exc
        obs['consumed'] = env['consumed']
        obs['sends'] = env['events']
        obs['bufsizes'] = sorted(set(env['bufsizes']))
        obs['bound'] = env['bound']
        obs['script'] = case['dgrams']
        return obs
    finally:
        D.socket, D.get_version = saved


def _tcp_port_of(uri):
    scheme, _, rest = uri.partition('://')
    return int(rest) if scheme == 'tcp' else None


def _run_server(case):
    """the real Server.run (frappy/server.py) with fake interface classes: thread k of case['events'] = [[i, ok], ...]
    lets the constructor of interface i return (ok) or raise (not ok), in exactly this order; interfaces without an
    event stay inside their constructor until the harness releases them after the responder has finished.  The
    start-up time-out is cut short by a MultiEvent subclass (it waits for the scripted events, then calls the real
    wait with 10 ms).  _processCfg is stubbed (the node identity comes from the case).  The responder is the real
    UDPListener on the fake socket module."""
    import threading
    import frappy.server as S
    import frappy.protocol.discovery as D
    from frappy.lib import mkthread as real_mkthread
    from frappy.lib.multievent import MultiEvent

    conf = list(case['configured'])
    events = [(int(i), bool(ok)) for i, ok in case['events']]
    pos = {}
    for k, (i, ok) in enumerate(events):
        if i in pos or not 0 <= i < len(conf):
            raise ValueError('events: every interface thread at most once, index within the configured list')
        pos[i] = (k, ok)
    cond = threading.Condition()
    st = {'fired': 0, 'next_idx': 0, 'problem': None}
    release = threading.Event()
    done = threading.Event()
    fakes = []
    tls = threading.local()
    env = {'created': [], 'opts': [], 'bound': None, 'events': [], 'bufsizes': [], 'consumed': 0,
           'script': case['dgrams'], 'exc': None}
    env['open_tcp'] = lambda: sorted({int(f.uri.split('://')[1]) for f in list(fakes) if f.open and f.scheme == 'tcp'})
    obs = {'init_exc': None, 'run_exc': None, 'server': True, 'handed': None, 'listener': False}

    class FakeIface:
        def __init__(self, scheme, logger, options, srv):
            self.idx = getattr(tls, 'idx', None)
            self.scheme = scheme
            self.uri = options.pop('uri')
            self.open = False
            self._stop = threading.Event()
            with cond:
                fakes.append(self)
            if self.idx not in pos:
                release.wait(30)      # still in here when the start-up time-out expires
                raise OSError('interface could not be opened')
            k, ok = pos[self.idx]
            with cond:
                if not cond.wait_for(lambda: st["fired"] >= k, 10):
                    st['problem'] = 'start-up sequence stuck'
            if not ok:
                raise OSError(98, 'Address already in use')
            self.open = True          # bound and listening from now on

        def __enter__(self):
            return self

        def __exit__(self, *a):
            self.open = False         # server_close()
            return False

        def serve_forever(self):
            self._stop.wait(60)

        def shutdown(self):
            self._stop.set()

    class SeqMultiEvent(MultiEvent):
        def get_trigger(self, timeout=None, name=None):
            trig = super().get_trigger(timeout, name)

            def fire():
                trig()
                with cond:
                    st['fired'] += 1
                    cond.notify_all()
            return fire

        def wait(self, timeout=None):
            with cond:
                if not cond.wait_for(lambda: st["fired"] >= len(events), 10):
                    st['problem'] = 'scripted interface events did not happen'
            if timeout is None and len(events) < len(conf):
                timeout = 0.01        # instead of the 12 s of the server
            return super().wait(timeout)

    def my_mkthread(func, *args, **kwds):
        if getattr(func, '__name__', '') == '_interfaceThread':
            idx = st['next_idx']
            st['next_idx'] += 1

            def body(*a, **k):
                tls.idx = idx
                return func(*a, **k)
        else:                         # the responder
            def body(*a, **k):
                try:
                    return func(*a, **k)
                except BaseException as e:
                    env['exc'] = type(e).__name__
                finally:
                    done.set()
        body.__module__ = func.__module__
        body.__name__ = func.__name__
        return real_mkthread(body, *args, **kwds)

    def listener(eid, desc, ifaces, logger, **kw):
        obs['handed'] = list(ifaces)
        obs['registered'] = list(srv.interfaces)
        obs['open_uris'] = [f.uri for f in list(fakes) if f.open]
        obs['open_tcp'] = env['open_tcp']()
        try:
            lst = D.UDPListener(eid, desc, ifaces, logger, **kw)
        except BaseException as e:
            obs['init_exc'] = type(e).__name__
            raise
        obs['listener'] = True
        obs.update(_listener_fields(lst))
        return lst

    class SecNode:
        equipment_id = case['eid']
        modules = {}

        def get_secnode_property(self, name):
            return case['desc'] if name == 'description' else None

        def add_secnode_property(self, name, value):
            obs['secnode_' + name] = value

        def shutdown_modules(self):
            pass

    srv = S.Server.__new__(S.Server)
    srv._testonly = False
    srv._restart = True
    srv.name = 'node'
    srv.log = _Log()
    srv.discovery = None
    srv.interfaces = {}
    srv.node_cfg = {'interface': conf[0]}
    if len(conf) > 1 or case.get('secondary_key'):
        srv.node_cfg['secondary'] = conf[1:]
    srv.secnode = SecNode()
    srv._processCfg = lambda: None
    saved = (S.mkthread, S.get_class, S.UDPListener, S.MultiEvent, S.systemd, D.socket, D.get_version)
    try:
        S.mkthread = my_mkthread
        S.get_class = lambda name: FakeIface
        S.UDPListener = listener
        S.MultiEvent = SeqMultiEvent
        S.systemd = None
        D.socket = _fake_socket_module(env)
        D.get_version = lambda: case['version']

        def target():
            try:
                srv.run()
            except BaseException as e:
                obs['run_exc'] = type(e).__name__
            finally:
                done.set()
        th = threading.Thread(target=target, daemon=True)
        th.start()
        if not done.wait(60):
            st['problem'] = 'neither the responder nor Server.run came to an end'
        # the responder has dealt with the whole script (or never existed): stop the node
        try:
            srv.shutdown()
        except BaseException as e:
            obs['shutdown_exc'] = type(e).__name__
        release.set()
        for f in list(fakes):     # harness cleanup: an interface the server lost track of (configured twice)
            f._stop.set()
        th.join(30)
        if th.is_alive():
            st['problem'] = st['problem'] or 'Server.run does not end after shutdown'
        if st['problem']:
            raise RuntimeError('harness: ' + st['problem'])
        obs['exc'] = env['exc']
        obs['consumed'] = env['consumed']
        obs['sends'] = env['events']
        obs['bufsizes'] = sorted(set(env['bufsizes']))
        obs['bound'] = env['bound']
        obs['script'] = case['dgrams']
        obs['threads'] = st['next_idx']
        if not obs['listener']:
            obs['open_tcp'] = obs.get('open_tcp', sorted({int(f.uri.split('://')[1]) for f in fakes
                                                          if f.idx in pos and pos[f.idx][1] and f.scheme == 'tcp'}))
            obs.update({'enabled': False, 'desc': '', 'fw': '', 'ports': []})
        return obs
    finally:
        release.set()
        (S.mkthread, S.get_class, S.UDPListener, S.MultiEvent, S.systemd, D.socket, D.get_version) = saved


def _run_real(case):
    """the same listener on real loopback UDP sockets, run() in a thread (thorough tier).  No start-up broadcast
    (the sandbox has no route to 255.255.255.255).  Every datagram is followed by a discovery request from a
    second socket: its answer (or the death of the thread) tells that the datagram has been dealt with."""
    import socket
    import threading
    import time
    import frappy.protocol.discovery as D
    saved = (D.UDP_PORT, D.get_version)
    port = 20000 + os.getpid() % 20000
    obs = {'init_exc': None, 'real': True}
    lst = None
    c1 = c2 = None
    try:
        D.UDP_PORT = port
        D.get_version = lambda: case['version']
        try:
            lst = D.UDPListener(case['eid'], case['desc'], list(case['ifaces']), _Log(), startup_broadcast=False)
        except BaseException as e:
            obs['init_exc'] = type(e).__name__
            return obs
        obs.update(_listener_fields(lst))
        res = {'exc': None}

        def target():
            try:
                lst.run()
            except BaseException as e:
                res['exc'] = type(e).__name__
        th = threading.Thread(target=target, daemon=True)
        th.start()
        c1 = socket.socket(socket.AF_INET, socket.SOCK_DGRAM)
        c1.bind(('127.0.0.1', 0))
        c1.setblocking(False)
        c2 = socket.socket(socket.AF_INET, socket.SOCK_DGRAM)
        c2.bind(('127.0.0.1', 0))
        c2.setblocking(False)
        nports = len(lst.ports)
        events = []
        script = []
        dead = not lst.is_enabled

        def drain(sock):
            got = []
            while True:
                try:
                    data, _ = sock.recvfrom(65536)
                except BlockingIOError:
                    return got
                got.append(data)

        def fence():
            """True if the responder answered a fresh request from c2"""
            if nports == 0:
                # a responder without tcp ports never answers: wait for the thread state instead
                time.sleep(0.02)
                return th.is_alive()
            c2.sendto(REQ, ('127.0.0.1', port))
            script.append({'hex': REQ.hex(), 'from': 3, 'fence': True})
            k = len(script) - 1
            got = []
            t0 = time.time()
            ok = True
            while len(got) < nports:
                got += drain(c2)
                if len(got) >= nports:
                    break
                if not th.is_alive() or time.time() - t0 > 2:
                    got += drain(c2)
                    ok = len(got) >= nports
                    break
                time.sleep(0.0005)
            for data in got:
                events.append({'i': k, 'hex': data.hex(), 'to': ADDRS[3]})
            return ok

        for i, item in enumerate(case['dgrams']):
            if dead:
                break
            if 'error' in item:
                break
            c1.sendto(bytes.fromhex(item['hex']), ('127.0.0.1', port))
            script.append(item)
            k = len(script) - 1
            alive = fence()
            for data in drain(c1):
                events.append({'i': k, 'hex': data.hex(), 'to': ADDRS[item['from']]})
            if not alive:
                dead = True
        events.sort(key=lambda e: e['i'])
        if lst.is_enabled and not dead:
            lst.shutdown()
        th.join(2)
        obs['exc'] = res['exc']
        obs['hung'] = th.is_alive()
        # recvfrom calls: every datagram delivered before the thread died, plus the final failing one after shutdown
        if not lst.is_enabled:
            obs['consumed'] = 0
        elif res['exc']:
            # the thread died on the datagram before the unanswered fence (no fences without tcp ports)
            obs['consumed'] = len(script) - 1 if nports else len(script)
        else:
            obs['consumed'] = len(script) + 1
        obs['script'] = script
        obs['sends'] = events
        obs['bufsizes'] = []
        obs['bound'] = None
        return obs
    finally:
        D.UDP_PORT, D.get_version = saved
        for s in (c1, c2, getattr(lst, 'sock', None)):
            try:
                if s is not None:
                    s.close()
            except Exception:
                pass


# ------------------------------------------------------------------ encoding into Gallina
def rle(seq, maxperiod=8):
    """[(block, repetitions)] with concat(block * repetitions) == seq"""
    out, lit = [], []
    i, n = 0, len(seq)
    while i < n:
        best = None
        for p in range(1, maxperiod + 1):
            if i + 2 * p > n:
                break
            if seq[i] != seq[i + p]:
                continue
            blk = seq[i:i + p]
            r = 1
            while seq[i + r * p:i + (r + 1) * p] == blk:
                r += 1
            if r >= 2 and r * p >= 6 and (best is None or r * p > best[0] * best[1]):
                best = (p, r)
        if best:
            if lit:
                out.append((lit, 1))
                lit = []
            p, r = best
            out.append((list(seq[i:i + p]), r))
            i += p * r
        else:
            lit.append(seq[i])
            i += 1
    if lit:
        out.append((lit, 1))
    return out


def g_rl_str(s):
    return gal.lst(rle([ord(c) for c in s]), lambda b: f'({gal.lst(b[0], gal.N)}, {gal.nat(b[1])})')


def g_rl_bytes(b):
    return gal.lst(rle(list(b)), lambda blk: '([%s], %s)' % ('; '.join('x%02x' % x for x in blk[0]), gal.nat(blk[1])))


def g_elem(v):
    return f'(Some {gal.string(v)})' if isinstance(v, str) else 'None'


def parse_summary(data):
    """what json.loads makes of the received bytes (CPython), as a Gallina term of type parse"""
    try:
        text = data.decode('utf-8')
    except UnicodeDecodeError:
        return 'PBad'
    try:
        v = json.loads(text)
    except ValueError:           # JSONDecodeError, or the int digit limit
        return 'PBad'
    except BaseException:        # RecursionError: not a ValueError
        return 'PRaise'
    if isinstance(v, str):
        return f'(PStr {gal.string(v)})'
    if isinstance(v, list):
        return f'(PArr {gal.lst(v, g_elem)})'
    if isinstance(v, dict):
        return '(PObj %s)' % gal.lst(list(v.items()), lambda kv: f'({gal.string(kv[0])}, {g_elem(kv[1])})')
    return 'PScalar'


def split_uri(u):
    scheme, _, rest = u.partition('://')
    port = int(rest)
    if str(port) != rest or port < 0:
        raise ValueError(f'interface uri outside the modelled form: {u!r}')
    return scheme, port


def split_conf(u):
    """a configured interface: <scheme>://<port> or a bare port (the server prepends tcp://)"""
    if '://' in u:
        scheme, port = split_uri(u)
        return scheme, port
    port = int(u)
    if str(port) != u or port < 0:
        raise ValueError(f'configured interface outside the modelled form: {u!r}')
    return None, port


def _dest(to):
    if to[0] == BCAST_IP:
        return f'(DBroadcast {gal.N(to[1])})'
    return f'(DAddr {gal.nat(ADDRS.index(list(to)))})'


def _status(obs):
    e = obs['exc']
    if e is None:
        return 'NotListening' if obs['consumed'] == 0 else 'Returned'
    # an exception left run(): the model says so only for a datagram on which json.loads raises no ValueError
    return 'Killed' 


def _encode(case, obs):
    bufsize = _consts()
    dg = []
    for item in obs['script']:
        if 'error' in item:
            dg.append('DErr')
        else:
            data = bytes.fromhex(item['hex'])
            dg.append(f'(DG {g_rl_bytes(data)} {parse_summary(data[:bufsize])} {gal.nat(item["from"])})')
    dg.append('DErr')          # the driver's socket raises when the script is exhausted
    payloads, sends = [], []
    for ev in obs['sends']:
        if ev['hex'] not in payloads:
            payloads.append(ev['hex'])
        sends.append(f'({_dest(ev["to"])}, {gal.nat(payloads.index(ev["hex"]))})')
    g_iface = lambda p: f'({gal.string(p[0])}, {gal.N(p[1])})'
    if case.get('server'):
        ifaces = []
        conf = [split_conf(u) for u in case['configured']]
        startup = '(Some (%s, %s))' % (
            gal.lst(conf, lambda p: f'({gal.option(p[0], gal.string)}, {gal.N(p[1])})'),
            gal.lst(case['events'], lambda e: f'({gal.nat(int(e[0]))}, {gal.boolean(bool(e[1]))})'))
        handed = gal.option(obs['handed'], lambda l: gal.lst([split_uri(u) for u in l], g_iface))
        bcast = False
    else:
        ifaces = [split_uri(u) for u in case['ifaces']]
        startup, handed = 'None', 'None'
        bcast = case['bcast'] and not case.get('real')
    return ('{| k_eid := %s; k_version := %s; k_desc := %s; k_ifaces := %s; k_startup := %s; k_bcast := %s;\n'
            '   k_dgrams := [%s];\n'
            '   o_handed := %s; o_enabled := %s; o_desc := %s; o_fw := %s; o_ports := %s; o_payloads := %s;\n'
            '   o_sends := [%s]; o_status := %s; o_consumed := %s |}') % (
        g_rl_str(case['eid']), g_rl_str(case['version']), gal.option(case['desc'], g_rl_str),
        gal.lst(ifaces, g_iface), startup, gal.boolean(bcast), '; '.join(dg), handed,
        gal.boolean(obs['enabled']), g_rl_str(obs['desc']), g_rl_str(obs['fw']), gal.lst(obs['ports'], gal.N),
        gal.lst([bytes.fromhex(h) for h in payloads], g_rl_bytes), '; '.join(sends),
        _status(obs), gal.nat(obs['consumed']))


def encode(case, obs):
    if obs.get('init_exc') is not None:
        raise ValueError('constructor raised ' + obs['init_exc'])
    if obs.get('run_exc') is not None:
        raise ValueError('Server.run raised ' + obs['run_exc'])
    if 'gal' not in obs:
        raise ValueError(obs.get('gal_error', 'not encoded'))
    return obs['gal']


def model_result_term(case, obs):
    return f'model_result ({encode(case, obs)})'


# ------------------------------------------------------------------ direct oracle (the property on the datagrams)
def _jlen(s):
    """bytes of s as a JSON string body in a UTF-8 document that escapes only what JSON requires"""
    return len(json.dumps(s, ensure_ascii=False).encode('utf-8')) - 2


def spec_is_request(data):
    """True / False / None (the JSON standard leaves it open): is this datagram a discovery request, i.e.
    UTF-8 text that is a JSON object whose member SECoP is the string discover"""
    try:
        text = data.decode('utf-8')
    except UnicodeDecodeError:
        return False
    odd = []

    def pairs(items):
        return items

    def walk_top(items):
        vals = [v for k, v in items if k == 'SECoP']
        verdicts = {isinstance(v, str) and v == 'discover' for v in vals}
        if not vals:
            return False
        if len(verdicts) > 1:
            return None
        return verdicts.pop()

    try:
        v = json.loads(text, object_pairs_hook=lambda items: ('obj', items),
                       parse_constant=lambda c: odd.append(c))
    except ValueError:
        return False
    except RecursionError:
        return None            # nested too deep for this reader: not decided here
    if odd:
        return None            # NaN / Infinity: accepted by CPython, not JSON
    if isinstance(v, tuple) and len(v) == 2 and v[0] == 'obj':
        return walk_top(v[1])
    return False


def identity_len(case, obs, port=65535):
    """bytes of the most compact announcement carrying this identity and no description"""
    return len(json.dumps({'SECoP': 'node', 'port': port, 'equipment_id': case['eid'], 'firmware': obs['fw'],
                           'description': ''}, ensure_ascii=False, separators=(',', ':')).encode('utf-8'))


def oracle(case, obs):
    fails = []

    def fail(cls, what, **kw):
        fails.append(dict({'class': cls, 'what': what}, **kw))

    if obs.get('init_exc') is not None:
        fail('constructor-raised', f'UDPListener(...) raised {obs["init_exc"]}')
        return fails
    if obs.get('run_exc') is not None:
        fail('server-raised', f'Server.run raised {obs["run_exc"]}')
        return fails
    bufsize = 1024
    desc0 = case['desc'] or ''
    if case.get('server'):
        # the ports the node really listens on: tcp interfaces whose (fake) server object is open
        tcp_ports = list(obs['open_tcp'])
        if not obs['listener']:
            asked = [i for i, item in enumerate(case['dgrams']) if 'hex' in item
                     and spec_is_request(bytes.fromhex(item['hex'])) is True]
            if tcp_ports and asked:
                fail('no-responder', f'the node listens on tcp ports {tcp_ports} but Server.run created no discovery '
                     f'responder: request {asked[0]} stays unanswered')
            return fails
    else:
        tcp_ports = [int(u.split('://', 1)[1]) for u in case['ifaces'] if u.split('://', 1)[0] == 'tcp']
    disabled = obs['exc'] is None and obs['consumed'] == 0
    by_dgram = {}
    # ---- every datagram sent is a bounded, well-formed announcement of this node
    for ev in obs['sends']:
        by_dgram.setdefault(ev['i'], []).append(ev)
        data = bytes.fromhex(ev['hex'])
        where = 'start-up announcement' if ev['i'] < 0 else f'answer to datagram {ev["i"]}'
        if len(data) > LIMIT:
            fail('oversize', f'{where} has {len(data)} bytes', startup=ev['i'] < 0, disabled=disabled)
        try:
            v = json.loads(data.decode('utf-8'))
        except (UnicodeDecodeError, ValueError) as e:
            fail('malformed', f'{where} is not UTF-8 JSON: {type(e).__name__}')
            continue
        if not isinstance(v, dict) or v.get('SECoP') != 'node':
            fail('malformed', f'{where} is not a JSON object with SECoP=node')
            continue
        port = v.get('port')
        if type(port) is not int or port not in ev.get('open', tcp_ports):
            fail('wrong-port', f'{where} carries port {port!r}, opened tcp ports are {ev.get("open", tcp_ports)}')
        fw = v.get('firmware')
        if v.get('equipment_id') != case['eid'] or not isinstance(fw, str) or not fw.endswith(case['version']):
            fail('identity', f'{where} does not carry the equipment id / firmware version')
        d = v.get('description')
        if not isinstance(d, str) or not desc0.startswith(d):
            fail('description', f'{where}: description is not a prefix of the configured one')
        elif d != desc0:
            full = len(data) - _jlen(d) + _jlen(desc0) + (5 - len(str(port)) if type(port) is int else 0)
            if full <= LIMIT:
                fail('description', f'{where}: description truncated although the whole message has {full} bytes')
        if ev['i'] >= 0:
            item = obs['script'][ev['i']]
            if list(ev['to']) != ADDRS[item['from']]:
                fail('wrong-destination', f'{where} sent to {ev["to"]}, asked from {ADDRS[item["from"]]}')
    # ---- disabled only when the identity alone does not fit
    if disabled:
        n = identity_len(case, obs)
        if n <= LIMIT:
            fail('disabled-though-identity-fits',
                 f'responder does not listen, but identity alone needs {n} bytes (port 65535, empty description)')
        return fails
    # ---- answers iff discovery request, and keeps answering
    n_handled = obs['consumed']
    if obs['exc'] is not None:
        killer = obs['script'][obs['consumed'] - 1]
        fail('killed', f'datagram {obs["consumed"] - 1} ({killer.get("hex", "")[:80]}) ended the responder with '
             f'{obs["exc"]}; later requests are not answered', exc=obs['exc'],
             killer=killer.get('hex'))
        n_handled -= 1
    for i, item in enumerate(obs['script']):
        if 'error' in item:
            break          # socket closed (shutdown): nothing more is expected
        if i >= n_handled:
            if obs['exc'] is None:
                fail('stopped-listening', f'run() returned before datagram {i} without a socket error')
            break
        data = bytes.fromhex(item['hex'])
        verdict = spec_is_request(data)
        if len(data) > bufsize and verdict != spec_is_request(data[:bufsize]):
            verdict = None         # longer than any reasonable receive buffer: either reading is accepted
        got = by_dgram.get(i, [])
        if verdict is True:
            ports = []
            for ev in got:
                try:
                    ports.append(json.loads(bytes.fromhex(ev['hex']).decode('utf-8')).get('port'))
                except Exception:
                    ports.append(None)
            if sorted(map(str, ports)) != sorted(map(str, tcp_ports)):
                fail('no-answer', f'discovery request {i} answered for ports {ports}, expected {tcp_ports}')
        elif verdict is False and got:
            fail('spurious-answer', f'datagram {i} ({item["hex"][:80]}) is not a discovery request but was answered')
    return fails


def _needs_escape(s):
    return any(c in '"\\' or ord(c) < 0x20 for c in s)


FINDING_CLASSIFIERS = {
    # budgeting compares the raw description bytes with an overshoot that counts the escaped bytes
    'disabled_by_escape_heavy_description': lambda case, obs, f: (
        f['class'] == 'disabled-though-identity-fits' and _needs_escape(case['desc'] or '')),
    # repaired in /repo (the oracle reports them again if they return):
    #   killed-by-datagram (fix 8298523), oversize-announcement-when-disabled (fix d6d9c1c)
}


def nontrivial_key(case, obs):
    if obs.get('init_exc') is not None or obs.get('run_exc') is not None:
        return None
    if not obs['sends'] and not obs['consumed'] and not case.get('events'):
        return None
    key = json.dumps([case['eid'], case['version'], case['desc'], case.get('ifaces'), case.get('bcast'),
                      case.get('configured'), case.get('events'), case['dgrams'], bool(case.get('real'))],
                     sort_keys=True)
    if len(key) > 400:       # very long datagrams: the digest is as distinct as the text
        import hashlib
        key = hashlib.sha256(key.encode()).hexdigest()
    return key


def outcome_labels(case, obs):
    if obs.get('init_exc') is not None:
        return ['constructor-raised']
    if obs.get('run_exc') is not None:
        return ['server-raised']
    labs = set()
    if case.get('server'):
        labs.add('server-run')
        done = {int(i): bool(ok) for i, ok in case['events']}
        for i in range(len(case['configured'])):
            labs.add('iface:' + ('hanging-at-time-out' if i not in done else 'opened' if done[i] else 'failed'))
        if len(set(case['configured'])) < len(case['configured']):
            labs.add('iface:configured-twice')
        if not obs['listener']:
            return sorted(labs | {'no-responder-created'})
    labs.add('enabled' if obs['enabled'] else 'disabled')
    if obs['desc'] != (case['desc'] or ''):
        labs.add('description-truncated')
    labs.add('ended:' + (obs['exc'] or ('not-listening' if obs['consumed'] == 0 else 'socket-closed')))
    for i, item in enumerate(obs['script'][:obs['consumed']]):
        if 'error' in item:
            labs.add('dgram:socket-error')
            continue
        data = bytes.fromhex(item['hex'])
        v = spec_is_request(data)
        labs.add('dgram:request' if v else 'dgram:ambiguous' if v is None else 'dgram:other')
        if len(data) > 1024:
            labs.add('dgram:oversized')
        depth = max(data.count(b'['), data.count(b'{'))
        if depth >= 64:
            labs.add('dgram:nested>=limit' if depth >= json_limit() else
                     'dgram:nested>=recv-size' if depth >= 1024 else 'dgram:nested')
    if any(ev['i'] >= 0 for ev in obs['sends']):
        labs.add('answered')
    if any(ev['i'] < 0 for ev in obs['sends']):
        labs.add('announced')
    if case.get('real'):
        labs.add('real-udp-socket')
    return sorted(labs)


def sample_repr(case, obs):
    o = {k: v for k, v in obs.items() if k not in ('gal',)}
    c = dict(case)
    if any(len(d.get('hex', '')) > 200 for d in c['dgrams']):
        short = lambda d: dict(d, hex=d['hex'][:60] + f'...({len(d["hex"]) // 2} bytes)') \
            if len(d.get('hex', '')) > 200 else d
        c['dgrams'] = [short(d) for d in c['dgrams']]
        if 'script' in o:
            o['script'] = [short(d) for d in o['script']]
    for k in ('eid', 'version', 'desc'):
        if c.get(k) and len(c[k]) > 60:
            c[k] = c[k][:40] + f'...({len(c[k])} code points)'
    if 'sends' in o:
        o['sends'] = [{'i': e['i'], 'len': len(e['hex']) // 2, 'to': e['to']} for e in o['sends']][:6]
    if isinstance(o.get('desc'), str) and len(o['desc']) > 60:
        o['desc'] = o['desc'][:40] + f'...({len(o["desc"])} code points)'
    return {'case': c, 'observed': o}


# ------------------------------------------------------------------ generators
ASCII = 'abcdefghijklmnopqrstuvwxyzABCDEFGHIJKLMNOPQRSTUVWXYZ0123456789 _-.,:/'
CLASSES = {
    'a': list('azAZ09 _~') + ['\x7f'],
    'q': ['"', '\\'],
    'c2': ['\n', '\r', '\t', '\b', '\f'],
    'c6': ['\x00', '\x01', '\x0b', '\x1f', '\x0e'],
    'b2': ['\u00e9', '\u0080', '\u07ff', '\u00df'],
    'b3': ['\u0800', '\u20ac', '\uffff', '\ud7ff', '\ue000', '\u2028', '\u4e2d'],
    'b4': ['\U00010000', '\U0001f600', '\U0010ffff'],
}
CLASS_NAMES = list(CLASSES)


def _rand_short(rng, maxlen=12):
    return ''.join(rng.choice(ASCII) for _ in range(rng.randint(0, maxlen)))


def _segments(rng, nseg, maxcount, weights=None):
    s = ''
    for _ in range(nseg):
        cls = rng.choices(CLASS_NAMES, weights or [6, 1, 1, 1, 2, 2, 2])[0]
        s += rng.choice(CLASSES[cls]) * rng.randint(1, maxcount)
    return s


def _fill_to(rng, prefix, tail, target):
    """prefix + filler + tail whose JSON-escaped UTF-8 length is about target"""
    need = target - _jlen(prefix) - _jlen(tail)
    if need <= 0:
        return prefix + tail
    cls = rng.choices(CLASS_NAMES, [8, 1, 1, 1, 2, 2, 2])[0]
    ch = rng.choice(CLASSES[cls])
    return prefix + ch * (need // _jlen(ch)) + rng.choice('abc') * (need % _jlen(ch)) + tail


def gen_strings(rng):
    """(eid, version, desc) by scenario"""
    budget = LIMIT - 85           # room for escaped eid + version + escaped description (5 digit port)
    sc = rng.choices(['small', 'desc-edge', 'desc-long', 'id-edge', 'id-long', 'escape-heavy', 'none'],
                     [2, 8, 3, 5, 1, 3, 1])[0]
    eid = _rand_short(rng, 10) or 'x'
    if rng.random() < 0.3:
        eid += _segments(rng, rng.randint(1, 2), 20)
    version = rng.choice(['v1', '0.20.4', '1.0-12-gabcdef', 'v' + _rand_short(rng, 8)])
    if sc == 'small':
        desc = _segments(rng, rng.randint(0, 3), 8)
    elif sc == 'none':
        desc = None
    elif sc == 'desc-edge':
        used = _jlen(eid) + len(version)
        target = budget - used + rng.randint(-6, 14)
        tail = _segments(rng, rng.randint(0, 3), 4, [2, 1, 1, 1, 3, 3, 3])
        desc = _fill_to(rng, _rand_short(rng, 6), tail, target)
    elif sc == 'desc-long':
        desc = _fill_to(rng, _rand_short(rng, 6), _segments(rng, rng.randint(0, 3), 60), rng.randint(450, 1500))
    elif sc == 'id-edge':
        which = rng.random()
        target = budget + rng.randint(-7, 7)
        if which < 0.6:
            eid = _fill_to(rng, eid[:6], _segments(rng, rng.randint(0, 2), 3), target - len(version))
        else:
            version = 'v' + 'x' * max(0, target - _jlen(eid) - 1)
        desc = rng.choice(['', 'd', _segments(rng, 2, 10), _fill_to(rng, '', '', rng.randint(1, 40)), None])
    elif sc == 'id-long':
        eid = _fill_to(rng, eid[:6], '', rng.randint(budget + 8, 900))
        desc = rng.choice(['', 'some description', _segments(rng, 2, 30)])
    else:   # escape-heavy description
        cls = rng.choice(['q', 'c2', 'c6', 'c6'])
        ch = rng.choice(CLASSES[cls])
        used = _jlen(eid) + len(version)
        room = budget - used
        # number of escaped characters around the point where raw-length budgeting gives up
        per = _jlen(ch)
        crit = room // (per - 1) if per > 1 else room
        n = max(0, rng.choice([crit + rng.randint(-4, 4), room // per + rng.randint(-3, 6), rng.randint(1, 2 * crit + 5)]))
        desc = _rand_short(rng, 5) + ch * n + _segments(rng, rng.randint(0, 2), 5)
    return eid, version, desc


REQ = b'{"SECoP":"discover"}'
REQUESTS = [
    REQ, b'{"SECoP": "discover"}', b' {\n"SECoP"\t:\r"discover" } ', b'{"SECoP":"\\u0064iscover"}',
    b'{"\\u0053ECoP":"discover"}', b'{"x":1,"SECoP":"discover"}', b'{"SECoP":"discover","port":[1,{"a":null}]}',
    b'{"SECoP":"discover","x":"\xc3\xa9\xe2\x82\xac\xf0\x9f\x98\x80"}', b'{"a":{"SECoP":"node"},"SECoP":"discover"}',
    b'{"SECoP":"discover","y":1.5e300,"z":-0}',
]
OTHER_OBJECTS = [
    b'{}', b'{"SECoP":"node"}', b'{"SECoP":5}', b'{"SECoP":null}', b'{"SECoP":true}', b'{"SECoP":["discover"]}',
    b'{"SECoP":{"SECoP":"discover"}}', b'{"secop":"discover"}', b'{"SECoP":"discover "}', b'{"SECoP":"Discover"}',
    b'{"SECoP":""}', b'{"a":{"SECoP":"discover"}}', b'{"discover":"SECoP"}', b'{"SECoP ":"discover"}',
    b'{"SECoP":"node","port":10767,"equipment_id":"x","firmware":"f","description":""}',
]
OTHER_JSON = [
    b'5', b'0', b'-1.5e3', b'null', b'true', b'false', b'"abc"', b'""', b'"xSECoPy"', b'"SECoP"', b'"secop"',
    b'"discover"', b'[]', b'[1,2]', b'["SECoP"]', b'["SECoP","discover"]', b'[["SECoP"]]', b'["secop"]',
    b'[null,"SECoP"]', b'[{"SECoP":"discover"}]', b'NaN', b'Infinity', b'"\\u0053ECoP"', b' 7 ',
]
BAD_JSON = [
    b'', b' ', b'{', b'}', b'{"SECoP":"discover"', b"{'SECoP':'discover'}", b'discover', REQ + b'x', REQ + REQ,
    b'\xef\xbb\xbf' + REQ, b'{"SECoP":discover}', b'[', b'"abc', b'{"SECoP":"discover",}', b'\x00', b'nul',
    b'{"SECoP":"dis\ncover"}', b'\\', b'{"SECoP":"discover"}\x00',
]
BAD_UTF8 = [
    b'\xff', b'\xc3', b'\x80', REQ + b'\x80', b'\xed\xa0\x80', b'\xc0\xaf', b'\xf4\x90\x80\x80', b'\xe2\x82',
    b'{"SECoP":"discover","x":"\xe9"}', b'\xf8\x88\x80\x80\x80', b'"\xed\xb0\x80"', b'\xf0\x80\x80\x80',
    b'\xe0\x9f\xbf', b'\xc1\xbf', b'{"SECoP":"disc\xf5ver"}',
]
OVERSIZED = [
    REQ + b' ' * 1500, b' ' * 1010 + REQ, b' ' * 1004 + REQ, b'{"SECoP":"discover","pad":"' + b'a' * 1100 + b'"}',
    b'a' * 1024, b'"' + b'a' * 1021 + b'\xc3\xa9"', b'"' + b'a' * 1022 + b'\xc3\xa9"', b'[' * 1024 + b']' * 1024,
    b'{"pad":"' + b'b' * 990 + b'","SECoP":"discover"}', b'7' * 1025, b' ' * 1023 + b'5' + REQ,
    b'"' + b'\xe2\x82\xac' * 341 + b'"',
]


def nested_catalogue(huge=False):
    """deeply nested and very long datagrams around the receive size of the code (1024) and around the nesting limit
    of json.loads measured on this interpreter (a band of 24 levels around the limit itself is left out)"""
    T, R, band = json_limit(), 1024, 24
    deep, shallow = T + band, T - band
    res = [b'[' * k for k in (R - 1, R, R + 1, shallow, deep, 2 * T)]
    res += [
        b'{"a":' * deep, b'{"a":' * 300, b'[{"a":' * (deep // 2 + 1), b'[' * shallow + b']' * shallow,
        b'[' * deep + b']' * deep, b'{"a":' * shallow + b'1' + b'}' * shallow,
        REQ[:-1] + b',"x":' + b'[' * 400 + b']' * 400 + b'}',          # a request that fits into 1024 bytes
        REQ[:-1] + b',"x":' + b'[' * 600 + b']' * 600 + b'}',          # a request cut inside the nesting
        REQ[:-1] + b',"x":' + b'[' * deep + b']' * deep + b'}',        # a request nested beyond the limit
        b' ' * 1020 + b'[' * deep,                                     # the brackets start at the cut
        b'[' * 1000 + b'\xff', b'[' * deep + b'\xff', b'\xff' + b'[' * deep,
        b'7' * 5000, b'-' + b'7' * 4400, b'"' + b'a' * 3000 + b'"', b' ' * 2000 + REQ, REQ + b' ' * 3000,
        b'[' * 600 + b'"\xe2\x82\xac"' + b']' * 600,
    ]
    if huge:
        res += [b'[' * 60000, b'{"a":' * 12000, REQ + b' ' * 60000, b'[1,' * 20000, b'[' * 30000 + b']' * 30000]
    return [d for d in res if len(d) <= 65000]


def _rand_bytes(rng):
    return bytes(rng.randrange(256) for _ in range(rng.randint(1, 12)))


def _rand_jsonish(rng):
    """small random JSON texts around the filter expression"""
    keys = ['SECoP', 'SECoP', 'secop', 'port', 'x', 'SECoPx', '']
    vals = ['"discover"', '"discover"', '"node"', '5', 'null', '[]', '{}', '"SECoP"', '"discoverx"', '1.0', 'true']
    kind = rng.random()
    if kind < 0.5:
        n = rng.randint(0, 3)
        body = ','.join(f'"{rng.choice(keys)}":{rng.choice(vals)}' for _ in range(n))
        return ('{' + body + '}').encode()
    if kind < 0.7:
        return ('[' + ','.join(rng.choice(vals) for _ in range(rng.randint(0, 3))) + ']').encode()
    if kind < 0.85:
        return json.dumps(rng.choice(['', 'x', 'SECoP', 'the SECoP node', 'SECo', 'P', 'secoP'])).encode()
    return rng.choice(vals).encode()


def gen_dgrams(rng, hostile=True):
    n = rng.choice([0, 1, 2, 3, 4, 5, 7])
    res = []
    for _ in range(n):
        k = rng.random()
        if k < 0.38:
            data = rng.choice(REQUESTS)
        elif k < 0.52:
            data = rng.choice(OTHER_OBJECTS)
        elif k < 0.62:
            data = rng.choice(BAD_JSON)
        elif k < 0.74:
            data = _rand_jsonish(rng)
        elif k < 0.80:
            data = rng.choice(OVERSIZED + nested_catalogue())
        elif not hostile:
            data = rng.choice(REQUESTS + OTHER_OBJECTS)
        elif k < 0.88:
            data = rng.choice(OTHER_JSON)
        elif k < 0.95:
            data = rng.choice(BAD_UTF8)
        elif k < 0.98:
            data = _rand_bytes(rng)
        else:
            res.append({'error': True})
            continue
        res.append({'hex': data.hex(), 'from': rng.randrange(len(ADDRS))})
    return res


PORTS = [1, 9, 80, 999, 1000, 9999, 10000, 10767, 65535]


def gen_ifaces(rng):
    k = rng.random()
    if k < 0.05:
        return ['ws://8010']
    n = rng.choice([1, 1, 1, 2, 2, 3])
    ports = rng.sample(PORTS + [rng.randint(1, 65535)], n)
    res = [f'tcp://{p}' for p in ports]
    if rng.random() < 0.25:
        res.insert(rng.randrange(len(res) + 1), 'ws://8010')
    return res


def rand_case(rng):
    eid, version, desc = gen_strings(rng)
    return {'eid': eid, 'version': version, 'desc': desc, 'ifaces': gen_ifaces(rng),
            'bcast': rng.random() < 0.7, 'dgrams': gen_dgrams(rng, hostile=rng.random() < 0.8)}


def exhaustive_cases():
    """every catalogue datagram alone (followed by a request), and every single-character description class at
    every cut position around the limit"""
    res = []
    follow = {'hex': REQ.hex(), 'from': 1}
    for data in REQUESTS + OTHER_OBJECTS + OTHER_JSON + BAD_JSON + BAD_UTF8 + OVERSIZED + nested_catalogue(huge=True):
        res.append({'eid': 'eq', 'version': 'v1', 'desc': 'd', 'ifaces': ['tcp://10767', 'tcp://9'], 'bcast': False,
                    'dgrams': [{'hex': data.hex(), 'from': 0}, follow]})
    budget = LIMIT - 85 - len('eq') - len('v1')
    for cls, chars in CLASSES.items():
        for ch in chars[:2]:
            per = _jlen(ch)
            for delta in range(-3, 9):
                for lead in ('', 'a'):
                    n = max(0, (budget + delta) // per)
                    res.append({'eid': 'eq', 'version': 'v1', 'desc': lead + ch * n + 'zz', 'ifaces': ['tcp://65535'],
                                'bcast': True, 'dgrams': [follow]})
    return res


def server_case(rng):
    """Server.run: 1-4 configured interfaces; a random order of the interface threads, each opens / fails / is still
    inside its constructor at the time-out"""
    n = rng.choice([1, 2, 2, 3, 3, 4])
    ports = rng.sample(PORTS + [rng.randint(1, 65535), rng.randint(1, 65535)], n)
    conf = []
    for p in ports:
        k = rng.random()
        conf.append(f'tcp://{p}' if k < 0.6 else str(p) if k < 0.8 else f'ws://{p}')
    if n > 1 and rng.random() < 0.08:
        conf[-1] = conf[0]                 # the same interface configured twice
    order = list(range(n))
    rng.shuffle(order)
    events = []
    bound = set()
    for i in order:
        k = rng.random()
        if k < 0.5:
            # an address can be bound once: the second interface thread for the same uri fails
            events.append([i, conf[i] not in bound])
            bound.add(conf[i])
        elif k < 0.75:
            events.append([i, False])
    if rng.random() < 0.3:
        eid, version, desc = gen_strings(rng)
    else:
        eid, version, desc = 'node.' + (_rand_short(rng, 6) or 'x'), 'v1', rng.choice([None, '', 'a demo node', 'd\u00e9mo \u20ac'])
    dgrams = [{'hex': REQ.hex(), 'from': rng.randrange(len(ADDRS))}] + gen_dgrams(rng)[:3]
    rng.shuffle(dgrams)
    return {'server': True, 'eid': eid, 'version': version, 'desc': desc, 'configured': conf, 'events': events,
            'dgrams': dgrams}


def server_sweep():
    """every combination of opened / failed / hanging for 1-3 interfaces, the threads finishing in configured and in
    reverse order"""
    import itertools
    res = []
    follow = {'hex': REQ.hex(), 'from': 1}
    for n in (1, 2, 3):
        conf = [['tcp://10767'], ['tcp://10767', '10768'], ['ws://8010', 'tcp://10767', '9']][n - 1]
        for outcome in itertools.product('ofh', repeat=n):
            for rev in (False, True):
                idx = [i for i in range(n) if outcome[i] != 'h']
                if rev:
                    if len(idx) < 2:
                        continue
                    idx.reverse()
                res.append({'server': True, 'eid': 'eq', 'version': 'v1', 'desc': 'd', 'configured': conf,
                            'events': [[i, outcome[i] == 'o'] for i in idx], 'dgrams': [follow]})
    return res


def real_cases(rng, n):
    res = []
    for _ in range(n):
        c = rand_case(rng)
        c['real'] = True
        c['bcast'] = False
        # datagrams longer than the receive buffer are cut by the kernel exactly like by the fake
        res.append(c)
    return res


def gen_cases(seed, tier):
    rng = random.Random(seed * 1000003 + 19)
    n = {'quick': 3000, 'thorough': 40000, 'search': 40000}[tier]
    cases = [rand_case(rng) for _ in range(n)]
    cases.extend(exhaustive_cases())
    cases.extend(server_sweep())
    cases.extend(server_case(rng) for _ in range({'quick': 260, 'thorough': 4000, 'search': 4000}[tier]))
    if tier != 'quick':
        cases.extend(real_cases(rng, 400))
    else:
        cases.extend(real_cases(rng, 24))
    return cases


def shrink(case):
    dg = case['dgrams']
    for i in range(len(dg) - 1, -1, -1):
        yield dict(case, dgrams=dg[:i] + dg[i + 1:])
    if case.get('server'):
        conf, evs = case['configured'], case['events']
        if len(conf) > 1:
            for i in range(len(conf)):         # drop interface i together with its event
                yield dict(case, configured=conf[:i] + conf[i + 1:],
                           events=[[j - (j > i), ok] for j, ok in evs if j != i])
        for k in range(len(evs)):              # a failing interface instead of an opened one / of a hanging one
            if evs[k][1]:
                yield dict(case, events=evs[:k] + [[evs[k][0], False]] + evs[k + 1:])
        if evs != sorted(evs):
            yield dict(case, events=sorted(evs))
    else:
        if len(case['ifaces']) > 1:
            for i in range(len(case['ifaces'])):
                yield dict(case, ifaces=case['ifaces'][:i] + case['ifaces'][i + 1:])
        if case['bcast']:
            yield dict(case, bcast=False)
    for i, item in enumerate(dg):              # a long datagram: half of it, or its essential prefix
        h = item.get('hex', '')
        if len(h) > 64:
            for cut in (len(h) // 4 * 2, len(h) - 2):
                yield dict(case, dgrams=dg[:i] + [dict(item, hex=h[:cut])] + dg[i + 1:])
    for k in ('desc', 'eid', 'version'):
        s = case[k]
        if s:
            yield dict(case, **{k: s[:len(s) // 2]})
            yield dict(case, **{k: s[:-1]})
            yield dict(case, **{k: s[1:]})
