"""C13 — poll thread (frappy/modulebase.py Module.__pollThread, callPollFunc, PollInfo, setFastPoll):
implementation driver (virtual time), case encoder, direct oracle, generators"""
import random

from harness import gal

ID = 'C13'
MODEL_TARGETS = ['theories/C13/Run.vo']
PROOF_TARGETS = ['theories/C13/Properties.vo']
PROPERTIES_V = 'theories/C13/Properties.v'
IMPORTS = ('From Coq Require Import Uint63.\nRequire Import FV.Gen.C13 FV.C13.Model FV.C13.Run.\n'
           'Open Scope uint63_scope.')
CASE_TYPE = 'case'
CHECK = 'check_case'
SHARD_SIZE = 150
TICK = 1024            # ticks per second: every time / interval / duration is a multiple of 2**-10 s
RULE = ('1..4 fake modules (0..4 parameters each: no read function / plain read / ReadHandler / CommonReadHandler, '
        'with and without @nopoll; optional configured write, optional initialReads; enablePoll on/off) served by the '
        'real Module._Module__pollThread, run synchronously against a virtual clock (2**-10 s ticks) and a fake trigger '
        'event for a fixed number of loop turns; poll intervals incl. 0 and shorter than a read, slow intervals, per-call '
        'duration and outcome scripts (ok, SECoP error, silent error, arbitrary exception, communication failure), '
        'run-time actions at virtual times (pollinterval change, setFastPoll, trigger, immediate trigger, reconnect '
        'callback, shutdown; also two requests at the same virtual time), persisting communication failures at '
        'start-up; explicit durations of the driver functions of specific modules (an earlier module whose doPoll lasts '
        'longer than its poll interval for a while and a later module with a long interval; a first module whose pass '
        'through its slow polls exceeds its slowinterval and further modules with slow-polled parameters); '
        'start-up reads abandoned after a communication failure (polled parameters that were never announced when the '
        'main loop starts); modules with enablePoll = False and a configured write sharing the thread with polled ones, '
        'with run-time requests addressed to them; '
        'a case is non-trivial when the poller made at least 3 calls; distinct = distinct '
        '(module descriptors, consumed scripts, actions) tuples')
ASSUMPTIONS = [
    'virtual time: the clock advances only by scripted call durations, by Event.wait time-outs and by a per-turn '
    'overhead eps (given per case, 0..3 ticks) charged when the loop condition `while modules` is evaluated; '
    'all times, intervals and durations are multiples of 2**-10 s so that the float arithmetic of the poller is exact',
    'Event.wait(timeout) returns exactly at the time-out (rounded to a tick) or at the first run-time action before it',
    'run-time requests of other threads run while the poller sleeps (inside a driver call or Event.wait) and, when they '
    'are due but did not run yet (they fell into the per-turn overhead or share their time with the request that ended '
    'a wait), at the moment the poller enters Event.wait or Event.clear - the interleaving in which a lost wake-up shows',
    'read functions return a fresh value on every successful call (so announceUpdate always refreshes the timestamp); '
    'the announceUpdate rule "repeated identical error does not refresh timestamp/report_error=False" is modelled',
    'exceptions are Exception subclasses (BaseException such as SystemExit is deliberately not contained by the code)',
    'OS scheduling of the real thread, real-time behaviour of threading.Event and float rounding for non-dyadic '
    'intervals are outside the model',
]

NPAR = 4
STARTUP_WAIT = 102      # the 0.1 s the thread waits for a reconnection after a communication failure at start-up
ERRK = {'secop': 1, 'silent': 2, 'other': 3, 'comm': 4}


class Abort(BaseException):
    pass


# ------------------------------------------------------------------ implementation driver
_class_cache = {}
_uniq = [0]


def _make_class(desc_key, mdesc):
    """fake module class for a module descriptor (cached per worker process)"""
    from frappy.modulebase import Module
    from frappy.params import Parameter
    from frappy.datatypes import FloatRange
    from frappy.rwhandler import ReadHandler, CommonReadHandler, nopoll

    if desc_key in _class_cache:
        return _class_cache[desc_key]
    ns = {'pollinterval': Parameter('poll interval', FloatRange(0), default=5, readonly=False)}
    params = mdesc['params']
    for i, p in enumerate(params):
        ns[f'p{i}'] = Parameter(f'parameter {i}', FloatRange(), default=0)

    def mk_read(i):
        def read(self):
            return self._verif.body(self, ('read', i))
        read.__name__ = f'read_p{i}'
        return read

    def mk_handler(keys, np):
        def read_h(self, pname):
            return self._verif.body(self, ('read', int(pname[1:])))
        _uniq[0] += 1
        read_h.__qualname__ = f'read_h_{_uniq[0]}'
        if np:
            read_h = nopoll(read_h)
        return ReadHandler(keys)(read_h)

    for i, p in enumerate(params):
        if p['kind'] == 'read':
            f = mk_read(i)
            if p['nopoll']:
                f = nopoll(f)
            ns[f'read_p{i}'] = f
        elif p['kind'] == 'handler':
            ns[f'_h{i}'] = mk_handler((f'p{i}',), p['nopoll'])
    common = [i for i, p in enumerate(params) if p['kind'] == 'common']
    if common:
        keys = tuple(f'p{i}' for i in common)

        def read_common(self):
            v = self._verif.body(self, ('read', common[0]))
            setattr(self, keys[0], v)
        _uniq[0] += 1
        read_common.__qualname__ = f'read_common_{_uniq[0]}'
        if params[common[0]]['nopoll']:
            read_common = nopoll(read_common)
        ns['_common'] = CommonReadHandler(keys)(read_common)
    if mdesc['winit']:
        ns['w'] = Parameter('configured writable', FloatRange(), default=0, readonly=False)

        def write_w(self, value):
            self._verif.body(self, ('winit',))
            return value
        ns['write_w'] = write_w
    if mdesc['iread']:
        def initialReads(self):
            self._verif.body(self, ('iread',))
        ns['initialReads'] = initialReads
    main = list(mdesc['main'])

    def doPoll(self):
        run = self._verif
        run.in_main += 1
        rec = ['main', self._verif_idx, None, run.now, None]
        run.calls.append(rec)
        try:
            run.body(self, ('main',))
            for i in main:
                getattr(self, f'read_p{i}')()
        finally:
            run.in_main -= 1
            rec[4] = run.now
    ns['doPoll'] = doPoll
    if not mdesc['enable']:
        ns['enablePoll'] = False
    cls = type(f'Fake{len(_class_cache)}', (Module,), ns)
    _class_cache[desc_key] = cls
    return cls


class _Run:
    """virtual clock, trigger event, scripts, actions and logs of one case"""

    def __init__(self, case):
        self.case = case
        self.now = case['t0']
        self.flag = False
        self.actions = [list(a) for a in case['actions']]
        self.script = case['script']
        self.si = 0
        self.used = []
        self.log = []
        self.turns = 0
        self.mods = []
        self.reconnect_cb = None
        self.fired = []
        self.modlist = None
        self.owner = None
        self.in_main = 0
        self.calls = []          # top-level calls made by the poller: [kind, module, param, start, end]
        self.ncalls = {}         # (module, 0 doPoll / 1 read) -> calls so far (for cyclic explicit durations)
        self.waits = []          # [log position, start, requested time-out, actual end] of every Event.wait

    # --- clock (replaces the name `time` in frappy.modulebase)
    def time(self):
        return self.now / TICK

    def fire(self, a):
        self.now = max(self.now, a[0])
        self.fired.append([self.now] + list(a[1:]) + [len(self.log)])    # time, action..., log position
        kind = a[1]
        if kind == 'setint':
            self.mods[a[2]].pollinterval = a[3] / TICK
        elif kind == 'fast':
            self.mods[a[2]].setFastPoll(bool(a[3]), a[4] / TICK)
        elif kind == 'trig':
            pinfo = self.mods[a[2]].pollInfo
            if pinfo:
                pinfo.trigger(bool(a[3]))
        elif kind == 'reconn':
            if self.reconnect_cb:
                self.reconnect_cb()
        elif kind == 'stop':
            self.owner.stopPollThread()
        else:
            raise ValueError(a)

    def sleep(self, ticks):
        target = self.now + ticks
        while self.actions and self.actions[0][0] <= target:
            self.fire(self.actions.pop(0))
        self.now = target

    # --- trigger event
    def fire_due(self):
        """requests of other threads which are due (scheduled time <= clock) but did not run yet (they fell into the
        per-turn overhead, or share their time with the request that ended a wait) run when the poll thread enters a
        method of the trigger event: another thread is scheduled between two statements of the poll thread"""
        while self.actions and self.actions[0][0] <= self.now:
            self.fire(self.actions.pop(0))

    def is_set(self):
        return self.flag

    def set(self):
        self.flag = True

    def clear(self):
        self.fire_due()
        self.flag = False

    def wait(self, timeout=None):
        ticks = int(round(timeout * TICK))
        self.fire_due()
        rec = [len(self.log), self.now, ticks, None]     # log position, start, requested time-out, actual end
        self.waits.append(rec)
        self.log.append(['wait', self.now, ticks])
        try:
            if self.flag:
                return True
            target = self.now + max(0, ticks)
            if self.actions and self.actions[0][0] <= target:
                self.fire(self.actions.pop(0))
                return self.flag
            self.now = target
            return self.flag
        finally:
            rec[3] = self.now

    # --- scripted bodies of driver functions
    def body(self, mod, what):
        m = mod._verif_idx
        kind = what[0]
        if kind == 'read' and self.in_main:
            kind = 'mread'
        self.log.append([kind, self.now, m] + list(what[1:]))
        rec = None
        if not self.in_main:
            rec = [kind, m, what[1] if len(what) > 1 else None, self.now, None]
            self.calls.append(rec)
        ent = self.script[self.si] if self.si < len(self.script) else [1, 'ok']
        # explicit durations of the driver functions of SPECIFIC modules (case['durs'][m] = [doPoll body, read function],
        # None = from the script, a number, or a list used cyclically by the successive calls of this function of this
        # module - a device that is sluggish for a while): the outcome still comes from the script, the entry really
        # used is recorded
        durs = self.case.get('durs')
        if durs and m < len(durs) and durs[m]:
            col = 0 if kind == 'main' else 1 if kind in ('read', 'mread') else None
            d_over = durs[m][col] if col is not None else None
            if isinstance(d_over, list):
                k = self.ncalls.get((m, col), 0)
                self.ncalls[(m, col)] = k + 1
                d_over = d_over[k % len(d_over)] if d_over else None
            if d_over is not None:
                ent = [d_over, ent[1]]
        self.used.append(ent)
        self.si += 1
        dur, out = ent
        self.sleep(dur)
        if rec:
            rec[4] = self.now
        if out == 'ok':
            return float(self.si)
        from frappy import errors
        kind, k = out
        if kind == 'secop':
            raise errors.HardwareError(f'scripted {k}')
        if kind == 'silent':
            raise errors.SilentCommunicationFailedError(f'scripted {k}')   # what frappy.io calls SilentError
        if kind == 'comm':
            raise errors.CommunicationFailedError(f'scripted {k}')
        raise ValueError(f'scripted {k}')


class _HookList(list):
    """the `modules` list of the poll thread: its truth value is tested once per loop turn"""
    run = None

    def __bool__(self):
        r = self.run
        if r.turns >= r.case['turns']:
            raise Abort()
        r.turns += 1
        if len(self) == 0:
            return False
        r.now += r.case['eps']
        r.log.append(['turn', r.now])
        return True


class _Log:
    def __getattr__(self, name):
        return lambda *a, **k: None


class _Dispatcher:
    def announce_update(self, moduleobj, pobj):
        pass


class _Srv:
    def __init__(self):
        self.dispatcher = _Dispatcher()
        self.secnode = None


def run_case(case):
    import frappy.modulebase as mb
    from frappy.lib import generalConfig
    generalConfig.testinit()
    run = _Run(case)
    orig_time = mb.time
    mb.time = run
    try:
        srv = _Srv()
        mods = []
        for idx, md in enumerate(case['mods']):
            key = repr((md['enable'], md['winit'], md['iread'], md['main'],
                        [(p['kind'], p['nopoll']) for p in md['params']]))
            cls = _make_class(key, md)
            cfg = {'description': 'fake', 'slowinterval': md['si'] / TICK}
            if md['winit']:
                cfg['w'] = {'value': 1.0}
            m = cls(f'm{idx}', _Log(), cfg, srv)
            m._verif = run
            m._verif_idx = idx
            # not through the configuration: a configured pollinterval is "written" by writeInitParams, which sets
            # the trigger event depending on the omit_unchanged_within rule of announceUpdate (not part of C13)
            m.pollinterval = md['pi'] / TICK
            if m.errors:
                raise RuntimeError(f'module errors {m.errors}')
            mods.append(m)
        run.mods = mods
        owner = mods[0]
        run.owner = owner
        if case.get('reconn'):
            def register(name, func):
                run.reconnect_cb = func
            owner.registerReconnectCallback = register
        modlist = _HookList(mods)
        modlist.run = run
        owner.polledModules = modlist
        owner.triggerPoll = run
        owner._Module__poller = True      # so that stopPollThread() acts
        started = []
        end = 'returned'
        try:
            owner._Module__pollThread(modlist, lambda: (started.append(run.now), run.log.append(['started', run.now])))
        except Abort:
            end = 'budget'
        except Exception as e:   # the thread died
            end = 'crashed:' + type(e).__name__
        pinfos = []
        for m in mods:
            pi = m.pollInfo
            if pi is None:
                pinfos.append(None)
            else:
                pinfos.append({'interval': _ticks(pi.interval), 'last_main': _ticks(pi.last_main),
                               'last_slow': _ticks(pi.last_slow), 'fast': bool(pi.fast_flag),
                               'pending': sorted(pi.pending_errors),
                               'polled': [_pidx(r.__name__) for _, r, _ in pi.polled_parameters],
                               'ts': [_ticks_opt(m.parameters[f'p{i}'].timestamp)
                                      for i in range(len(case['mods'][len(pinfos)]['params']))]})
        return {'log': run.log, 'end': end, 'started': started, 'now': run.now, 'used': run.used,
                'pinfo': pinfos, 'fired': run.fired, 'calls': run.calls, 'waits': run.waits, 'flag': run.flag,
                'alive': len(modlist) > 0}
    finally:
        mb.time = orig_time


def _pidx(name):
    """read_p<i> -> i; any other read function (never expected in the poll list) -> 99"""
    tail = name[len('read_p'):]
    return int(tail) if name.startswith('read_p') and tail.isdigit() else 99


def _ticks_opt(x):
    """time stamp of a parameter; anything that is not a number (e.g. None as "never announced") is recorded as None,
    it is data about the code under test and must not stop the driver"""
    if isinstance(x, bool) or not isinstance(x, (int, float)):
        return None
    return _ticks(x)


def _ticks(x):
    t = x * TICK
    if t != int(t):
        raise ValueError(f'not a tick multiple: {x!r}')
    return int(t)


# ------------------------------------------------------------------ encoding into Gallina
def _kinds(md):
    """python parameter descriptors -> model kinds"""
    res = []
    first = True
    for p in md['params']:
        k = p['kind']
        if k == 'common':
            res.append('KCommonFirst' if first else 'KCommonRest')
            first = False
        else:
            res.append({'none': 'KNone', 'read': 'KRead', 'handler': 'KHandler'}[k])
    return res


def _nopoll_flags(md):
    """the nopoll flag of a common handler is the one of its first key"""
    common = [p for p in md['params'] if p['kind'] == 'common']
    return [bool(common[0]['nopoll']) if p['kind'] == 'common' else bool(p['nopoll']) for p in md['params']]


def enc_outcome(o):
    if o == 'ok':
        return 'OOk'
    return f'(OErr {gal.nat(ERRK[o[0]])} {gal.nat(o[1])})'


def enc_action(a):
    k = a[1]
    if k == 'setint':
        return f'(ASetInt {gal.nat(a[2])} {gal.z(a[3])})'
    if k == 'fast':
        return f'(AFast {gal.nat(a[2])} {gal.boolean(a[3])} {gal.z(a[4])})'
    if k == 'trig':
        return f'(ATrig {gal.nat(a[2])} {gal.boolean(a[3])})'
    if k == 'reconn':
        return 'AReconn'
    if k == 'stop':
        return 'AStop'
    raise ValueError(a)


EVK = {'turn': 0, 'wait': 1, 'main': 2, 'read': 3, 'mread': 4, 'winit': 5, 'iread': 6, 'started': 7}


def enc_event(e):
    """RE kind time a b, primitive integers (uint63_scope is open in the shard files)"""
    args = [int(x) for x in e[1:]] + [0, 0]
    if min(args) < 0:
        raise ValueError(f'negative number in log entry {e}')
    return f'RE {EVK[e[0]]} {args[0]} {args[1]} {args[2]}'


def enc_mod(md):
    ps = ['{| pk := %s; pnopoll := %s |}' % (k, gal.boolean(n)) for k, n in zip(_kinds(md), _nopoll_flags(md))]
    d = ('{| enable := %s; si := %s; winit := %s; iread := %s; mainreads := %s; params := [%s] |}' % (
        gal.boolean(md['enable']), gal.z(md['si']), gal.boolean(md['winit']), gal.boolean(md['iread']),
        gal.lst(md['main'], gal.nat), '; '.join(ps)))
    return f'({d}, {gal.z(md["pi"])})'


def _fid(name):
    return 0 if name == 'doPoll' else 1 + int(name[len('read_p'):])


def enc_pinfo(p):
    if p is None:
        return 'None'
    return ('(Some {| o_interval := %s; o_last_main := %s; o_last_slow := %s; o_fast := %s; o_pending := %s; '
            'o_polled := %s; o_ts := %s |})' % (
                gal.z(p['interval']), gal.z(p['last_main']), gal.z(p['last_slow']), gal.boolean(p['fast']),
                gal.lst([_fid(n) for n in p['pending']], gal.nat), gal.lst(p['polled'], gal.nat),
                gal.lst([-1 if t is None else t for t in p['ts']], gal.z)))     # None: never equal to the model's


def encode(case, obs):
    end = 0 if obs['end'] == 'budget' else 1 if obs['end'] == 'returned' else 2
    return ('{| c_t0 := %s; c_eps := %s; c_reconn := %s; c_turns := %s; c_mods := [%s]; c_script := [%s]; '
            'c_acts := [%s]; c_log := [%s]; c_end := %s; c_now := %s; c_flag := %s; c_alive := %s; c_pinfo := [%s] |}' % (
                gal.z(case['t0']), gal.z(case['eps']), gal.boolean(case.get('reconn', False)), gal.nat(case['turns']),
                '; '.join(enc_mod(m) for m in case['mods']),
                '; '.join(f'({gal.z(d)}, {enc_outcome(o)})' for d, o in obs['used']),
                '; '.join(f'({gal.z(a[0])}, {enc_action(a)})' for a in case['actions']),
                '; '.join(enc_event(e) for e in obs['log']),
                gal.nat(end), gal.z(obs['now']), gal.boolean(obs['flag']), gal.boolean(obs['alive']),
                '; '.join(enc_pinfo(p) for p in obs['pinfo'])))


def model_result_term(case, obs):
    return f'model_trace ({encode(case, obs)})'


# ------------------------------------------------------------------ direct oracle (the property on the call log)
def spec_polled(md):
    """parameters the poller has to refresh: those with a read function that is not marked as not polled
    (for a common read handler only its first key carries the poll)"""
    res = []
    seen_common = False
    flags = _nopoll_flags(md)
    for i, p in enumerate(md['params']):
        k = p['kind']
        if k == 'none':
            continue
        if k == 'common':
            if seen_common:
                continue
            seen_common = True
        if not flags[i]:
            res.append(i)
    return res


def oracle(case, obs):
    fails = []

    def fail(cls, what):
        if not any(f['class'] == cls for f in fails):
            fails.append({'class': cls, 'what': what})

    mods = case['mods']
    n = len(mods)
    eps = case['eps']
    enabled = [i for i, m in enumerate(mods) if m['enable']]
    stop_times = [f[0] for f in obs['fired'] if f[1] == 'stop']
    t_stop = stop_times[0] if stop_times else None
    log = obs['log']

    # --- the thread survives every exception of read / poll functions
    if obs['end'].startswith('crashed'):
        fail('thread-died', f'the poll thread was terminated by {obs["end"][8:]} after {log[-1] if log else None}')
    elif obs['end'] == 'returned' and t_stop is None and enabled:
        fail('thread-returned', 'the poll thread body returned although polled modules exist and no shutdown was requested')
    if obs['end'] != 'budget':
        # no further claims about a thread that is gone (a finding, or a requested shutdown)
        pass

    # --- parameters marked as not polled are never read by the poller
    for e in log:
        if e[0] == 'read':
            m, i = e[2], e[3]
            if not mods[m]['enable'] or i not in spec_polled(mods[m]):
                fail('nopoll-read', f'the poller called read_p{i} of module {m}, which is not a polled parameter (t={e[1]})')

    # --- modules marked as not polled (enablePoll = False) are never polled: the poller calls neither their doPoll
    # (and so none of the read functions doPoll would call) nor any of their read functions; the configured write and
    # initialReads at start-up are not polls
    for e in log:
        if e[0] in ('main', 'mread') and not mods[e[2]]['enable']:
            what = 'doPoll' if e[0] == 'main' else f'read_p{e[3]} (inside doPoll)'
            fail('nopoll-module-polled', f'the poller called {what} of module {e[2]}, which has enablePoll = False '
                 f'(t={e[1]})')

    # duration bound of one call of a poll function, as observed
    D = max([c[4] - c[3] for c in obs['calls'] if c[4] is not None] + [0])
    sweep_coarse = (n + 1) * D + eps
    # one sweep of the thread's work = doPoll of every module once (each with the longest duration observed for THAT
    # module) + one slow poll (the longest observed in the loop) + the per-turn overhead
    t_first = next((e[1] for e in log if e[0] == 'turn'), None)
    dmain = {}
    dslow = 0
    for c in obs['calls']:
        if c[4] is None:
            continue
        if c[0] == 'main':
            dmain[c[1]] = max(dmain.get(c[1], 0), c[4] - c[3])
        elif c[0] == 'read' and t_first is not None and c[3] >= t_first:
            dslow = max(dslow, c[4] - c[3])
    sweep = sum(dmain.values()) + dslow + eps

    # --- main polls, turn by turn.  The requests made at run time are merged into the log by position; a request is
    # in force from the next wake-up (the next evaluation of the loop condition).
    stream = []
    fired = sorted(obs['fired'], key=lambda f: f[-1])
    fi = 0
    for pos, e in enumerate(log):
        while fi < len(fired) and fired[fi][-1] <= pos:
            stream.append(('act', fired[fi], None))
            fi += 1
        stream.append(('log', e, pos))
    stream.extend(('act', f, None) for f in fired[fi:])
    wait_end = {w[0]: w[3] for w in obs.get('waits', [])}     # log position of a wait -> time at which it returned
    mpi = {i: mods[i]['pi'] for i in range(n)}
    cur = dict(mpi)
    fastf = {i: False for i in range(n)}
    t1 = {i: None for i in enabled}            # start of the last doPoll; None: never, or an immediate poll was requested
    imax = dict(cur)                           # largest interval in force since the last doPoll
    stopped = False
    turn = None                                # {'tw', 'overdue': {m: due or None}, 'mains': [], 'reads': int}
    turns = []

    def close(tr):
        if tr is None or stopped:
            return
        for m in enabled:
            if m in tr['overdue'] and m not in tr['mains'] and m not in tr['changed']:
                fail('main-poll-late', f'module {m}: doPoll due since {tr["overdue"][m]} (interval in force {tr["cur"][m]}) '
                     f'was not started in the loop turn beginning at {tr["tw"]}')
            if tr['mains'].count(m) > 1:
                fail('sweep', f'doPoll of module {m} called more than once in the loop turn starting at {tr["tw"]}')
        if tr['reads'] > 1:
            fail('sweep', f'{tr["reads"]} slow polls in the loop turn starting at {tr["tw"]}: main polls are delayed '
                 'by more than one slow poll')

    for kind, e, pos in stream:
        if kind == 'act':
            k = e[1]
            if k == 'setint':
                mpi[e[2]] = e[3]
                if not fastf[e[2]]:
                    cur[e[2]] = e[3]
            elif k == 'fast':
                fastf[e[2]] = bool(e[3])
                cur[e[2]] = e[4] if e[3] else mpi[e[2]]
            if k in ('setint', 'fast'):
                imax[e[2]] = max(imax[e[2]], cur[e[2]])
                if turn is not None:
                    turn['changed'].add(e[2])       # a change during a turn may take effect at once
            if k == 'trig' and e[3]:
                if e[2] in t1:
                    t1[e[2]] = None
            elif k == 'reconn' and case.get('reconn'):
                for m in t1:
                    t1[m] = None
            elif k == 'stop':
                stopped = True
            continue
        if e[0] == 'turn':
            close(turn)
            tw = e[1]
            turn = {'tw': tw, 'cur': dict(cur), 'mains': [], 'reads': 0, 'changed': set(),
                    'overdue': {m: (t1[m] if t1[m] is None else t1[m] + cur[m]) for m in enabled
                                if t1[m] is None or tw > t1[m] + cur[m]}}
            turns.append(turn)
        elif turn is None:
            continue
        elif e[0] == 'main':
            m = e[2]
            if t1.get(m) is not None and not stopped and e[1] > t1[m] + imax[m] + sweep:
                fail('main-poll-late', f'module {m}: doPoll started at {e[1]}, previous start {t1[m]}, largest interval in '
                     f'force since then {imax[m]}, one sweep is {sweep}')
            turn['mains'].append(m)
            t1[m] = e[1]
            imax[m] = cur[m]
        elif e[0] == 'read':
            turn['reads'] += 1
        elif e[0] == 'wait':
            # the thread really slept from e[1] to we (a wait that returns at once because the trigger is set is no
            # sleep); the intervals in force are those requested before the wait was entered
            we = wait_end.get(pos)
            for m in enabled:
                if t1[m] is not None and we is not None and we > e[1] and we > t1[m] + cur[m] and not stopped:
                    fail('oversleep', f'module {m}: the wait entered at {e[1]} (time-out {e[2]}) lasted until {we} and '
                         f'passes the time {t1[m] + cur[m]} at which doPoll is due at the latest (last start {t1[m]}, '
                         f'interval in force when the wait was entered {cur[m]})')
    if obs['end'] == 'budget':
        close(turn)
    turns = [(t['tw'], None) for t in turns]

    # --- start-up: failing start-up calls (configured writes, initialReads, first reads; in particular communication
    # failures) do not delay the modules beyond the bounds: the main loop - and with it, by the turn rule above, the
    # first doPoll of every module - begins after at most one pass over the start-up functions (each lasting at most D),
    # the 0.1 s wait for a reconnection and the per-turn overhead
    if turns and enabled:
        nfun = (sum(1 for m in mods if m['winit']) + sum(1 for m in mods if m['iread'])
                + sum(len(spec_polled(mods[m])) for m in enabled))
        bound = case['t0'] + nfun * D + STARTUP_WAIT + eps
        if turns[0][0] > bound:
            fail('startup-late', f'the main loop was entered at {turns[0][0]}, later than {bound} = start {case["t0"]} + one '
                 f'pass over the {nfun} start-up calls of at most {D} each + {STARTUP_WAIT} reconnection wait + {eps}')

    # --- every polled parameter is refreshed within a bounded multiple of the slow interval
    if obs['end'] == 'budget' and turns:
        t_loop = turns[0][0]
        t_end = obs['now'] if t_stop is None else t_stop
        P = sum(len(spec_polled(mods[m])) for m in enabled)
        Q = (P + 2) * sweep_coarse
        for m in enabled:
            bound = 2 * mods[m]['si'] + 3 * Q
            for i in spec_polled(mods[m]):
                times = [t_loop] + [e[1] for e in log if e[0] in ('read', 'mread') and e[2] == m and e[3] == i
                                    and e[1] >= t_loop and e[1] <= t_end] + [t_end]
                for a, b in zip(times, times[1:]):
                    if b - a > bound:
                        fail('slow-poll-late', f'module {m} parameter p{i}: not read between {a} and {b} '
                             f'(slow interval {mods[m]["si"]}, bound {bound})')
        # without run-time requests: the bound proved for the model (C13_slow_bound), computed from the durations of
        # THIS case: 3/2 slowinterval + 2 * Pn * Tn + 2 * dmax, Tn = eps + (all doPoll with their reads + one slow
        # poll) * dmax the longest loop turn, Pn the number of polled parameters of all modules on the thread; the
        # theorem speaks about time stamps at the ends of loop turns, the log holds the starts of the calls: + dmax + Tn.
        # No module on the thread may be starved by the slow polls of another one.
        if not case['actions'] and not obs['fired']:
            dmax = max([d for d, _ in obs['used']] + [0])
            Tn = eps + sum((1 + len(md['main'])) * dmax for md in mods) + dmax
            for m in enabled:
                bound = (3 * mods[m]['si'] + 1) // 2 + 2 * P * Tn + 2 * dmax + dmax + Tn
                for i in spec_polled(mods[m]):
                    times = [t_loop] + [e[1] for e in log if e[0] in ('read', 'mread') and e[2] == m and e[3] == i
                                        and e[1] >= t_loop and e[1] <= t_end] + [t_end]
                    for a, b in zip(times, times[1:]):
                        if b - a > bound:
                            fail('slow-poll-late', f'module {m} parameter p{i}: not read between {a} and {b} (no run-time '
                                 f'requests; slow interval {mods[m]["si"]}, {P} polled parameters on the thread, longest '
                                 f'call {dmax}, longest turn {Tn}: proved bound 3/2*{mods[m]["si"]} + 2*{P}*{Tn} + '
                                 f'2*{dmax} + one call + one turn = {bound})')
    return fails


# no open finding: C13/initialreads-exception-kills-thread was repaired by 3828d54 (its corpus case
# corpus/C13/finding_initialreads.json now has to pass the oracle)
FINDING_CLASSIFIERS = {}


def nontrivial_key(case, obs):
    if len(obs['calls']) < 3:
        return None
    return repr((case['mods'], obs['used'], case['actions'], case['eps'], case['t0'], case['turns']))


def outcome_labels(case, obs):
    labs = set(e[0] for e in obs['log'])
    labs.add('end:' + obs['end'].split(':')[0])
    for d, o in obs['used']:
        labs.add('out:' + (o if o == 'ok' else o[0]))
    for f in obs['fired']:
        labs.add('act:' + f[1])
    if any(m['pi'] == 0 for m in case['mods']):
        labs.add('interval0')
    return sorted(labs)


def sample_repr(case, obs):
    return {'case': case, 'log_head': obs['log'][:25], 'end': obs['end']}


# ------------------------------------------------------------------ generators
S = TICK
PI_CHOICES = [0, S // 8, S // 4, S // 2, S, 2 * S, 5 * S]
SI_CHOICES = [S // 4, S // 2, S, 2 * S, 4 * S, 15 * S]
DUR_CHOICES = [0, 1, 1, 2, S // 16, S // 8, S // 4, S // 2, S, 3 * S]


def rand_outcome(rng, p_err):
    if rng.random() >= p_err:
        return 'ok'
    return [rng.choice(['secop', 'silent', 'other', 'comm']), rng.randint(0, 1)]


def rand_mod(rng, allow_iread):
    np_ = rng.randint(0, NPAR)
    params = []
    for _ in range(np_):
        params.append({'kind': rng.choice(['none', 'read', 'read', 'read', 'handler', 'common']),
                       'nopoll': rng.random() < 0.25})
    firstc = [i for i, p in enumerate(params) if p['kind'] == 'common'][:1]
    readable = [i for i, p in enumerate(params) if p['kind'] in ('read', 'handler')] + firstc
    main = [i for i in readable if rng.random() < 0.3]
    return {'enable': rng.random() < 0.9, 'pi': rng.choice(PI_CHOICES), 'si': rng.choice(SI_CHOICES),
            'winit': rng.random() < 0.2, 'iread': allow_iread and rng.random() < 0.15, 'main': main, 'params': params}


def rand_actions(rng, mods, t0, horizon, allow_stop):
    acts = []
    mpi = [m['pi'] for m in mods]
    t = t0
    for _ in range(rng.choice([0, 0, 1, 2, 3, 5])):
        # 0: two requests at the same time (the second one is still due when the first one has ended a wait)
        t += rng.choice([0, 1, S // 4, S // 2, S, 3 * S, horizon // 4 + 1])
        m = rng.randrange(len(mods))
        r = rng.random()
        if r < 0.35:
            v = rng.choice([x for x in PI_CHOICES if x != mpi[m]])
            mpi[m] = v
            acts.append([t, 'setint', m, v])
        elif r < 0.6:
            acts.append([t, 'fast', m, rng.random() < 0.6, rng.choice([S // 4, S // 8, S // 2, 0])])
        elif r < 0.8:
            acts.append([t, 'trig', m, rng.random() < 0.6])
        elif r < 0.93 or not allow_stop:
            acts.append([t, 'reconn'])
        else:
            acts.append([t, 'stop'])
    return acts


def rand_case(rng, turns_max=40):
    nm = rng.choice([1, 1, 2, 2, 3, 4])
    allow_iread = rng.random() < 0.5
    mods = [rand_mod(rng, allow_iread) for _ in range(nm)]
    if not any(m['enable'] for m in mods) and rng.random() < 0.9:
        mods[0]['enable'] = True
    t0 = rng.choice([1000 * S, 1000 * S + 7, 12345 * S + 513, 1700000000 * S])
    p_err = rng.choice([0.0, 0.1, 0.3, 0.6])
    style = rng.random()
    script = []
    for _ in range(rng.randint(0, 60)):
        d = rng.choice(DUR_CHOICES) if style < 0.7 else rng.choice([0, 1, 2, S // 16])
        script.append([d, rand_outcome(rng, p_err)])
    turns = rng.randint(3, turns_max)
    horizon = 20 * S
    return {'t0': t0, 'eps': rng.choice([1, 1, 1, 0, 2, 3]), 'turns': turns, 'reconn': rng.random() < 0.5,
            'mods': mods, 'script': script, 'actions': rand_actions(rng, mods, t0, horizon, rng.random() < 0.3)}


def lost_wakeup_case(rng):
    """an idle poller (long intervals, short reads) and two requests at the same time: the first one ends the wait, the
    second one (a shorter interval, fast polling, an immediate trigger) runs when the thread comes back to the trigger
    event - the interleaving in which a request is lost when the event is cleared at the wrong place"""
    nm = rng.choice([1, 1, 2])
    mods = []
    for _ in range(nm):
        np_ = rng.randint(0, 2)
        mods.append({'enable': True, 'pi': rng.choice([2 * S, 5 * S]), 'si': rng.choice([4 * S, 15 * S]),
                     'winit': False, 'iread': False, 'main': [],
                     'params': [{'kind': 'read', 'nopoll': False} for _ in range(np_)]})
    t0 = rng.choice([1000 * S, 12345 * S + 513])
    t = t0 + rng.choice([S, 2 * S, 3 * S, 5 * S]) + rng.choice([0, 1, 7, S // 2 + 3])
    m = rng.randrange(nm)
    first = rng.choice([[t, 'trig', m, False], [t, 'trig', rng.randrange(nm), False], [t, 'reconn'],
                        [t, 'setint', m, 4 * S]])
    second = rng.choice([[t, 'setint', m, S // 4], [t, 'setint', m, S // 8], [t, 'fast', m, True, S // 8],
                         [t, 'fast', m, True, 0], [t, 'trig', m, True]])
    acts = [first, second]
    if rng.random() < 0.3:
        t2 = t + rng.choice([S, 3 * S])
        acts += [[t2, 'fast', m, True, S // 2], [t2, 'fast', m, True, S // 8]]
    return {'t0': t0, 'eps': rng.choice([1, 1, 0, 2]), 'turns': rng.randint(12, 30), 'reconn': rng.random() < 0.5,
            'mods': mods, 'script': [[rng.choice([1, 2, S // 16]), 'ok'] for _ in range(rng.randint(0, 12))],
            'actions': acts}


def startup_failure_case(rng):
    """a communication failure at start-up that persists (initialReads, or reads failing with a different message each
    time so that the repeated-error rule does not hide it), all calls equally long"""
    nm = rng.choice([1, 2, 2, 3])
    d = rng.choice([S // 8, S // 4, S])
    mods = []
    for k in range(nm):
        np_ = rng.randint(0, 2)
        mods.append({'enable': True, 'pi': rng.choice([S // 2, S, 2 * S]), 'si': rng.choice([S, 2 * S, 4 * S]),
                     'winit': rng.random() < 0.2, 'iread': (k == 0 and rng.random() < 0.6) or rng.random() < 0.2,
                     'main': [], 'params': [{'kind': 'read', 'nopoll': False} for _ in range(np_)]})
    if not any(m['iread'] or m['params'] for m in mods):
        mods[0]['iread'] = True
    nfail = rng.randint(1, 14)
    kind = rng.choice(['comm', 'comm', 'silent'])
    script = [[d, [kind, j]] if rng.random() < 0.9 else [d, 'ok'] for j in range(nfail)]
    return {'t0': 1000 * S, 'eps': 1, 'turns': rng.randint(3, 10), 'reconn': rng.random() < 0.5, 'mods': mods,
            'script': script, 'actions': []}


def long_run_case(rng):
    """many loop turns of a nearly idle thread with a short slow interval: a thread that spins instead of sleeping, or
    books its slow rounds too rarely, uses up an ordinary turn budget before any staleness bound is passed"""
    np_ = rng.randint(1, 2)
    mods = [{'enable': True, 'pi': rng.choice([2 * S, 5 * S]), 'si': rng.choice([S // 4, S // 2]), 'winit': False,
             'iread': False, 'main': [], 'params': [{'kind': 'read', 'nopoll': False} for _ in range(np_)]}]
    return {'t0': 1000 * S, 'eps': rng.choice([2, 3]), 'turns': rng.choice([1200, 1500]), 'reconn': False, 'mods': mods,
            'script': [[rng.choice([1, 2, 4]), 'ok'] for _ in range(rng.randint(0, 6))], 'actions': []}


def long_main_case(rng):
    """2..3 modules on one thread; an EARLIER module whose doPoll lasts longer than its own poll interval for a while
    (explicit durations for this module, `durs`: n_fast short calls, then n_slow long ones, cyclically - a sluggish
    device), so that it is due again in every sweep, and a LATER module with a long interval, polled on its grid while
    the thread is idle, which becomes due while the earlier one is being polled: it has to be polled in the same sweep
    (the clock is read again after each module), otherwise its main poll is late by a second long doPoll of the
    earlier module"""
    nm = rng.choice([2, 2, 3])
    d_a = rng.choice([2 * S, 3 * S, 4 * S])
    t0 = rng.choice([1000 * S, 1000 * S, 1000 * S + 7, 12345 * S + 513])
    mods, durs = [], []
    late = rng.randrange(1, nm)          # the module with the long interval
    pi_late = rng.choice([5 * S, 6 * S, 7 * S, 10 * S])
    n_fast = rng.randint(pi_late // S + 1, pi_late // S + 6)
    n_slow = rng.randint(pi_late // d_a + 1, pi_late // d_a + 3)
    for k in range(nm):
        np_ = rng.choice([0, 0, 1, 2])
        if k == 0:
            pi, dm = S, [rng.choice([1, S // 16])] * n_fast + [d_a] * n_slow
        elif k == late:
            pi, dm = pi_late, rng.choice([1, S // 16, S // 8])
        else:
            pi, dm = rng.choice([S, 2 * S]), rng.choice([1, S // 16])
        mods.append({'enable': True, 'pi': pi, 'si': rng.choice([2 * S, 4 * S, 15 * S]), 'winit': False, 'iread': False,
                     'main': [], 'params': [{'kind': 'read', 'nopoll': False} for _ in range(np_)]})
        durs.append([dm, rng.choice([1, S // 16, S // 4])])
    p_err = rng.choice([0.0, 0.0, 0.2])
    turns = 2 * (2 * n_fast + n_slow) + rng.randint(0, 20)
    return {'t0': t0, 'eps': rng.choice([1, 1, 0, 2]), 'turns': turns, 'reconn': False, 'mods': mods,
            'durs': durs, 'script': [[1, rand_outcome(rng, p_err)] for _ in range(rng.randint(0, 40))], 'actions': []}


def slow_overload_case(rng):
    """2..3 modules with slow-polled parameters on one thread; the FIRST one has many parameters / slow read functions
    so that one pass through its slow polls (one per loop turn) takes longer than its slowinterval: its round is due
    again whenever it is worked off.  The parameters of the modules behind it have to be collected in the same refill."""
    nm = rng.choice([2, 2, 3])
    d_r = rng.choice([S // 4, S // 2, S])
    mods, durs = [], []
    for k in range(nm):
        if k == 0:
            np_, si, dr = rng.choice([3, 4]), rng.choice([1, 2]) * d_r, d_r
        else:
            np_, si, dr = rng.choice([1, 1, 2]), rng.choice([d_r, 2 * d_r, 4 * d_r]), rng.choice([1, S // 16, d_r])
        mods.append({'enable': True, 'pi': rng.choice([S, 2 * S, 5 * S]), 'si': max(si, S // 4), 'winit': False,
                     'iread': False, 'main': [], 'params': [{'kind': 'read', 'nopoll': False} for _ in range(np_)]})
        durs.append([rng.choice([1, S // 16, S // 8]), dr])
    P = sum(len(m['params']) for m in mods)
    # long enough to pass the proved bound 3/2 si + 2 P Tn + 2 dmax (Tn about (nm + 1) * d_r) when a module is starved:
    # one loop turn lasts about d_r
    turns = (2 * P + 1) * (nm + 1) + 20 + rng.randint(0, 15)
    p_err = rng.choice([0.0, 0.0, 0.2])
    return {'t0': rng.choice([1000 * S, 12345 * S + 513]), 'eps': rng.choice([1, 1, 0, 2]), 'turns': turns,
            'reconn': False, 'mods': mods, 'durs': durs,
            'script': [[1, rand_outcome(rng, p_err)] for _ in range(rng.randint(0, 40))], 'actions': []}


def startup_abandoned_case(rng):
    """the start-up reads are abandoned after a communication failure (raised by a first read, or by initialReads so
    that NO first read is made): the polled parameters behind the failing call are never announced before the main loop
    starts, and its slow-poll due test meets them with the time stamp they were created with.  Afterwards the hardware
    answers (mostly), enough turns for every parameter to get its slow poll"""
    nm = rng.choice([1, 2, 2, 3])
    mods = []
    for k in range(nm):
        np_ = rng.randint(1, 3)
        mods.append({'enable': True, 'pi': rng.choice([S // 2, S, 2 * S]), 'si': rng.choice([S // 2, S, 2 * S]),
                     'winit': rng.random() < 0.15, 'iread': False, 'main': [],
                     'params': [{'kind': rng.choice(['read', 'read', 'handler']), 'nopoll': False} for _ in range(np_)]})
    if rng.random() < 0.3:
        mods[0]['main'] = [0]
    d = rng.choice([1, S // 16, S // 8])
    kind = rng.choice(['comm', 'comm', 'silent'])
    nstart = sum(1 for m in mods if m['winit'])
    if rng.random() < 0.25:
        mods[rng.randrange(nm)]['iread'] = True          # initialReads raises: every first read is skipped
        script = [[d, [kind, 0]] for _ in range(nstart + 1)]
    else:
        npol = sum(len(m['params']) for m in mods)
        k = rng.randrange(0, max(1, npol - 1))            # the k-th first read fails, at least one read is skipped
        script = [[d, 'ok'] for _ in range(nstart + k)] + [[d, [kind, 0]]]
    p_err = rng.choice([0.0, 0.0, 0.15])
    script += [[d, rand_outcome(rng, p_err)] for _ in range(rng.randint(0, 30))]
    return {'t0': rng.choice([1000 * S, 12345 * S + 513]), 'eps': rng.choice([1, 1, 0, 2]), 'turns': rng.randint(4, 24),
            'reconn': rng.random() < 0.5, 'mods': mods, 'script': script, 'actions': []}


def nopoll_module_case(rng):
    """one poll thread shared by polled modules and modules with enablePoll = False which are on the thread only because
    a configured value has to be written at start-up (Module.initModule: `if self.enablePoll or self.writeDict`).  The
    modules that are not polled have read functions, a doPoll reading some of them and short poll intervals (so that
    they would be due at once if the poller looked at them); run-time requests (trigger, setFastPoll, pollinterval
    change, reconnect) are also addressed to them"""
    nm = rng.choice([2, 2, 3, 4])
    off = set(rng.sample(range(nm), rng.randint(1, nm - 1)))
    mods = []
    for k in range(nm):
        np_ = rng.randint(0, 3)
        params = [{'kind': rng.choice(['read', 'read', 'handler', 'common', 'none']), 'nopoll': rng.random() < 0.15}
                  for _ in range(np_)]
        firstc = [i for i, p in enumerate(params) if p['kind'] == 'common'][:1]
        readable = [i for i, p in enumerate(params) if p['kind'] in ('read', 'handler')] + firstc
        if k in off:
            mods.append({'enable': False, 'pi': rng.choice([0, S // 8, S // 4, S]), 'si': rng.choice([S // 4, S // 2, S]),
                         'winit': rng.random() < 0.9, 'iread': rng.random() < 0.15,
                         'main': [i for i in readable if rng.random() < 0.5], 'params': params})
        else:
            mods.append({'enable': True, 'pi': rng.choice([S // 4, S, 2 * S]), 'si': rng.choice([S // 2, S, 4 * S]),
                         'winit': rng.random() < 0.2, 'iread': False,
                         'main': [i for i in readable if rng.random() < 0.2], 'params': params})
    t0 = rng.choice([1000 * S, 12345 * S + 513])
    acts = []
    mpi = [m['pi'] for m in mods]
    t = t0
    for _ in range(rng.choice([0, 0, 1, 2, 3])):
        t += rng.choice([1, S // 4, S, 3 * S])
        m = rng.choice(sorted(off)) if rng.random() < 0.7 else rng.randrange(nm)
        v = rng.choice([x for x in PI_CHOICES if x != mpi[m]])     # an unchanged value is no change request
        a = rng.choice([[t, 'trig', m, True], [t, 'trig', m, False], [t, 'fast', m, True, S // 8],
                        [t, 'fast', m, False, S // 4], [t, 'setint', m, v], [t, 'reconn']])
        if a[1] == 'setint':
            mpi[m] = v
        acts.append(a)
    p_err = rng.choice([0.0, 0.0, 0.2, 0.4])
    return {'t0': t0, 'eps': rng.choice([1, 1, 0, 2]), 'turns': rng.randint(4, 25), 'reconn': rng.random() < 0.5,
            'mods': mods, 'script': [[rng.choice([1, 2, S // 16, S // 8]), rand_outcome(rng, p_err)]
                                     for _ in range(rng.randint(0, 40))], 'actions': acts}


def small_scope_cases():
    """exhaustive small scope: one module, one parameter of every kind, every outcome class at each of the first
    calls, the three interval regimes"""
    cases = []
    kinds = [('read', False), ('read', True), ('handler', False), ('handler', True), ('common', False), ('none', False)]
    outs = ['ok', ['secop', 0], ['silent', 0], ['other', 0], ['comm', 0]]
    for kind, npoll in kinds:
        for pi in (0, S // 4, 2 * S):
            for o1 in outs:
                for o2 in outs:
                    for main in ([], [0]):
                        if kind == 'none' and main:
                            continue
                        cases.append({'t0': 1000 * S, 'eps': 1, 'turns': 14, 'reconn': False,
                                      'mods': [{'enable': True, 'pi': pi, 'si': S // 2, 'winit': False, 'iread': False,
                                                'main': main, 'params': [{'kind': kind, 'nopoll': npoll}]}],
                                      'script': [[S // 8, o1], [S // 4, o2], [S // 8, o1], [1, o2], [S // 8, o1]],
                                      'actions': []})
    return cases


def gen_cases(seed, tier):
    rng = random.Random(seed * 1000003 + 13)
    n = {'quick': 4000, 'thorough': 40000, 'search': 40000}[tier]
    cases = [rand_case(rng, 40 if tier == 'quick' else 80) for _ in range(n)]
    rng2 = random.Random(seed * 7919 + 131)
    for _ in range(n // 50):
        cases.append(lost_wakeup_case(rng2))
        cases.append(startup_failure_case(rng2))
    for _ in range(n // 1300):
        cases.append(long_run_case(rng2))
    rng3 = random.Random(seed * 104729 + 1313)
    for _ in range(n // 50):
        cases.append(long_main_case(rng3))
        cases.append(slow_overload_case(rng3))
    rng4 = random.Random(seed * 15485863 + 1337)
    for _ in range(n // 50):
        cases.append(startup_abandoned_case(rng4))
        cases.append(nopoll_module_case(rng4))
    cases.extend(small_scope_cases() if tier != 'quick' else small_scope_cases()[::5])
    return cases


def shrink(case):
    for i in range(len(case['actions']) - 1, -1, -1):
        yield dict(case, actions=case['actions'][:i] + case['actions'][i + 1:])
    if len(case['mods']) > 1:
        for i in range(len(case['mods']) - 1, -1, -1):
            if any(len(a) > 2 and a[1] in ('setint', 'fast', 'trig') for a in case['actions']):
                break
            c2 = dict(case, mods=case['mods'][:i] + case['mods'][i + 1:])
            if case.get('durs'):
                c2['durs'] = case['durs'][:i] + case['durs'][i + 1:]
            yield c2
    if case['turns'] > 2:
        yield dict(case, turns=case['turns'] // 2)
        yield dict(case, turns=case['turns'] - 1)
    if case['script']:
        yield dict(case, script=case['script'][:-1])
        yield dict(case, script=[[d, 'ok'] for d, _ in case['script']])
    for mi, m in enumerate(case['mods']):
        if m['params']:
            m2 = dict(m, params=m['params'][:-1], main=[i for i in m['main'] if i < len(m['params']) - 1])
            yield dict(case, mods=case['mods'][:mi] + [m2] + case['mods'][mi + 1:])
