"""C14 — StateMachine: implementation driver, case encoder, direct oracle"""
import itertools
import random

from harness import gal

ID = 'C14'
MODEL_TARGETS = ['theories/C14/Run.vo']
PROOF_TARGETS = ['theories/C14/Properties.vo']
PROPERTIES_V = 'theories/C14/Properties.v'
IMPORTS = 'Require Import FV.Gen.C14 FV.C14.Model FV.C14.HasStates FV.C14.Run.'
CASE_TYPE = 'anycase'
CHECK = 'check_any'
SHARD_SIZE = 400
RULE = ('histories of {cycle, start(A|B|C, cleanup?, attrs), stop} over scripted state/cleanup function behaviours '
        '(next/retry/finish/non-callable/raise) with start/stop injected by the environment at hook points '
        '(time.time(), inside state functions, inside cleanup functions, in the transition callback); '
        'random (seeded) plus exhaustive short histories in thorough; a case is non-trivial when at least one '
        'state function ran; distinct = distinct (ops, consumed scripts, env) tuples')
ASSUMPTIONS = [
    'state/cleanup functions are python functions with a __name__; attribute names passed to start() are not class attributes of StateMachine',
    'interference of a second thread is modelled at hook points only (between any two reads of next_task there is a hook or the reads are adjacent); see DESIGN C14',
    'HasStates layer (frappy/states.py): start_machine/stop_machine/cycle_machine are issued between cycles only (no interference inside a cycle), cleanup is the default on_cleanup, state functions carry busy status codes or none',
]
NKEYS = 3
ABORT_AFTER = 400


class Abort(BaseException):
    pass


def _consts():
    try:
        from translator import facts_C14
        return int(facts_C14.maxloops()[1].split('%')[0]), int(facts_C14.outer_rounds()[1].split('%')[0])
    except Exception:
        return 10, 2


# ------------------------------------------------------------------ implementation driver
def run_case(case):
    if case.get('kind') == 'hs':
        return run_hs(case)
    from frappy.lib import statemachine as smod

    events = []          # current op's events
    st = {'hook': 0, 'si': 0, 'ci': 0, 'calls': 0}
    used_s, used_c = [], []       # (hook number, behaviour)
    env = {int(k): v for k, v in case['env']}
    sscript, cscript = case['s'], case['c']
    funcs = {}
    posts = []           # (hook or None, task id, task)

    def state_fn(sid):
        if sid not in funcs:
            def f(sm):
                st['calls'] += 1
                if st['calls'] > ABORT_AFTER:
                    raise Abort()
                events.append(['call', sid, bool(sm.init)])
                n = hook(sm)
                b = sscript[st['si']] if st['si'] < len(sscript) else 'R'
                st['si'] += 1
                used_s.append([n, b])
                if b == 'R':
                    return smod.Retry
                if b == 'F':
                    return smod.Finish
                if b == 'X':
                    return 42
                if b == 'E':
                    raise ValueError('scripted')
                return state_fn(b[1])
            f.__name__ = f'state_{sid}'
            funcs[sid] = f
        return funcs[sid]

    def cleanup_fn(owner, cid):
        def c(sm):
            r = sm.cleanup_reason
            rc = 0 if isinstance(r, Exception) else 1 if isinstance(r, smod.Start) else 2 if isinstance(r, smod.Stop) else 9
            events.append(['cleanup', owner, cid, rc])
            n = hook(sm)
            b = cscript[st['ci']] if st['ci'] < len(cscript) else 'N'
            st['ci'] += 1
            used_c.append([n, b])
            if b == 'N':
                return None
            if b == 'X':
                return 42
            if b == 'E':
                raise ValueError('scripted cleanup')
            return state_fn(b[1])
        c.__name__ = f'cleanup_{owner}_{cid}'
        c.verif = (owner, cid)
        return c

    def post(sm, task, tid, n):
        posts.append([n, tid, task])
        events.append(['post', tid])
        if task[0] == 'stop':
            sm.stop()
        else:
            _, sid, cid, kw = task
            kwds = {f'a{k}': v for k, v in kw}
            if cid is not None:
                kwds['cleanup'] = cleanup_fn(tid, cid)
            sm.start(state_fn(sid), **kwds)
            sm.next_task.verif_id = tid
            return
        sm.next_task.verif_id = tid

    def hook(sm):
        n = st['hook']
        st['hook'] += 1
        if n in env:
            post(sm, env[n], 1000 + n, n)
        return n

    class FakeTime:
        @staticmethod
        def time():
            if cur['sm'] is not None:
                hook(cur['sm'])
            return 0.0

    class Log:
        def __getattr__(self, name):
            return lambda *a, **k: None

    cur = {'sm': None}

    def transition(sm, newstate):
        events.append(['trans', sm.statefunc is not None,
                       None if newstate is None else int(newstate.__name__.split('_')[1])])
        hook(sm)

    orig_time = smod.time
    smod.time = FakeTime
    try:
        sm = smod.StateMachine(logger=Log(), transition=transition)
        orig_cleanup = sm._cleanup

        def cleanup_wrapper(reason):
            rc = 0 if isinstance(reason, Exception) else 1 if isinstance(reason, smod.Start) else 2 if isinstance(reason, smod.Stop) else 9
            events.append(['int', rc])
            return orig_cleanup(reason)
        sm._cleanup = cleanup_wrapper
        cur['sm'] = sm
        steps = []
        for i, op in enumerate(case['ops']):
            del events[:]
            exc = None
            try:
                if op == 'C':
                    sm.cycle()
                else:
                    post(sm, op, i, None)
            except Abort:
                exc = 'Abort: more than %d state calls' % ABORT_AFTER
            except Exception as e:
                exc = f'{type(e).__name__}: {e}'
            r = sm.cleanup_reason
            steps.append({
                'events': [list(e) for e in events],
                'exc': exc,
                'sf': None if sm.statefunc is None else int(sm.statefunc.__name__.split('_')[1]),
                'nt': None if sm.next_task is None else getattr(sm.next_task, 'verif_id', -1),
                'cl': None if sm.cleanup is None else list(getattr(sm.cleanup, 'verif', (-1, -1))),
                'rc': None if r is None else (0 if isinstance(r, Exception) else 1 if isinstance(r, smod.Start) else 2),
                'init': bool(sm.init),
                'attrs': [[k, getattr(sm, f'a{k}', None)] for k in range(NKEYS)],
                'active': bool(sm.is_active),
            })
            if exc:
                break
        return {'steps': steps, 'used_s': used_s, 'used_c': used_c, 'posts': posts}
    finally:
        smod.time = orig_time


# ------------------------------------------------------------------ encoding into Gallina
def enc_task(task, tid):
    if task[0] == 'stop':
        return f'(TStop {gal.nat(tid)})'
    _, sid, cid, kw = task
    return (f'(TStart {gal.nat(tid)} {gal.nat(sid)} {gal.option(cid, gal.nat)} '
            f'{gal.lst(kw, lambda p: gal.pair(p, gal.nat, gal.z))})')


def enc_sbeh(b):
    return {'R': 'BRetry', 'F': 'BFinish', 'X': 'BNonCallable', 'E': 'BRaise'}.get(b) if isinstance(b, str) \
        else f'(BNext {gal.nat(b[1])})'


def enc_cbeh(b):
    return {'N': 'CNone', 'X': 'CNonCallable', 'E': 'CRaise'}.get(b) if isinstance(b, str) \
        else f'(CNext {gal.nat(b[1])})'


def enc_event(e):
    k = e[0]
    if k == 'call':
        return f'(EvCall {gal.nat(e[1])} {gal.boolean(e[2])})'
    if k == 'cleanup':
        return f'(EvCleanup {gal.nat(e[1])} {gal.nat(e[2])} {gal.nat(e[3])})'
    if k == 'int':
        return f'(EvInt {gal.nat(e[1])})'
    if k == 'trans':
        return f'(EvTrans {gal.boolean(e[1])} {gal.option(e[2], gal.nat)})'
    raise ValueError(e)


def encode(case, obs):
    if case.get('kind') == 'hs':
        return 'CHs (%s)' % encode_hs(case, obs)
    return 'CCore (%s)' % encode_core(case, obs)


def encode_core(case, obs):
    ops = []
    for i, op in enumerate(case['ops'][:len(obs['steps'])]):
        ops.append('OCycle' if op == 'C' else f'(OPost {enc_task(op, i)})')
    env = [f'({gal.nat(int(k))}, {enc_task(t, 1000 + int(k))})' for k, t in case['env']]
    obl = []
    for s in obs['steps']:
        if s['exc']:
            raise ValueError('implementation raised: ' + s['exc'])
        evs = [enc_event(e) for e in s['events'] if e[0] != 'post']
        obl.append('{| o_events := [%s]; o_sf := %s; o_nt := %s; o_cl := %s; o_rc := %s; o_init := %s; o_attrs := %s |}' % (
            '; '.join(evs), gal.option(s['sf'], gal.nat), gal.option(s['nt'], gal.nat),
            gal.option(s['cl'], lambda p: gal.pair(p, gal.nat, gal.nat)), gal.option(s['rc'], gal.nat),
            gal.boolean(s['init']),
            gal.lst(s['attrs'], lambda p: f'({gal.nat(p[0])}, {gal.option(p[1], gal.z)})')))
    return ('{| c_s := %s; c_c := %s; c_env := [%s]; c_ops := [%s]; c_obs := [%s] |}' % (
        gal.lst(obs['used_s'], lambda p: f'({gal.nat(p[0])}, {enc_sbeh(p[1])})'),
        gal.lst(obs['used_c'], lambda p: f'({gal.nat(p[0])}, {enc_cbeh(p[1])})'),
        '; '.join(env), '; '.join(ops), '; '.join(obl)))


def model_result_term(case, obs):
    if case.get('kind') == 'hs':
        return f'hmodel_status ({encode_hs(case, obs)})'
    return f'model_trace ({encode_core(case, obs)})'


# ------------------------------------------------------------------ direct oracle (the property on the impl trace)
def oracle(case, obs):
    if case.get('kind') == 'hs':
        return oracle_hs(case, obs)
    fails = []
    maxloops, rounds = _consts()

    def fail(cls, what):
        fails.append({'class': cls, 'what': what})

    tasks = {}
    for i, op in enumerate(case['ops']):
        if op != 'C':
            tasks[i] = op
    for k, t in case['env']:
        tasks[1000 + int(k)] = t
    pending = None          # id of the latest posted task not yet taken
    seg = None              # current run: {'task': id, 'has_cleanup': bool, 'ints': n, 'cleanups': n}
    last_ct = None          # last call-or-trans event
    cur_state = None
    for idx, s in enumerate(obs['steps']):
        op = case['ops'][idx]
        if s['exc']:
            fail('cycle-raised', f'op {idx} ({op}) raised {s["exc"]}')
            break
        calls = sum(1 for e in s['events'] if e[0] == 'call')
        cleanups = sum(1 for e in s['events'] if e[0] == 'cleanup')
        if op == 'C' and (calls > rounds * maxloops or cleanups > rounds):
            fail('cycle-unbounded', f'cycle {idx}: {calls} state calls, {cleanups} cleanup calls')
        entry_pending = pending
        entry_rc = obs['steps'][idx - 1]['rc'] if idx else None
        env_posted = False
        picked_in_op = None
        for e in s['events']:
            k = e[0]
            if k == 'post':
                pending = e[1]
                if op == 'C':
                    env_posted = True
            elif k == 'trans':
                active, f = e[1], e[2]
                if f is not None and not active:
                    # a deferred start is taken
                    if pending is None or tasks[pending][0] != 'start' or tasks[pending][1] != f:
                        fail('last-start-wins', f'op {idx}: state {f} entered but latest request is {tasks.get(pending)}')
                        picked = None
                    else:
                        picked = pending
                    seg = {'task': picked, 'has_cleanup': picked is not None and tasks[picked][2] is not None,
                           'ints': 0, 'task_ints': 0, 'cleanups': 0}
                    picked_in_op = picked
                    pending = None
                last_ct = ('trans', f)
                cur_state = f
            elif k == 'call':
                f, init = e[1], e[2]
                if cur_state != f:
                    fail('init-flag', f'op {idx}: state {f} called but last transition went to {cur_state}')
                fresh = last_ct is None or last_ct[0] == 'trans'
                if bool(init) != fresh:
                    fail('init-flag', f'op {idx}: state {f} saw init={init}, first call after transition: {fresh}')
                last_ct = ('call', f)
            elif k == 'int':
                if seg is None:
                    fail('cleanup-once', f'op {idx}: interruption without an active run')
                    continue
                if e[1] in (1, 2):
                    if seg['ints'] > 0:
                        fail('cleanup-once', f'op {idx}: a cleanup sequence in progress was interrupted by start/stop')
                    seg['task_ints'] += 1
                seg['ints'] += 1
            elif k == 'cleanup':
                if seg is None or seg['task'] is None or e[1] != seg['task']:
                    fail('cleanup-once', f'op {idx}: cleanup of request {e[1]} ran but current run is {seg and seg["task"]}')
                    continue
                seg['cleanups'] += 1
                if seg['cleanups'] > 1:
                    fail('cleanup-once', f'op {idx}: cleanup of request {e[1]} ran {seg["cleanups"]} times')
                if seg['ints'] != 1:
                    fail('cleanup-once', f'op {idx}: cleanup ran but not right after the first interruption')
                if tasks[seg['task']][2] != e[2]:
                    fail('cleanup-once', f'op {idx}: wrong cleanup function')
        if seg and seg['has_cleanup'] and seg['ints'] > 0 and seg['cleanups'] != 1:
            fail('cleanup-once', f'op {idx}: run of request {seg["task"]} interrupted but cleanup ran {seg["cleanups"]} times')
        if op == 'C':
            # a Stop pickup is invisible in the trace: the pending task is gone and the machine is idle
            if pending is not None and s['nt'] is None:
                if tasks[pending][0] == 'stop':
                    if s['sf'] is not None and not env_posted:
                        fail('stop-inactive', f'cycle {idx}: stop request taken but machine still in state {s["sf"]}')
                    pending = None
                else:
                    fail('last-start-wins', f'cycle {idx}: start request {pending} vanished without being entered')
                    pending = None
            # progress: a pending task is taken unless a cleanup sequence is in progress or loops were exhausted
            if entry_pending is not None and not env_posted and entry_rc is None and s['nt'] is not None:
                in_cleanup_seq = s['rc'] is not None and s['sf'] is not None
                if not in_cleanup_seq:
                    fail('last-start-wins', f'cycle {idx}: pending request {entry_pending} neither taken nor cleaning up')
            if picked_in_op is not None and pending is None and not env_posted:
                kw = dict((k, v) for k, v in tasks[picked_in_op][3])
                got = dict((k, v) for k, v in s['attrs'])
                for k, v in kw.items():
                    if got.get(k) != v:
                        fail('last-start-wins', f'cycle {idx}: attribute a{k}={got.get(k)} but request {picked_in_op} asked {v}')
        if (s['nt'] is None) != (pending is None) or (s['nt'] is not None and s['nt'] != pending):
            fail('last-start-wins', f'op {idx}: pending request is {s["nt"]}, latest posted is {pending}')
            pending = s['nt']
        if s['active'] != (s['sf'] is not None):
            fail('stop-inactive', 'is_active disagrees with statefunc')
    return fails


FINDING_CLASSIFIERS = {}


def nontrivial_key(case, obs):
    if case.get('kind') == 'hs':
        return repr(('hs', case['ops'], obs['used_s'], case['scode'])) if obs['used_s'] else None
    if not obs['used_s']:
        return None
    return repr((case['ops'], obs['used_s'], obs['used_c'], case['env']))


def outcome_labels(case, obs):
    if case.get('kind') == 'hs':
        return ['hs'] + sorted({'hs-status-%s' % st['st'][0] for st in obs['steps']})
    labs = set()
    for s in obs['steps']:
        for e in s['events']:
            labs.add(e[0] if e[0] != 'int' else f'int{e[1]}')
        if s['exc']:
            labs.add('raised')
    if case['env']:
        labs.add('env-interference')
    return sorted(labs)


def sample_repr(case, obs):
    if case.get('kind') == 'hs':
        return {'case': case, 'status_per_op': [(st['st'], st['log']) for st in obs['steps']][:8]}
    return {'case': case, 'events_per_op': [s['events'] for s in obs['steps']][:6]}


# ------------------------------------------------------------------ generators
BEH_S = ['R', 'F', 'X', 'E', ['N', 0], ['N', 1], ['N', 2]]
BEH_C = ['N', 'X', 'E', ['S', 0], ['S', 1], ['S', 2]]


def rand_task(rng):
    if rng.random() < 0.3:
        return ['stop']
    kw = [[k, rng.randint(-3, 3)] for k in range(NKEYS) if rng.random() < 0.4]
    return ['start', rng.randrange(3), rng.choice([None, None, 0, 1]), kw]


def rand_case(rng):
    n = rng.randint(2, 9)
    ops = []
    for _ in range(n):
        r = rng.random()
        ops.append('C' if r < 0.55 else rand_task(rng))
    if ops[0] == 'C':
        ops[0] = ['start', rng.randrange(3), rng.choice([None, 0, 1]), []]
    heavy_next = rng.random() < 0.25
    s = [rng.choice(BEH_S[4:] if heavy_next and rng.random() < 0.9 else BEH_S) for _ in range(rng.randint(0, 30))]
    c = [rng.choice(BEH_C) for _ in range(rng.randint(0, 5))]
    env = []
    if rng.random() < 0.6:
        for _ in range(rng.randint(1, 3)):
            env.append([rng.randrange(0, 40), rand_task(rng)])
        env = sorted({e[0]: e for e in env}.values())
    return {'s': s, 'c': c, 'env': env, 'ops': ops}


def exhaustive_cases(depth):
    """all op sequences of the given depth over a small alphabet with fixed rich scripts"""
    alpha = ['C', ['start', 0, 0, [[0, 1]]], ['start', 1, None, []], ['stop']]
    scripts = [
        (['R'], ['N']), (['F'], ['N']), (['E'], [['S', 2]]), ([['N', 1], 'R'], ['N']),
        (['X', 'R', 'E'], [['S', 2], 'N']), ([['N', 1]] * 25, [['S', 2]]),
    ]
    for ops in itertools.product(alpha, repeat=depth):
        for s, c in scripts:
            yield {'s': list(s), 'c': list(c), 'env': [], 'ops': [['start', 0, 0, []]] + list(ops)}


def gen_cases(seed, tier):
    return gen_core_cases(seed, tier) + gen_hs_cases(seed, tier)


def gen_core_cases(seed, tier):
    rng = random.Random(seed * 1000003 + 14)
    n = {'quick': 4000, 'thorough': 60000, 'search': 60000}[tier]
    cases = [rand_case(rng) for _ in range(n)]
    if tier != 'quick':
        for d in (1, 2, 3, 4, 5):
            cases.extend(exhaustive_cases(d))
    else:
        for d in (1, 2, 3):
            cases.extend(exhaustive_cases(d))
    return cases


def shrink(case):
    if case.get('kind') == 'hs':
        ops = case['ops']
        for i in range(len(ops) - 1, -1, -1):
            yield dict(case, ops=ops[:i] + ops[i + 1:])
        if case['s']:
            yield dict(case, s=case['s'][:-1])
        return
    ops = case['ops']
    for i in range(len(ops) - 1, -1, -1):
        yield dict(case, ops=ops[:i] + ops[i + 1:])
    for i in range(len(case['env'])):
        yield dict(case, env=case['env'][:i] + case['env'][i + 1:])
    if case['s']:
        yield dict(case, s=case['s'][:-1])
    if case['c']:
        yield dict(case, c=case['c'][:-1])


# ================================================================== HasStates layer (frappy/states.py)
def _stub_env():
    from frappy.lib import generalConfig

    class Log:
        handlers = []

        def __getattr__(self, name):
            return lambda *a, **k: None

    class Disp:
        def announce_update(self, moduleobj, pobj):
            pass

    class Srv:
        dispatcher = Disp()
        secnode = None
    generalConfig.testinit(omit_unchanged_within=0)
    return Log(), Srv()


TEXT_RE = None


def _text(t, names):
    """status text -> abstract text (see C14/HasStates.v)"""
    import re
    if t == '':
        return ['empty']
    if t in names:
        return ['name', names[t]]
    if t == 'stopping':
        return ['stopping']
    if t == 'restarting':
        return ['restarting']
    if t == 'stopped':
        return ['stopped']
    m = re.fullmatch(r'stopping \((.*)\)', t)
    if m and m.group(1) in names:
        return ['stopping_in', names[m.group(1)]]
    m = re.fullmatch(r'restarting \((.*)\)', t)
    if m and m.group(1) in names:
        return ['restarting_in', names[m.group(1)]]
    m = re.fullmatch(r'final(-?\d+)', t)
    if m:
        return ['final', int(m.group(1))]
    if t == 'Finish was returned without final status':
        return ['nofinal']
    if t.startswith('ValueError(') or t.startswith('RuntimeError('):
        return ['error']
    return ['other', t]


def run_hs(case):
    """a real HasStates + Drivable module with scripted state functions"""
    from frappy.core import Drivable
    from frappy.states import HasStates, Retry, Finish, status_code
    from frappy.lib import statemachine as smod
    from frappy.modulebase import PollInfo
    log, srv = _stub_env()
    st = {'hook': 0, 'si': 0, 'calls': 0}
    used_s = []
    sscript = case['s']
    scode = {int(k): v for k, v in case['scode']}
    reads = []

    def hook():
        n = st['hook']
        st['hook'] += 1
        return n

    def make_state(sid):
        def f(self, sm):
            st['calls'] += 1
            if st['calls'] > ABORT_AFTER:
                raise Abort()
            n = hook()
            b = sscript[st['si']] if st['si'] < len(sscript) else 'R'
            st['si'] += 1
            used_s.append([n, b])
            if b == 'R':
                return Retry
            if b == 'F':
                return Finish
            if b == 'X':
                return 42
            if b == 'E':
                raise ValueError('scripted')
            if b[0] == 'FS':
                return self.final_status(b[1], f'final{b[1]}')
            return getattr(self, f'state_{b[1]}')
        f.__name__ = f'state_{sid}'
        if sid in scode:
            f = status_code(scode[sid])(f)
        return f

    ns = {f'state_{i}': make_state(i) for i in range(4)}

    def read_status(self):
        v = HasStates.read_status(self)
        reads.append(v)
        return v
    ns['read_status'] = read_status
    ns['read_value'] = lambda self: 0
    from frappy.core import Parameter, StatusType
    ns['status'] = Parameter(datatype=StatusType(Drivable, 'PREPARING', 'RAMPING', 'FINALIZING'))
    Mod = type('Mod', (HasStates, Drivable), ns)
    names = {f'state {i}': i for i in range(4)}

    class FakeTime:
        @staticmethod
        def time():
            hook()
            return 0.0
    orig_time = smod.time
    try:
        m = Mod('m', log, {'description': ''}, srv)
        m.earlyInit()
        m.initModule()
        m.pollInfo = PollInfo(m.pollinterval, m.triggerPoll)
        sm = m._state_machine
        orig_trans = sm.transition

        def transition(smx, newstate):
            orig_trans(smx, newstate)
            hook()
        sm.transition = transition
        orig_on_cleanup = m.on_cleanup

        def on_cleanup(smx):
            r = orig_on_cleanup(smx)
            hook()
            return r
        m.on_cleanup = on_cleanup
        smod.time = FakeTime
        st['hook'] = 0
        steps = []
        for i, op in enumerate(case['ops']):
            del reads[:]
            exc = None
            try:
                if op[0] == 'start':
                    m.start_machine(getattr(m, f'state_{op[1]}'), **{f'a{k}': v for k, v in op[2]})
                    sm.next_task.verif_id = i
                elif op[0] == 'stop':
                    before = sm.next_task
                    m.stop_machine()
                    if sm.next_task is not before:
                        sm.next_task.verif_id = i
                else:
                    m.cycle_machine()
            except Abort:
                exc = 'Abort'
            except Exception as e:
                exc = f'{type(e).__name__}: {e}'
            stat = sm.status
            idle = sm.idle_status
            steps.append({
                'exc': exc,
                'st': [int(stat[0]), _text(stat[1], names)],
                'idle': None if not idle else [int(idle[0]), _text(idle[1], names)],
                'log': [[int(v[0]), _text(v[1], names)] for v in reads],
                'sf': None if sm.statefunc is None else int(sm.statefunc.__name__.split('_')[1]),
                'nt': None if sm.next_task is None else getattr(sm.next_task, 'verif_id', -1),
                'param': [int(m.status[0]), _text(m.status[1], names)],
            })
            if exc:
                break
        return {'steps': steps, 'used_s': used_s}
    finally:
        smod.time = orig_time


def enc_text(t):
    k = t[0]
    return {'empty': 'TEmpty', 'stopping': 'TStopping', 'restarting': 'TRestarting', 'stopped': 'TStopped',
            'error': 'TError', 'nofinal': 'TNoFinal'}.get(k) or {
        'name': lambda: f'(TName {gal.nat(t[1])})', 'stopping_in': lambda: f'(TStoppingIn {gal.nat(t[1])})',
        'restarting_in': lambda: f'(TRestartingIn {gal.nat(t[1])})', 'final': lambda: f'(TFinal {gal.z(t[1])})'}[k]()


def enc_status(s):
    return f'({gal.z(s[0])}, {enc_text(s[1])})'


def enc_sbeh_hs(b):
    if not isinstance(b, str) and b[0] == 'FS':
        return f'(BFinal {gal.z(b[1])})'
    return enc_sbeh(b)


def encode_hs(case, obs):
    ops = []
    for i, op in enumerate(case['ops'][:len(obs['steps'])]):
        if op[0] == 'start':
            ops.append(f'(HStart {gal.nat(i)} {gal.nat(op[1])} {gal.lst(op[2], lambda p: gal.pair(p, gal.nat, gal.z))})')
        elif op[0] == 'stop':
            ops.append(f'(HStop {gal.nat(i)})')
        else:
            ops.append('HCycle')
    obl = []
    for s in obs['steps']:
        if s['exc']:
            raise ValueError('implementation raised: ' + s['exc'])
        obl.append('{| ho_st := %s; ho_idle := %s; ho_log := %s; ho_sf := %s; ho_nt := %s |}' % (
            enc_status(s['st']), gal.option(s['idle'], enc_status), gal.lst(s['log'], enc_status),
            gal.option(s['sf'], gal.nat), gal.option(s['nt'], gal.nat)))
    return '{| h_s := %s; h_scode := %s; h_ops := [%s]; h_obs := [%s] |}' % (
        gal.lst(obs['used_s'], lambda p: f'({gal.nat(p[0])}, {enc_sbeh_hs(p[1])})'),
        gal.lst(case['scode'], lambda p: gal.pair(p, gal.nat, gal.z)), '; '.join(ops), '; '.join(obl))


def _busy(code):
    return 300 <= code < 400


def oracle_hs(case, obs):
    """busy from the start request until the machine has finished; final or stopped status afterwards"""
    fails = []

    def fail(cls, what):
        fails.append({'class': cls, 'what': what})
    run = None          # current run: {'stopped': bool, 'error': bool, 'final': code|None}
    pending_start = False
    for idx, s in enumerate(obs['steps']):
        op = case['ops'][idx]
        if s['exc']:
            fail('cycle-raised', f'op {idx} ({op}) raised {s["exc"]}')
            break
        if s['param'] != s['st']:
            fail('status', f'op {idx}: status parameter {s["param"]} differs from the machine status {s["st"]}')
        active = s['sf'] is not None
        start_pending = s['nt'] is not None and case['ops'][s['nt']][0] == 'start'
        if (active or start_pending) and not _busy(s['st'][0]):
            fail('status', f'op {idx} ({op}): machine running or start requested but status is {s["st"]}')
        if op[0] == 'start':
            pending_start = True
        if op[0] == 'stop' and run is not None and idx and obs['steps'][idx - 1]['sf'] is not None:
            run['stopped'] = True
        if op[0] == 'cycle':
            used = [b for n, b in obs['used_s']]
            if pending_start and (active or s['nt'] is None):
                pass
        if not active and not start_pending and s['nt'] is None:
            # finished: the status must be the final status of the run that ended (or of the stop / error)
            if _busy(s['st'][0]):
                fail('status', f'op {idx}: machine inactive but status still busy {s["st"]}')
    # stale final status: a run that neither was stopped, nor raised, nor called final_status must end (IDLE, '')
    runs = _hs_runs(case, obs)
    for r in runs:
        if r['ended'] is not None and r['plain'] and r['status'] != [100, ['empty']]:
            fail('stale-final-status', f'run started at op {r["start"]} finished normally at op {r["ended"]} '
                                       f'but reports {r["status"]}')
    return fails


def _hs_runs(case, obs):
    """segments: from the cycle in which a start request is entered to the cycle after which the machine is inactive.
    plain = finished by Finish (behaviour F) without stop request, error or final_status in between and without a
    later start request pending"""
    runs = []
    cur = None
    si = 0
    beh = [b for n, b in obs['used_s']]
    calls_before = 0
    for idx, s in enumerate(obs['steps']):
        op = case['ops'][idx]
        if op[0] == 'stop' and cur is not None:
            cur['plain'] = False
        if op[0] == 'start' and cur is not None:
            cur['plain'] = False
        if op[0] == 'cycle':
            prev_nt = obs['steps'][idx - 1]['nt'] if idx else None
            entered = prev_nt is not None and case['ops'][prev_nt][0] == 'start' and s['nt'] is None
            if entered and (cur is None):
                cur = {'start': prev_nt, 'plain': obs['steps'][idx - 1]['sf'] is None, 'ended': None, 'status': None}
            elif entered:
                cur = {'start': prev_nt, 'plain': False, 'ended': None, 'status': None}
            if cur is not None and s['sf'] is None and s['nt'] is None:
                cur['ended'] = idx
                cur['status'] = s['st']
                runs.append(cur)
                cur = None
        # behaviours consumed so far decide plainness: any E, X, FS or chained exhaustion spoils it
    # refine plainness with the behaviours: a run is plain only if all its calls were R / N / F
    # (conservative: if any non-plain behaviour occurs anywhere in the case, only runs before it count)
    bad_first = next((i for i, b in enumerate(beh) if b in ('E', 'X') or (not isinstance(b, str) and b[0] == 'FS')), None)
    if bad_first is not None:
        runs = []       # keep the oracle simple and sound: judge only cases without such behaviours
    if sum(1 for b in beh if not isinstance(b, str) and b[0] == 'N') >= 10:
        runs = []       # chains may exhaust maxloops (an error)
    return runs


def f_stale_final_status(case, obs, f):
    return case.get('kind') == 'hs' and f['class'] == 'stale-final-status'


FINDING_CLASSIFIERS['stale-final-status-of-earlier-run'] = f_stale_final_status

BEH_HS = ['R', 'R', 'F', 'E', 'X', ['N', 0], ['N', 1], ['N', 2], ['N', 3], ['FS', 100], ['FS', 200], ['FS', 400]]


def rand_hs_case(rng):
    n = rng.randint(2, 10)
    ops = [['start', rng.randrange(4), []]]
    for _ in range(n):
        r = rng.random()
        if r < 0.55:
            ops.append(['cycle'])
        elif r < 0.8:
            ops.append(['start', rng.randrange(4), [[k, rng.randint(-2, 2)] for k in range(2) if rng.random() < 0.3]])
        else:
            ops.append(['stop'])
    ops.append(['cycle'])
    plain = rng.random() < 0.4
    pool = ['R', 'F', ['N', 0], ['N', 1], ['N', 2]] if plain else BEH_HS
    s = [rng.choice(pool) for _ in range(rng.randint(0, 20))]
    scode = [[i, rng.choice([300, 300, 340, 370, 390])] for i in range(4) if rng.random() < 0.5]
    return {'kind': 'hs', 's': s, 'scode': scode, 'ops': ops}


def gen_hs_cases(seed, tier):
    rng = random.Random(seed * 1000003 + 1414)
    n = {'quick': 1500, 'thorough': 30000, 'search': 30000}[tier]
    return [rand_hs_case(rng) for _ in range(n)]
