"""C14 — StateMachine: implementation driver, case encoder, direct oracle"""
import itertools
import random

from harness import gal

ID = 'C14'
MODEL_TARGETS = ['theories/C14/Run.vo']
PROOF_TARGETS = ['theories/C14/Properties.vo', 'theories/C14/Refuted.vo']
PROPERTIES_V = 'theories/C14/Properties.v'
IMPORTS = 'Require Import FV.Gen.C14 FV.C14.Model FV.C14.HasStates FV.C14.Run.'
CASE_TYPE = 'anycase'
CHECK = 'check_any'
SHARD_SIZE = 400
RULE = ('three kinds of cases.  core: histories of {cycle, start(A|B|C, cleanup?, attrs), stop} over scripted state/cleanup '
        'function behaviours (next/retry/finish/non-callable/raise) with start/stop injected at hook points (time.time(), '
        'inside state functions, inside cleanup functions, in the transition callback, at every acquisition of '
        'StateMachine._lock by the cycling thread); random (seeded) plus exhaustive short histories.  conc: the same with a '
        'second REAL thread calling start()/stop() under harness/dsched.py (switch points = hook points and every '
        'acquisition of sm._lock, which is replaced by a scheduler-aware lock); random placements plus one post at every '
        'switch point of fixed programs; where the posts landed is translated into the world of the model.  hs: a real '
        'HasStates+Drivable module with start_machine/stop_machine/cycle_machine between cycles and start_machine/'
        'stop_machine at hook points, default and scripted cleanup functions, final_status.  A case is non-trivial when at '
        'least one state function ran; distinct = distinct (ops, consumed scripts, interference) tuples')
ASSUMPTIONS = [
    'state/cleanup functions are python functions with a __name__; attribute names passed to start() are not class attributes of StateMachine',
    'a second thread runs at hook points and at the acquisitions of StateMachine._lock (switch points of harness/dsched.py); preemption between two bytecodes without such a point in between is covered by the two-thread transition system Conc.v (every line of the pick-up and of start/stop is an atomic step) and the translator facts pickup_reads_under_lock / next_task_written_only_by_start_stop_cycle, not by execution',
    'HasStates layer (frappy/states.py): start_machine/stop_machine come between cycles and at hook points (same thread); cleanup is on_cleanup or a scripted function; state functions carry busy status codes or none; on_error/on_restart/on_stop are not overridden',
]
NKEYS = 3
ABORT_AFTER = 400


class Abort(BaseException):
    pass


def _consts():
    try:
        from translator import facts_C14
        return int(facts_C14.maxloops()[1].split('%')[0]), int(facts_C14.outer_rounds()[1].split('%')[0])
    except Exception:
        return 10, 2


# ------------------------------------------------------------------ implementation driver
class CoreRig:
    """a real StateMachine with scripted state / cleanup functions and numbered hook points.

    Hook points (numbered in execution order, kinds in self.kinds): T time.time() at the top of an inner loop turn,
    S body of a state function, C body of a cleanup function, XS / XN transition callback (to a state / to None),
    L acquisition of StateMachine._lock by the cycling thread (sm._lock is replaced by a HookLock).
    sequential mode (sched None): the task case['env'][n] is posted at hook n by the same thread;
    concurrent mode (sched = dsched.Scheduler): every hook and every lock acquisition is a switch point and a second
    real thread posts; where its posts landed is recorded in xenv / xops."""

    def __init__(self, case, smod, sched=None):
        self.case, self.smod, self.S = case, smod, sched
        self.events = []
        self.hookn = self.si = self.ci = self.calls = 0
        self.used_s, self.used_c, self.kinds = [], [], []
        self.env = {int(k): v for k, v in case.get('env', [])}
        self.funcs = {}
        self.in_cycle = False
        self.posting = False
        self.point = None
        self.sm = None

    # ---- hooks
    def is_main(self):
        return self.S is None or getattr(self.S.current_thread(), 'name', 'main') == 'main'

    def hook(self, kind):
        n = self.hookn
        self.hookn += 1
        self.kinds.append(kind)
        self.point = n
        if self.S is not None:
            self.S.switch(f'hook{n}{kind}')
        elif n in self.env:
            self.post(self.env[n], 1000 + n)
        return n

    # ---- scripted functions
    def state_fn(self, sid):
        smod = self.smod
        if sid not in self.funcs:
            def f(sm):
                self.calls += 1
                if self.calls > ABORT_AFTER:
                    raise Abort()
                self.events.append(['call', sid, bool(sm.init)])
                n = self.hook('S')
                b = self.case['s'][self.si] if self.si < len(self.case['s']) else 'R'
                self.si += 1
                self.used_s.append([n, b])
                if b == 'R':
                    return smod.Retry
                if b == 'F':
                    return smod.Finish
                if b == 'X':
                    return 42
                if b == 'E':
                    raise ValueError('scripted')
                return self.state_fn(b[1])
            f.__name__ = f'state_{sid}'
            self.funcs[sid] = f
        return self.funcs[sid]

    def cleanup_fn(self, owner, cid):
        smod = self.smod

        def c(sm):
            r = sm.cleanup_reason
            rc = 0 if isinstance(r, Exception) else 1 if isinstance(r, smod.Start) else 2 if isinstance(r, smod.Stop) else 9
            self.events.append(['cleanup', owner, cid, rc])
            n = self.hook('C')
            b = self.case['c'][self.ci] if self.ci < len(self.case['c']) else 'N'
            self.ci += 1
            self.used_c.append([n, b])
            if b == 'N':
                return None
            if b == 'X':
                return 42
            if b == 'E':
                raise ValueError('scripted cleanup')
            return self.state_fn(b[1])
        c.__name__ = f'cleanup_{owner}_{cid}'
        c.verif = (owner, cid)
        return c

    def post(self, task, tid):
        """sm.start / sm.stop called directly (by the cycling thread between cycles or inside a hook, or by the
        second thread)"""
        sm = self.sm
        mine = self.is_main()
        if mine:
            self.posting = True
        try:
            if task[0] == 'stop':
                sm.stop()
            else:
                _, sid, cid, kw = task
                kwds = {f'a{k}': v for k, v in kw}
                if cid is not None:
                    kwds['cleanup'] = self.cleanup_fn(tid, cid)
                sm.start(self.state_fn(sid), **kwds)
        finally:
            if mine:
                self.posting = False
        sm.next_task.verif_id = tid
        self.events.append(['post', tid])

    # ---- the machine
    def build(self, lock):
        smod, rig = self.smod, self

        class FakeTime:
            @staticmethod
            def time():
                if rig.in_cycle:
                    rig.hook('T')
                return 0.0

        class Log:
            def __getattr__(self, name):
                return lambda *a, **k: None

        class HookLock:
            """sm._lock: an acquisition by the cycling thread inside cycle() is a hook point"""

            def acquire(self, *a, **k):
                if rig.in_cycle and not rig.posting and rig.is_main():
                    rig.hook('L')
                return lock.acquire(*a, **k)

            def release(self):
                lock.release()

            def __enter__(self):
                self.acquire()
                return True

            def __exit__(self, *a):
                self.release()

        def transition(sm, newstate):
            self.events.append(['trans', sm.statefunc is not None,
                                None if newstate is None else int(newstate.__name__.split('_')[1])])
            self.hook('XN' if newstate is None else 'XS')

        self.orig_time = smod.time
        smod.time = FakeTime
        sm = smod.StateMachine(logger=Log(), transition=transition)
        sm._lock = HookLock()
        orig_cleanup = sm._cleanup

        def cleanup_wrapper(reason):
            rc = 0 if isinstance(reason, Exception) else 1 if isinstance(reason, smod.Start) else 2 if isinstance(reason, smod.Stop) else 9
            self.events.append(['int', rc])
            return orig_cleanup(reason)
        sm._cleanup = cleanup_wrapper
        self.sm = sm
        return sm

    def restore(self):
        self.smod.time = self.orig_time

    def snapshot(self, events, exc=None):
        sm, smod = self.sm, self.smod
        r = sm.cleanup_reason
        return {
            'events': [list(e) for e in events],
            'exc': exc,
            'sf': None if sm.statefunc is None else int(sm.statefunc.__name__.split('_')[1]),
            'nt': None if sm.next_task is None else getattr(sm.next_task, 'verif_id', -1),
            'cl': None if sm.cleanup is None else list(getattr(sm.cleanup, 'verif', (-1, -1))),
            'rc': None if r is None else (0 if isinstance(r, Exception) else 1 if isinstance(r, smod.Start) else 2),
            'init': bool(sm.init),
            'attrs': [[k, getattr(sm, f'a{k}', None)] for k in range(NKEYS)],
            'active': bool(sm.is_active),
        }

    def do_op(self, op, i):
        """one operation of the cycling thread; returns the exception text or None"""
        del self.events[:]
        try:
            if op == 'C':
                self.in_cycle = True
                try:
                    self.sm.cycle()
                finally:
                    self.in_cycle = False
            else:
                self.post(op, i)
        except Abort:
            return 'Abort: more than %d state calls' % ABORT_AFTER
        except Exception as e:
            return f'{type(e).__name__}: {e}'
        return None


def run_case(case):
    if case.get('kind') == 'hs':
        return run_hs(case)
    if case.get('kind') == 'conc':
        return run_conc(case)
    import threading
    from frappy.lib import statemachine as smod
    rig = CoreRig(case, smod)
    try:
        rig.build(threading.Lock())
        steps, xops = [], []
        for i, op in enumerate(case['ops']):
            exc = rig.do_op(op, i)
            steps.append(rig.snapshot(rig.events, exc))
            xops.append(['C'] if op == 'C' else ['P', op, i])
            if exc:
                break
        return {'steps': steps, 'used_s': rig.used_s, 'used_c': rig.used_c, 'kinds': rig.kinds, 'xops': xops,
                'xenv': [[n, t, 1000 + n] for n, t in sorted(rig.env.items())]}
    finally:
        rig.restore()


class AtPolicy:
    """dsched policy: the poster thread runs at the scheduler steps listed in `at` (if it can), the cycling thread
    at all others"""

    def __init__(self, at):
        self.at = set(at)

    def __call__(self, n, enabled, current):
        if n in self.at and 'poster' in enabled:
            return 'poster'
        return 'main' if 'main' in enabled else enabled[0]


def run_conc(case):
    """two real threads under harness/dsched.py: 'main' runs the history of cycle()/start()/stop(), 'poster' calls
    start()/stop() for case['posts2']; switch points are the hook points and every acquisition of sm._lock"""
    from harness import dsched
    from frappy.lib import statemachine as smod
    S = dsched.Scheduler(AtPolicy(case['at']), max_steps=4000)
    rig = CoreRig(case, smod, S)
    steps, xops, xenv = [], [], []
    out = {}

    def poster():
        for j, task in enumerate(case['posts2']):
            tid = 2000 + j
            rig.post(task, tid)            # parks at the acquisition of the lock; the rest runs in one piece
            if rig.in_cycle:
                xenv.append([rig.point, task, tid])
            else:
                rig.events.pop()           # our own ['post', tid]
                steps.append(rig.snapshot([['post', tid]]))
                xops.append(['P', task, tid])

    def main():
        S.spawn(poster, 'poster')
        for i, op in enumerate(case['ops']):
            S.switch('op')
            exc = rig.do_op(op, i)
            steps.append(rig.snapshot(rig.events, exc))
            xops.append(['C'] if op == 'C' else ['P', op, i])
            if exc:
                break

    try:
        lock = S.Lock()
        lock.name = 'sm._lock'
        rig.build(lock)
        res = S.run(main)
        out = {'steps': steps, 'used_s': rig.used_s, 'used_c': rig.used_c, 'kinds': rig.kinds, 'xops': xops,
               'xenv': xenv, 'sched': res.status, 'sched_error': res.error or res.thread_errors.get('poster'),
               'decisions': ''.join('p' if d == 'poster' else 'm' for d in res.decisions)}
        return out
    finally:
        rig.restore()


# ------------------------------------------------------------------ encoding into Gallina
def enc_task(task, tid):
    if task[0] == 'stop':
        return f'(TStop {gal.nat(tid)})'
    _, sid, cid, kw = task
    return (f'(TStart {gal.nat(tid)} {gal.nat(sid)} {gal.option(cid, gal.nat)} '
            f'{gal.lst(kw, lambda p: gal.pair(p, gal.nat, gal.z))})')


def enc_sbeh(b):
    return {'R': 'BRetry', 'F': 'BFinish', 'X': 'BNonCallable', 'E': 'BRaise'}.get(b) if isinstance(b, str) \
        else f'(BNext {gal.nat(b[1])})'


def enc_cbeh(b):
    return {'N': 'CNone', 'X': 'CNonCallable', 'E': 'CRaise'}.get(b) if isinstance(b, str) \
        else f'(CNext {gal.nat(b[1])})'


def enc_event(e):
    k = e[0]
    if k == 'call':
        return f'(EvCall {gal.nat(e[1])} {gal.boolean(e[2])})'
    if k == 'cleanup':
        return f'(EvCleanup {gal.nat(e[1])} {gal.nat(e[2])} {gal.nat(e[3])})'
    if k == 'int':
        return f'(EvInt {gal.nat(e[1])})'
    if k == 'trans':
        return f'(EvTrans {gal.boolean(e[1])} {gal.option(e[2], gal.nat)})'
    raise ValueError(e)


def encode(case, obs):
    if case.get('kind') == 'hs':
        return 'CHs (%s)' % encode_hs(case, obs)
    return 'CCore (%s)' % encode_core(case, obs)


def encode_core(case, obs):
    ops = []
    for op in obs['xops'][:len(obs['steps'])]:
        ops.append('OCycle' if op[0] == 'C' else f'(OPost {enc_task(op[1], op[2])})')
    last = {}
    for n, t, tid in obs['xenv']:
        last[n] = (t, tid)             # several posts at one hook: the last one stays
    env = [f'({gal.nat(n)}, {enc_task(t, tid)})' for n, (t, tid) in sorted(last.items())]
    obl = []
    for s in obs['steps']:
        if s['exc']:
            raise ValueError('implementation raised: ' + s['exc'])
        evs = [enc_event(e) for e in s['events'] if e[0] != 'post']
        obl.append('{| o_events := [%s]; o_sf := %s; o_nt := %s; o_cl := %s; o_rc := %s; o_init := %s; o_attrs := %s |}' % (
            '; '.join(evs), gal.option(s['sf'], gal.nat), gal.option(s['nt'], gal.nat),
            gal.option(s['cl'], lambda p: gal.pair(p, gal.nat, gal.nat)), gal.option(s['rc'], gal.nat),
            gal.boolean(s['init']),
            gal.lst(s['attrs'], lambda p: f'({gal.nat(p[0])}, {gal.option(p[1], gal.z)})')))
    return ('{| c_s := %s; c_c := %s; c_env := [%s]; c_ops := [%s]; c_obs := [%s] |}' % (
        gal.lst(obs['used_s'], lambda p: f'({gal.nat(p[0])}, {enc_sbeh(p[1])})'),
        gal.lst(obs['used_c'], lambda p: f'({gal.nat(p[0])}, {enc_cbeh(p[1])})'),
        '; '.join(env), '; '.join(ops), '; '.join(obl)))


def model_result_term(case, obs):
    if case.get('kind') == 'hs':
        return f'hmodel_status ({encode_hs(case, obs)})'
    return f'model_trace ({encode_core(case, obs)})'


# ------------------------------------------------------------------ direct oracle (the property on the impl trace)
def oracle(case, obs):
    if case.get('kind') == 'hs':
        return oracle_hs(case, obs)
    fails = []
    maxloops, rounds = _consts()

    def fail(cls, what):
        fails.append({'class': cls, 'what': what})

    if obs.get('sched', 'ok') != 'ok' or obs.get('sched_error'):
        fail('cycle-raised', f'two-thread run ended with {obs.get("sched")} {obs.get("sched_error")}')
        return fails
    xops = obs['xops']
    tasks = {}
    for op in xops:
        if op[0] == 'P':
            tasks[op[2]] = op[1]
    for n, t, tid in obs['xenv']:
        tasks[tid] = t
    pending = None          # id of the latest posted task not yet taken
    seg = None              # current run: {'task': id, 'has_cleanup': bool, 'ints': n, 'cleanups': n}
    last_ct = None          # last call-or-trans event
    cur_state = None
    for idx, s in enumerate(obs['steps']):
        op = 'C' if xops[idx][0] == 'C' else xops[idx][1]
        if s['exc']:
            fail('cycle-raised', f'op {idx} ({op}) raised {s["exc"]}')
            break
        calls = sum(1 for e in s['events'] if e[0] == 'call')
        cleanups = sum(1 for e in s['events'] if e[0] == 'cleanup')
        if op == 'C' and (calls > rounds * maxloops or cleanups > rounds):
            fail('cycle-unbounded', f'cycle {idx}: {calls} state calls, {cleanups} cleanup calls')
        entry_pending = pending
        entry_rc = obs['steps'][idx - 1]['rc'] if idx else None
        env_posted = False
        picked_in_op = None
        for e in s['events']:
            k = e[0]
            if k == 'post':
                # no request is lost: a request disappears only by being taken or by being superseded by this later one
                pending = e[1]
                if op == 'C':
                    env_posted = True
            elif k == 'trans':
                active, f = e[1], e[2]
                if f is not None and not active:
                    # a deferred start is taken
                    if pending is None or tasks[pending][0] != 'start' or tasks[pending][1] != f:
                        fail('last-start-wins', f'op {idx}: state {f} entered but latest request is '
                                                f'{pending} {tasks.get(pending)}')
                        picked = None
                    else:
                        picked = pending
                    seg = {'task': picked, 'has_cleanup': picked is not None and tasks[picked][2] is not None,
                           'ints': 0, 'task_ints': 0, 'cleanups': 0}
                    picked_in_op = picked
                    pending = None
                last_ct = ('trans', f)
                cur_state = f
            elif k == 'call':
                f, init = e[1], e[2]
                if cur_state != f:
                    fail('init-flag', f'op {idx}: state {f} called but last transition went to {cur_state}')
                fresh = last_ct is None or last_ct[0] == 'trans'
                if bool(init) != fresh:
                    fail('init-flag', f'op {idx}: state {f} saw init={init}, first call after transition: {fresh}')
                last_ct = ('call', f)
            elif k == 'int':
                if seg is None:
                    fail('cleanup-once', f'op {idx}: interruption without an active run')
                    continue
                if e[1] in (1, 2):
                    if seg['ints'] > 0:
                        fail('cleanup-once', f'op {idx}: a cleanup sequence in progress was interrupted by start/stop')
                    seg['task_ints'] += 1
                seg['ints'] += 1
            elif k == 'cleanup':
                if seg is None or seg['task'] is None or e[1] != seg['task']:
                    fail('cleanup-once', f'op {idx}: cleanup of request {e[1]} ran but current run is {seg and seg["task"]}')
                    continue
                seg['cleanups'] += 1
                if seg['cleanups'] > 1:
                    fail('cleanup-once', f'op {idx}: cleanup of request {e[1]} ran {seg["cleanups"]} times')
                if seg['ints'] != 1:
                    fail('cleanup-once', f'op {idx}: cleanup ran but not right after the first interruption')
                if tasks[seg['task']][2] != e[2]:
                    fail('cleanup-once', f'op {idx}: wrong cleanup function')
        if seg and seg['has_cleanup'] and seg['ints'] > 0 and seg['cleanups'] != 1:
            fail('cleanup-once', f'op {idx}: run of request {seg["task"]} interrupted but cleanup ran {seg["cleanups"]} times')
        if op == 'C':
            # a Stop pickup is invisible in the trace: the pending task is gone and the machine is idle
            if pending is not None and s['nt'] is None:
                if tasks[pending][0] == 'stop':
                    if s['sf'] is not None and not env_posted:
                        fail('stop-inactive', f'cycle {idx}: stop request taken but machine still in state {s["sf"]}')
                    pending = None
                else:
                    fail('last-start-wins', f'cycle {idx}: start request {pending} vanished without being entered')
                    pending = None
            # progress: a pending task is taken unless a cleanup sequence is in progress or loops were exhausted
            if entry_pending is not None and not env_posted and entry_rc is None and s['nt'] is not None:
                in_cleanup_seq = s['rc'] is not None and s['sf'] is not None
                if not in_cleanup_seq:
                    fail('last-start-wins', f'cycle {idx}: pending request {entry_pending} neither taken nor cleaning up')
            if picked_in_op is not None:
                kw = dict((k, v) for k, v in tasks[picked_in_op][3])
                got = dict((k, v) for k, v in s['attrs'])
                for k, v in kw.items():
                    if got.get(k) != v:
                        fail('last-start-wins', f'cycle {idx}: attribute a{k}={got.get(k)} but request {picked_in_op} asked {v}')
        if (s['nt'] is None) != (pending is None) or (s['nt'] is not None and s['nt'] != pending):
            fail('last-start-wins', f'op {idx}: pending request is {s["nt"]}, latest posted is {pending}')
            pending = s['nt']
        if s['active'] != (s['sf'] is not None):
            fail('stop-inactive', 'is_active disagrees with statefunc')
    return fails


FINDING_CLASSIFIERS = {}


def nontrivial_key(case, obs):
    if case.get('kind') == 'hs':
        return repr(('hs', case['ops'], obs['used_s'], obs['used_c'], obs['env_eff'], case['scode'])) if obs['used_s'] else None
    if not obs['used_s']:
        return None
    return repr((obs['xops'], obs['used_s'], obs['used_c'], obs['xenv']))


def outcome_labels(case, obs):
    if case.get('kind') == 'hs':
        labs = {'hs'} | {'hs-status-%s' % st['st'][0] for st in obs['steps']}
        for n, t, tid in obs['env_eff']:
            labs.add(f'hs-{t[0]}-at-hook-{obs["kinds"][n]}')
        labs |= {'hs-' + e[1] for e in obs['hev']}
        return sorted(labs)
    labs = set()
    if case.get('kind') == 'conc':
        labs.add('two-threads')
        for n, t, tid in obs['xenv']:
            labs.add(f'thread2-{t[0]}-at-hook-{obs["kinds"][n]}')
        if any(op[0] == 'P' and op[2] >= 2000 for op in obs['xops']):
            labs.add('thread2-post-between-cycles')
    for s in obs['steps']:
        for e in s['events']:
            labs.add(e[0] if e[0] != 'int' else f'int{e[1]}')
        if s['exc']:
            labs.add('raised')
    if case.get('env'):
        labs.add('env-interference')
        for n, t, tid in obs['xenv']:
            if n < len(obs['kinds']):
                labs.add(f'env-{t[0]}-at-hook-{obs["kinds"][n]}')
    return sorted(labs)


def sample_repr(case, obs):
    if case.get('kind') == 'hs':
        return {'case': case, 'status_per_op': [(st['st'], st['log']) for st in obs['steps']][:8]}
    r = {'case': case, 'events_per_op': [s['events'] for s in obs['steps']][:6]}
    if case.get('kind') == 'conc':
        r['schedule'] = obs.get('decisions')
        r['thread2_posts_at_hooks'] = [[n, obs['kinds'][n], tid] for n, t, tid in obs['xenv']]
    return r


# ------------------------------------------------------------------ generators
BEH_S = ['R', 'F', 'X', 'E', ['N', 0], ['N', 1], ['N', 2]]
BEH_C = ['N', 'X', 'E', ['S', 0], ['S', 1], ['S', 2]]


def rand_task(rng):
    if rng.random() < 0.3:
        return ['stop']
    kw = [[k, rng.randint(-3, 3)] for k in range(NKEYS) if rng.random() < 0.4]
    return ['start', rng.randrange(3), rng.choice([None, None, 0, 1]), kw]


def rand_case(rng):
    n = rng.randint(2, 9)
    ops = []
    for _ in range(n):
        r = rng.random()
        ops.append('C' if r < 0.55 else rand_task(rng))
    if ops[0] == 'C':
        ops[0] = ['start', rng.randrange(3), rng.choice([None, 0, 1]), []]
    heavy_next = rng.random() < 0.25
    s = [rng.choice(BEH_S[4:] if heavy_next and rng.random() < 0.9 else BEH_S) for _ in range(rng.randint(0, 30))]
    c = [rng.choice(BEH_C) for _ in range(rng.randint(0, 5))]
    env = []
    if rng.random() < 0.6:
        for _ in range(rng.randint(1, 3)):
            env.append([rng.randrange(0, 40), rand_task(rng)])
        env = sorted({e[0]: e for e in env}.values())
    return {'s': s, 'c': c, 'env': env, 'ops': ops}


def exhaustive_cases(depth):
    """all op sequences of the given depth over a small alphabet with fixed rich scripts"""
    alpha = ['C', ['start', 0, 0, [[0, 1]]], ['start', 1, None, []], ['stop']]
    scripts = [
        (['R'], ['N']), (['F'], ['N']), (['E'], [['S', 2]]), ([['N', 1], 'R'], ['N']),
        (['X', 'R', 'E'], [['S', 2], 'N']), ([['N', 1]] * 25, [['S', 2]]),
    ]
    for ops in itertools.product(alpha, repeat=depth):
        for s, c in scripts:
            yield {'s': list(s), 'c': list(c), 'env': [], 'ops': [['start', 0, 0, []]] + list(ops)}


def gen_cases(seed, tier):
    return gen_core_cases(seed, tier) + gen_hs_cases(seed, tier) + gen_conc_cases(seed, tier)


def gen_core_cases(seed, tier):
    rng = random.Random(seed * 1000003 + 14)
    n = {'quick': 2500, 'thorough': 60000, 'search': 60000}[tier]
    cases = [rand_case(rng) for _ in range(n)]
    if tier != 'quick':
        for d in (1, 2, 3, 4, 5):
            cases.extend(exhaustive_cases(d))
    else:
        for d in (1, 2, 3):
            cases.extend(exhaustive_cases(d))
    return cases


def shrink(case):
    ops = case['ops']
    for i in range(len(ops) - 1, -1, -1):
        yield dict(case, ops=ops[:i] + ops[i + 1:])
    for i in range(len(case.get('env', []))):
        yield dict(case, env=case['env'][:i] + case['env'][i + 1:])
    if case.get('kind') == 'conc':
        for i in range(len(case['posts2']) - 1, -1, -1):
            yield dict(case, posts2=case['posts2'][:i] + case['posts2'][i + 1:], at=case['at'][:-1])
    if case['s']:
        yield dict(case, s=case['s'][:-1])
    if case.get('c'):
        yield dict(case, c=case['c'][:-1])
    if case.get('scode'):
        yield dict(case, scode=case['scode'][:-1])


# ================================================================== HasStates layer (frappy/states.py)
def _stub_env():
    from frappy.lib import generalConfig

    class Log:
        handlers = []

        def __getattr__(self, name):
            return lambda *a, **k: None

    class Disp:
        def announce_update(self, moduleobj, pobj):
            pass

    class Srv:
        dispatcher = Disp()
        secnode = None
    generalConfig.testinit(omit_unchanged_within=0)
    return Log(), Srv()


TEXT_RE = None


def _text(t, names):
    """status text -> abstract text (see C14/HasStates.v)"""
    import re
    if t == '':
        return ['empty']
    if t in names:
        return ['name', names[t]]
    if t == 'stopping':
        return ['stopping']
    if t == 'restarting':
        return ['restarting']
    if t == 'stopped':
        return ['stopped']
    m = re.fullmatch(r'stopping \((.*)\)', t)
    if m and m.group(1) in names:
        return ['stopping_in', names[m.group(1)]]
    m = re.fullmatch(r'restarting \((.*)\)', t)
    if m and m.group(1) in names:
        return ['restarting_in', names[m.group(1)]]
    m = re.fullmatch(r'final(-?\d+)', t)
    if m:
        return ['final', int(m.group(1))]
    if t == 'Finish was returned without final status':
        return ['nofinal']
    if t.startswith('ValueError(') or t.startswith('RuntimeError('):
        return ['error']
    return ['other', t]


def _hs_start(op):
    """['start', f, kw] (old corpus format) or ['start', f, cl, kw]; cl None = default on_cleanup, k >= 1 = scripted"""
    if len(op) == 3:
        return op[1], None, op[2]
    return op[1], op[2], op[3]


def run_hs(case):
    """a real HasStates + Drivable module with scripted state functions; start_machine / stop_machine between the
    cycles (ops) and at hook points inside a cycle (case['env'])"""
    import threading
    from frappy.core import Drivable
    from frappy.states import HasStates, Retry, Finish, status_code
    from frappy.lib import statemachine as smod
    from frappy.modulebase import PollInfo
    log, srv = _stub_env()
    st = {'hook': 0, 'si': 0, 'ci': 0, 'calls': 0, 'in_cycle': False, 'posting': False, 'op': 0}
    used_s, used_c, kinds, env_eff, hev = [], [], [], [], []
    sscript = case['s']
    cscript = case.get('c', [])
    env = {int(k): v for k, v in case.get('env', [])}
    scode = {int(k): v for k, v in case['scode']}
    reads = []
    ref = {}

    def do_start(op, tid):
        m, sm = ref['m'], ref['sm']
        f, cl, kw = _hs_start(op)
        kwds = {f'a{k}': v for k, v in kw}
        if cl is not None:
            kwds['cleanup'] = make_cleanup(cl)
        hev.append([st['op'], 'start', tid])
        m.start_machine(getattr(m, f'state_{f}'), **kwds)
        sm.next_task.verif_id = tid

    def do_stop(tid):
        m, sm = ref['m'], ref['sm']
        before = sm.next_task
        m.stop_machine()
        if sm.next_task is not before:
            sm.next_task.verif_id = tid
            hev.append([st['op'], 'stop_eff', tid])
            return True
        return False

    def hook(kind):
        n = st['hook']
        st['hook'] += 1
        kinds.append(kind)
        if n in env and not st['posting']:
            st['posting'] = True
            try:
                op = env[n]
                if op[0] == 'start':
                    do_start(op, 1000 + n)
                    f, cl, kw = _hs_start(op)
                    env_eff.append([n, ['start', f, 0 if cl is None else cl, kw], 1000 + n])
                elif do_stop(1000 + n):
                    env_eff.append([n, ['stop'], 1000 + n])
            finally:
                st['posting'] = False
        return n

    def make_state(sid):
        def f(self, sm):
            st['calls'] += 1
            if st['calls'] > ABORT_AFTER:
                raise Abort()
            n = hook('S')
            b = sscript[st['si']] if st['si'] < len(sscript) else 'R'
            st['si'] += 1
            used_s.append([n, b])
            if b == 'R':
                return Retry
            if b == 'F':
                return Finish
            if b == 'X':
                return 42
            if b == 'E':
                raise ValueError('scripted')
            if b[0] == 'FS':
                return self.final_status(b[1], f'final{b[1]}')
            return getattr(self, f'state_{b[1]}')
        f.__name__ = f'state_{sid}'
        if sid in scode:
            f = status_code(scode[sid])(f)
        return f

    def make_cleanup(k):
        def c(sm):
            n = hook('C')
            b = cscript[st['ci']] if st['ci'] < len(cscript) else 'N'
            st['ci'] += 1
            used_c.append([n, b])
            if b == 'N':
                return None
            if b == 'X':
                return 42
            if b == 'E':
                raise ValueError('scripted cleanup')
            return getattr(ref['m'], f'state_{b[1]}')
        c.__name__ = f'cleanup_{k}'
        return c

    ns = {f'state_{i}': make_state(i) for i in range(4)}

    def read_status(self):
        v = HasStates.read_status(self)
        reads.append(v)
        return v
    ns['read_status'] = read_status
    ns['read_value'] = lambda self: 0
    from frappy.core import Parameter, StatusType
    ns['status'] = Parameter(datatype=StatusType(Drivable, 'PREPARING', 'RAMPING', 'FINALIZING'))
    Mod = type('Mod', (HasStates, Drivable), ns)
    names = {f'state {i}': i for i in range(4)}

    class FakeTime:
        @staticmethod
        def time():
            if st['in_cycle']:
                hook('T')
            return 0.0

    real_lock = threading.Lock()

    class HookLock:
        def acquire(self, *a, **k):
            if st['in_cycle'] and not st['posting']:
                hook('L')
            return real_lock.acquire(*a, **k)

        def release(self):
            real_lock.release()

        def __enter__(self):
            self.acquire()
            return True

        def __exit__(self, *a):
            self.release()
    orig_time = smod.time
    try:
        m = Mod('m', log, {'description': ''}, srv)
        m.earlyInit()
        m.initModule()
        m.pollInfo = PollInfo(m.pollinterval, m.triggerPoll)
        sm = m._state_machine
        ref['m'], ref['sm'] = m, sm
        sm._lock = HookLock()
        orig_trans = sm.transition

        def transition(smx, newstate):
            if newstate is None:
                hev.append([st['op'], 'finish'])
            elif smx.statefunc is None:
                hev.append([st['op'], 'enter'])
            orig_trans(smx, newstate)
            hook('XN' if newstate is None else 'XS')
        sm.transition = transition
        orig_on_cleanup = m.on_cleanup

        def on_cleanup(smx):
            r = orig_on_cleanup(smx)
            n = hook('C')
            used_c.append([n, 'N'])
            return r
        m.on_cleanup = on_cleanup
        orig_final = m.final_status

        def final_status(code=100, text=''):
            hev.append([st['op'], 'final', [int(code), _text(text, names)]])
            return orig_final(code, text)
        m.final_status = final_status
        smod.time = FakeTime
        st['hook'] = 0
        steps = []
        for i, op in enumerate(case['ops']):
            del reads[:]
            st['op'] = i
            exc = None
            try:
                if op[0] == 'start':
                    do_start(op, i)
                elif op[0] == 'stop':
                    do_stop(i)
                else:
                    st['in_cycle'] = True
                    try:
                        m.cycle_machine()
                    finally:
                        st['in_cycle'] = False
            except Abort:
                exc = 'Abort'
            except Exception as e:
                exc = f'{type(e).__name__}: {e}'
            stat = sm.status
            idle = sm.idle_status
            steps.append({
                'exc': exc,
                'st': [int(stat[0]), _text(stat[1], names)],
                'idle': None if not idle else [int(idle[0]), _text(idle[1], names)],
                'log': [[int(v[0]), _text(v[1], names)] for v in reads],
                'sf': None if sm.statefunc is None else int(sm.statefunc.__name__.split('_')[1]),
                'nt': None if sm.next_task is None else getattr(sm.next_task, 'verif_id', -1),
                'nt_start': isinstance(sm.next_task, smod.Start),
                'param': [int(m.status[0]), _text(m.status[1], names)],
            })
            if exc:
                break
        return {'steps': steps, 'used_s': used_s, 'used_c': used_c, 'kinds': kinds, 'env_eff': env_eff, 'hev': hev}
    finally:
        smod.time = orig_time


def enc_text(t):
    k = t[0]
    return {'empty': 'TEmpty', 'stopping': 'TStopping', 'restarting': 'TRestarting', 'stopped': 'TStopped',
            'error': 'TError', 'nofinal': 'TNoFinal'}.get(k) or {
        'name': lambda: f'(TName {gal.nat(t[1])})', 'stopping_in': lambda: f'(TStoppingIn {gal.nat(t[1])})',
        'restarting_in': lambda: f'(TRestartingIn {gal.nat(t[1])})', 'final': lambda: f'(TFinal {gal.z(t[1])})'}[k]()


def enc_status(s):
    return f'({gal.z(s[0])}, {enc_text(s[1])})'


def enc_sbeh_hs(b):
    if not isinstance(b, str) and b[0] == 'FS':
        return f'(BFinal {gal.z(b[1])})'
    return enc_sbeh(b)


def encode_hs(case, obs):
    ops = []
    for i, op in enumerate(case['ops'][:len(obs['steps'])]):
        if op[0] == 'start':
            f, cl, kw = _hs_start(op)
            ops.append(f'(HStart {gal.nat(i)} {gal.nat(f)} {gal.nat(0 if cl is None else cl)} '
                       f'{gal.lst(kw, lambda p: gal.pair(p, gal.nat, gal.z))})')
        elif op[0] == 'stop':
            ops.append(f'(HStop {gal.nat(i)})')
        else:
            ops.append('HCycle')
    obl = []
    for s in obs['steps']:
        if s['exc']:
            raise ValueError('implementation raised: ' + s['exc'])
        obl.append('{| ho_st := %s; ho_idle := %s; ho_log := %s; ho_sf := %s; ho_nt := %s |}' % (
            enc_status(s['st']), gal.option(s['idle'], enc_status), gal.lst(s['log'], enc_status),
            gal.option(s['sf'], gal.nat), gal.option(s['nt'], gal.nat)))
    env = [f'({gal.nat(n)}, {enc_task(t, tid)})' for n, t, tid in obs['env_eff']]
    return '{| h_s := %s; h_c := %s; h_env := [%s]; h_scode := %s; h_ops := [%s]; h_obs := [%s] |}' % (
        gal.lst(obs['used_s'], lambda p: f'({gal.nat(p[0])}, {enc_sbeh_hs(p[1])})'),
        gal.lst(obs['used_c'], lambda p: f'({gal.nat(p[0])}, {enc_cbeh(p[1])})'),
        '; '.join(env),
        gal.lst(case['scode'], lambda p: gal.pair(p, gal.nat, gal.z)), '; '.join(ops), '; '.join(obl))


def _busy(code):
    return 300 <= code < 400


def oracle_hs(case, obs):
    """A module built on the state machine reports a busy status from the start request until the machine has
    finished, and its final or stopped status afterwards - the final status of the run that finished: what this run
    itself set (final_status called by its state functions, the error handler for an exception in it, a stop request
    that took effect during it), default (IDLE, ''); never a status written by an earlier run."""
    fails = []

    def fail(cls, what):
        fails.append({'class': cls, 'what': what})
    hev = obs.get('hev', [])
    hi = 0
    own = None              # final status of the run in progress / of the last run; None: no run was ever entered
    for idx, s in enumerate(obs['steps']):
        op = case['ops'][idx]
        if s['exc']:
            fail('cycle-raised', f'op {idx} ({op}) raised {s["exc"]}')
            break
        while hi < len(hev) and hev[hi][0] <= idx:
            e = hev[hi]
            hi += 1
            if e[1] == 'enter':
                own = [100, ['empty']]          # a new run begins
            elif e[1] == 'final' and own is not None:
                own = e[2]
            elif e[1] == 'stop_eff' and own is not None:
                own = [100, ['stopped']]
        if s['param'] != s['st']:
            fail('status', f'op {idx}: status parameter {s["param"]} differs from the machine status {s["st"]}')
        active = s['sf'] is not None
        start_pending = bool(s.get('nt_start'))
        if (active or start_pending) and not _busy(s['st'][0]):
            fail('status', f'op {idx} ({op}): machine running or start requested but status is {s["st"]}')
        if not active and not start_pending:
            if _busy(s['st'][0]):
                fail('status-final', f'op {idx}: machine inactive but status still busy {s["st"]}')
            elif own is not None and s['st'] != own:
                fail('status-final', f'op {idx}: machine finished, the final status of the run is {own} '
                                     f'but the module reports {s["st"]}')
    return fails


def f_stale_final_status(case, obs, f):
    return case.get('kind') == 'hs' and f['class'] == 'stale-final-status'


FINDING_CLASSIFIERS['stale-final-status-of-earlier-run'] = f_stale_final_status


def f_stop_while_finishing(case, obs, f):
    """stop_machine took effect inside the transition callback of the finishing transition (is_active is still true
    there, the machine becomes inactive right afterwards): hook of kind XN with an effective stop"""
    if case.get('kind') != 'hs' or f['class'] != 'status-final':
        return False
    if "['stopping']" not in f['what']:          # the status that is stuck is (<code>, 'stopping')
        return False
    return any(t[0] == 'stop' and obs['kinds'][n] == 'XN' for n, t, tid in obs['env_eff'])


FINDING_CLASSIFIERS['stop-while-finishing'] = f_stop_while_finishing

BEH_HS = ['R', 'R', 'F', 'E', 'X', ['N', 0], ['N', 1], ['N', 2], ['N', 3], ['FS', 100], ['FS', 200], ['FS', 400]]
BEH_HS_C = ['N', 'N', ['S', 0], ['S', 1], ['S', 2], ['S', 3], 'E', 'X']


def rand_hs_start(rng):
    return ['start', rng.randrange(4), rng.choice([None, None, 1, 2]),
            [[k, rng.randint(-2, 2)] for k in range(2) if rng.random() < 0.3]]


def rand_hs_case(rng):
    n = rng.randint(2, 10)
    ops = [rand_hs_start(rng)]
    for _ in range(n):
        r = rng.random()
        if r < 0.6:
            ops.append(['cycle'])
        elif r < 0.82:
            ops.append(rand_hs_start(rng))
        else:
            ops.append(['stop'])
    ops.append(['cycle'])
    ops.append(['cycle'])
    plain = rng.random() < 0.4
    pool = ['R', 'F', ['N', 0], ['N', 1], ['N', 2], ['FS', 200]] if plain else BEH_HS
    s = [rng.choice(pool) for _ in range(rng.randint(0, 20))]
    c = [rng.choice(BEH_HS_C) for _ in range(rng.randint(0, 4))]
    scode = [[i, rng.choice([300, 300, 340, 370, 390])] for i in range(4) if rng.random() < 0.5]
    env = []
    if rng.random() < 0.6:
        for _ in range(rng.randint(1, 3)):
            env.append([rng.randrange(0, 30), rand_hs_start(rng) if rng.random() < 0.65 else ['stop']])
        env = sorted({e[0]: e for e in env}.values())
    return {'kind': 'hs', 's': s, 'c': c, 'env': env, 'scode': scode, 'ops': ops}


def restart_hs_case(rng):
    """a run that is restarted (between cycles or from a hook inside a cycle) while it still has steps to do:
    a cleanup sequence ending with final_status, a state function call that ends with final_status or raises after
    the start request came; the new run finishes plainly or with its own final status"""
    f1, f2 = rng.randrange(4), rng.randrange(4)
    new_run = rng.choice([['F'], ['R', 'F'], ['R', 'R', 'F'], [['FS', 100]], ['R', ['FS', 200]], ['E']])
    tail = [['cycle']] * (len(new_run) + rng.randint(1, 3))
    scode = [[i, rng.choice([300, 340, 390])] for i in range(4) if rng.random() < 0.3]
    kw = [[0, rng.randint(-2, 2)]] if rng.random() < 0.3 else []
    kind = rng.randrange(4)
    if kind == 0:
        # cleanup sequence: cleanup function returns a state which (after some retries) calls final_status / raises / finishes
        k = rng.randrange(4)
        seq = ['R'] * rng.randint(0, 2) + [rng.choice([['FS', 200], ['FS', 400], 'E', 'F', ['FS', 100]])]
        ops = [['start', f1, 1, []], ['cycle'], ['start', f2, rng.choice([None, 2]), kw]] + [['cycle']] * len(seq) + tail
        return {'kind': 'hs', 's': ['R'] + seq + new_run, 'c': [['S', k]], 'env': [], 'scode': scode, 'ops': ops}
    if kind == 1:
        # the same, the restart comes from a hook of the second cycle (time.time() = 4, lock = 5, cleanup body = 6, ...)
        k = rng.randrange(4)
        seq = ['R'] * rng.randint(0, 2) + [rng.choice([['FS', 200], ['FS', 400], 'E', 'F'])]
        ops = [['start', f1, 1, []], ['cycle']] + [['cycle']] * (len(seq) + 1) + tail
        return {'kind': 'hs', 's': ['R', 'R'] + seq + new_run, 'c': [['S', k]],
                'env': [[rng.choice([5, 7, 8, 9]), ['start', f2, None, kw]]], 'scode': scode, 'ops': ops}
    if kind == 2:
        # start_machine arrives during a state function call (hook 5 = body of the second call) which then ends the
        # old run with final_status / an exception / Finish
        end = rng.choice([['FS', 200], ['FS', 400], 'E', 'X', 'F'])
        ops = [['start', f1, rng.choice([None, 1]), []], ['cycle'], ['cycle']] + tail
        return {'kind': 'hs', 's': ['R', end] + new_run, 'c': ['N'],
                'env': [[rng.choice([4, 5, 5, 5]), ['start', f2, None, kw]]], 'scode': scode, 'ops': ops}
    # stop and restart mixed
    ops = [['start', f1, rng.choice([None, 1]), []], ['cycle'], ['stop'], ['start', f2, None, kw]] + tail + [['cycle']]
    if rng.random() < 0.5:
        ops[2], ops[3] = ops[3], ops[2]
    return {'kind': 'hs', 's': ['R'] + rng.choice([[], ['R'], [['FS', 200]]]) + new_run,
            'c': [rng.choice(['N', ['S', rng.randrange(4)]])],
            'env': [[rng.randrange(4, 12), rng.choice([['stop'], ['start', f1, None, []]])]] if rng.random() < 0.5 else [],
            'scode': scode, 'ops': ops}


def gen_hs_cases(seed, tier):
    rng = random.Random(seed * 1000003 + 1414)
    n = {'quick': 1100, 'thorough': 30000, 'search': 30000}[tier]
    m = {'quick': 400, 'thorough': 10000, 'search': 10000}[tier]
    rnd = [rand_hs_case(rng) for _ in range(n)]
    return [restart_hs_case(rng) for _ in range(m)] + rnd


# ================================================================== two real threads (harness/dsched.py)
def rand_conc_case(rng):
    n = rng.randint(2, 7)
    ops = [['start', rng.randrange(3), rng.choice([None, 0, 1]), []]]
    for _ in range(n):
        ops.append('C' if rng.random() < 0.7 else rand_task(rng))
    ops.append('C')
    s = [rng.choice(BEH_S) for _ in range(rng.randint(0, 20))]
    c = [rng.choice(BEH_C) for _ in range(rng.randint(0, 4))]
    posts2 = [rand_task(rng) for _ in range(rng.randint(1, 3))]
    # the poster thread needs one scheduler step to reach its first lock acquisition and one per post
    at = sorted(rng.sample(range(0, 45), len(posts2) + 1))
    return {'kind': 'conc', 's': s, 'c': c, 'ops': ops, 'posts2': posts2, 'at': at}


def systematic_conc_cases():
    """one post of the second thread at every switch point of a few fixed programs"""
    progs = [
        (['R'], ['N'], [['start', 0, 0, [[0, 1]]], 'C', 'C']),
        (['F', 'R'], ['N'], [['start', 0, None, []], 'C', 'C', 'C']),
        (['R', 'R'], [['S', 2]], [['start', 0, 0, []], 'C', ['start', 1, 1, [[1, 2]]], 'C', 'C']),
        (['R', 'E', 'R'], [['S', 1]], [['start', 0, 0, []], 'C', 'C', 'C']),
        (['R'], ['N'], [['start', 0, 0, []], 'C', ['stop'], 'C', 'C']),
    ]
    for s, c, ops in progs:
        for task in (['start', 2, 1, [[0, 7]]], ['stop']):
            for k in range(0, 40):
                yield {'kind': 'conc', 's': list(s), 'c': list(c), 'ops': list(ops), 'posts2': [task], 'at': [0, k + 1]}


def gen_conc_cases(seed, tier):
    rng = random.Random(seed * 1000003 + 141414)
    n = {'quick': 700, 'thorough': 20000, 'search': 20000}[tier]
    cases = [rand_conc_case(rng) for _ in range(n)]
    cases.extend(systematic_conc_cases())
    return cases


def search_cases(seed, mismatching):
    """when an obligation is broken and the quick cases show no failure: three more quick budgets"""
    cases = []
    for k in (1, 2, 3):
        cases.extend(gen_cases(seed + 7919 * k, 'quick'))
    return cases
