"""C16 — communicator (frappy/io.py StringIO / BytesIO over frappy/lib/asynconn.py AsynTcp): implementation driver (real
modules, real caller threads and the real poll thread under harness/dsched.py, scripted fake socket in virtual time),
case encoder, direct oracle, generators"""
import random

from harness import gal

ID = 'C16'
MODEL_TARGETS = ['theories/C16/Run.vo']
PROOF_TARGETS = ['theories/C16/Properties.vo']
PROPERTIES_V = 'theories/C16/Properties.v'
IMPORTS = 'Require Import FV.Gen.C16 FV.C16.Model FV.C16.Run.\nOpen Scope Z_scope.'
CASE_TYPE = 'case'
CHECK = 'check_case'
SHARD_SIZE = 120
TICK = 8               # ticks per second: every delay / time-out / interval is a multiple of 1/8 s
T0 = 1000.0            # virtual start time
SLICE = 8              # AsynConn.timeout = 1 s: one receive slice
RULE = ('one real StringIO (end_of_line "\\n", "\\r\\n" or ";") or BytesIO module on a real AsynTcp connection whose socket '
        'is a scripted fake (frappy.lib.asynconn.socket/select replaced): 2..4 caller threads with programs of '
        'communicate / writeline / multicomm / pause, optionally the real Module.__pollThread of the communicator, a '
        'device directive per command (reply delay, chunking incl. cuts inside the end-of-line, garbage before/after, '
        'late reply, silence, partial reply, disconnect before/inside/after the reply), k refused connection attempts, '
        'registered reconnect callbacks (return True / False / None / raise), and a thread schedule at '
        'synchronisation-point granularity (seeded / sticky / bounded preemption / explicit) in virtual time; every '
        'case is a real multi-thread run replayable from its decision list; non-trivial = at least two commands were '
        'sent or a connection attempt was refused or the connection was lost; distinct = distinct (programs, executed '
        'step sequence)')
ASSUMPTIONS = [
    'granularity: threads are interleaved at synchronisation points (acquire of the communicator lock and of accessLock, '
    'time.sleep, socket connect / sendall / blocking recv, Event.wait of the poll thread); preemption between two bytecodes '
    'of a region without such a point is not explored',
    'virtual time in ticks of 1/8 s; the clock advances only when every thread is blocked (dsched); data scheduled by the '
    'device for time t is readable at every time >= t; one recv returns one scheduled chunk',
    'the device closes a connection by EOF (recv returns b""); a send on a connection closed by the peer is silently lost',
    'wait_before = 0, identification = [] (checkHWIdent is empty), timeout > 0, no write_is_connected calls',
    'the poll thread is the real Module.__pollThread serving the communicator only; the model treats its own timing as '
    'arbitrary (it may call read_is_connected at any time) and follows only what read_is_connected does',
    'triggerPoll.set() (called by the trigger_polls reconnect callback) is not a scheduling point',
]

CB_KINDS = {'T': 0, 'F': 1, 'N': 2, 'E': 3}     # returns True / returns False / returns None / raises
TRIGGER_KEY = 99


# ------------------------------------------------------------------ implementation driver
def _policy(spec):
    from harness import dsched
    k = spec['kind']
    if k == 'seed':
        return dsched.Seeded(spec['seed'], spec.get('stick', 0.0))
    if k == 'explicit':
        return dsched.Explicit(spec['decisions'])
    if k == 'preempt':
        return dsched.Preempt(spec['points'])
    if k == 'np':
        return dsched.NonPreemptive()
    raise ValueError(k)


class _Log:
    def __getattr__(self, name):
        return lambda *a, **k: None


def _ticks(t):
    v = (t - T0) * TICK
    r = round(v)
    if abs(v - r) > 1e-9:
        raise ValueError(f'time {t} is not on the tick grid')
    return int(r)


def cmd_text(xid):
    return f'c{xid}'


def run_case(case):
    import socket as real_socket
    import frappy.io as fio
    import frappy.lib.asynconn as fa
    import frappy.modulebase as mb
    from frappy.errors import CommunicationFailedError
    from frappy.lib import generalConfig
    from harness import dsched
    generalConfig.testinit()

    steptimes = []
    inner = _policy(case['sched'])

    def policy(n, enabled, cur):
        steptimes.append(s.now)
        return inner(n, enabled, cur)

    s = dsched.Scheduler(policy, max_steps=case.get('max_steps', 4000), start_time=T0)
    line = case['mode'] == 'line'
    eol = case.get('eol', '\n').encode('latin-1')
    exch = {}
    for prog in case['threads']:
        for op in prog:
            if op[0] in ('comm', 'write'):
                exch[op[1]['id']] = op[1]
            elif op[0] == 'multi':
                for x in op[1]:
                    exch[x['id']] = x
    refuse = list(case.get('refuse', []))
    log = {'connects': [], 'sends': [], 'chunks': [], 'recvs': [], 'cbs': [], 'ann': [], 'polls': [], 'closed': []}
    conns = []

    def who():
        cur = s.current_thread()
        return cur.name if cur is not None else '?'

    class FakeSocket:
        def __init__(self, cid):
            self.cid = cid
            self.queue = []         # [arrival, data | None (= EOF)] sorted by arrival, stable
            self.local_closed = False
            self.peeked = False

        def _insert(self, arrival, data, origin):
            i = len(self.queue)
            while i > 0 and self.queue[i - 1][0] > arrival:
                i -= 1
            self.queue.insert(i, [arrival, data])
            log['chunks'].append([self.cid, _ticks(arrival), None if data is None else list(data), origin])

        def ready(self):
            return bool(self.queue) and self.queue[0][0] <= s.now

        def sendall(self, data):
            s.switch('send')
            if self.local_closed:
                raise OSError('send on closed socket')
            txt = data.decode('latin-1')
            body = txt[:-len(eol)] if line and txt.endswith(eol.decode('latin-1')) else txt
            xid = int(body[1:]) if body[:1] == 'c' and body[1:].isdigit() else -1
            log['sends'].append([self.cid, _ticks(s.now), who(), xid, list(data)])
            x = exch.get(xid)
            s.annotate(x=xid)
            if x is not None:
                for d, bs in x['emit']:
                    self._insert(s.now + d / TICK, bytes(bs), xid)
                if x.get('close') is not None:
                    self._insert(s.now + x['close'] / TICK, None, xid)

        def recv(self, n):
            if self.local_closed:
                raise OSError('recv on closed socket')
            if self.peeked and self.ready():
                self.peeked = False     # called from flush_recv right after select said readable: not a scheduling point
            else:
                wait = 1.0
                if self.queue and self.queue[0][0] > s.now:
                    wait = min(wait, self.queue[0][0] - s.now)
                s.block('recv', self.ready, wait)
                if not self.ready():
                    # woken early (at the arrival of a chunk that is not the head any more) cannot happen: only the
                    # lock holder sends
                    log['recvs'].append([self.cid, _ticks(s.now), who(), 'timeout'])
                    raise real_socket.timeout('timed out')
            arrival, data = self.queue[0]
            if data is None:
                log['recvs'].append([self.cid, _ticks(s.now), who(), 'eof'])
                return b''
            self.queue.pop(0)
            log['recvs'].append([self.cid, _ticks(s.now), who(), list(data)])
            return data

        def shutdown(self, how):
            pass

        def close(self):
            self.local_closed = True
            log['closed'].append([self.cid, _ticks(s.now), who()])

        def fileno(self):
            return -1

    class FakeSocketModule:
        timeout = real_socket.timeout
        gaierror = real_socket.gaierror
        error = real_socket.error
        SHUT_RDWR = real_socket.SHUT_RDWR

        @staticmethod
        def create_connection(addr, timeout=None):
            s.switch('connect')
            refused = refuse.pop(0) if refuse else False
            log['connects'].append([_ticks(s.now), who(), not refused])
            s.annotate(ok=not refused)
            if refused:
                raise ConnectionRefusedError('refused')
            sock = FakeSocket(len(conns))
            conns.append(sock)
            return sock

    class FakeSelectModule:
        @staticmethod
        def select(r, w, x, timeout=None):
            ready = [k for k in r if k.ready()]
            for k in ready:
                k.peeked = True
            return ready, [], []

    class QuietEvent(dsched.Event):
        def set(self):
            self.flag = True

    class _Dispatcher:
        def announce_update(self, moduleobj, pobj):
            if pobj.name == 'is_connected':
                log['ann'].append([_ticks(s.now), bool(pobj.value), pobj.readerror is not None, who()])

    class _Srv:
        def __init__(self):
            self.dispatcher = _Dispatcher()
            self.secnode = None

    saved = [(fio, 'time', fio.time), (fa, 'time', fa.time), (fa, 'socket', fa.socket), (fa, 'select', fa.select),
             (mb, 'time', mb.time)]
    io = None
    try:
        fio.time = s.time_module
        fa.time = s.time_module
        mb.time = s.time_module
        fa.socket = FakeSocketModule
        fa.select = FakeSelectModule
        cfg = {'description': 'communicator under test', 'uri': 'tcp://dev:1234'}
        if line:
            cfg['end_of_line'] = case.get('eol', '\n')
            io = fio.StringIO('io', _Log(), cfg, _Srv())
        else:
            io = fio.BytesIO('io', _Log(), cfg, _Srv())
        io.earlyInit()
        io.initModule()
        io.timeout = case['timeout'] / TICK
        io.pollinterval = case['interval'] / TICK
        io.writeDict.clear()
        if io.errors:
            raise RuntimeError(f'module errors {io.errors}')
        io._lock = s.RLock()
        io._lock.name = 'lock'
        io.accessLock = s.RLock()
        io.accessLock.name = 'access'
        io.triggerPoll = QuietEvent(s)
        io.triggerPoll.name = 'trigger'
        log['ann'].clear()

        def mk_cb(key, kind):
            def cb():
                log['cbs'].append([_ticks(s.now), key, who()])
                if kind == 'E':
                    raise RuntimeError('callback failed')
                return {'T': True, 'F': False, 'N': None}[kind]
            return cb
        for key, kind in case.get('cbs', []):
            io.registerReconnectCallback(f'k{key}', mk_cb(key, kind))
        orig_register = io.registerReconnectCallback

        def register(name, func):
            # the poll thread registers its trigger_all closure: wrap it to log the call, keep the real function
            def logged():
                log['cbs'].append([_ticks(s.now), TRIGGER_KEY, who()])
                return func()
            orig_register(name, logged)
        io.registerReconnectCallback = register
        orig_doPoll = io.doPoll

        def doPoll():
            log['polls'].append([_ticks(s.now), bool(io.is_connected)])
            return orig_doPoll()
        io.doPoll = doPoll

        nthreads = len(case['threads'])
        results = [[] for _ in range(nthreads)]

        def enc_reply(r):
            if r is None:
                return None
            return list(r.encode('latin-1')) if isinstance(r, str) else list(r)

        def call(i, op):
            kind = op[0]
            rec = {'op': kind, 't0': _ticks(s.now)}
            try:
                if kind == 'pause':
                    s.time_module.sleep(op[1] / TICK)
                    rec['res'] = 'ok'
                elif kind == 'comm':
                    x = op[1]
                    if line:
                        r = io.communicate(cmd_text(x['id']))
                    else:
                        r = io.communicate(cmd_text(x['id']).encode(), x['n'])
                    rec['res'] = 'ok'
                    rec['replies'] = [enc_reply(r)]
                elif kind == 'write':
                    io.writeline(cmd_text(op[1]['id']))
                    rec['res'] = 'ok'
                    rec['replies'] = []
                elif kind == 'multi':
                    if line:
                        reqs = [(cmd_text(x['id']), not x.get('noreply', False), x['delay'] / TICK) for x in op[1]]
                    else:
                        reqs = [(cmd_text(x['id']).encode(), x['n'], x['delay'] / TICK) for x in op[1]]
                    r = io.multicomm(reqs)
                    rec['res'] = 'ok'
                    rec['replies'] = [enc_reply(k) for k in r]
                else:
                    raise ValueError(kind)
            except CommunicationFailedError as e:
                rec['res'] = 'commfail'
                rec['exc'] = type(e).__name__
            except Exception as e:
                rec['res'] = 'other'
                rec['exc'] = type(e).__name__
            rec['t1'] = _ticks(s.now)
            rec['conn_after'] = bool(io.is_connected)
            results[i].append(rec)

        def caller(i):
            for op in case['threads'][i]:
                call(i, op)

        poll_state = {'started': None}

        def poller():
            io._Module__pollThread(io.polledModules, lambda: poll_state.__setitem__('started', _ticks(s.now)))

        def main():
            if case.get('poller'):
                s.spawn(poller, 'poll')
            cs = [s.spawn(caller, f'c{i}', i) for i in range(nthreads)]
            for t in cs:
                t.join()
            tail = case.get('tail', 0)
            if tail:
                s.time_module.sleep(tail / TICK)

        res = s.run(main)
        trace = []
        for n, (t, lab, info) in enumerate(res.trace):
            if t != 'main':
                trace.append([t, lab, _ticks(steptimes[n]), info])
        return {
            'status': res.status, 'main_error': res.error, 'trace': trace, 'decisions': res.decisions,
            'results': results, 'log': log, 'thread_errors': res.thread_errors, 'now': _ticks(res.now),
            'connected': bool(io.is_connected), 'has_conn': io._conn is not None, 'nconn': len(conns),
            'cbkeys': sorted(int(k[1:]) if k[0] == 'k' else TRIGGER_KEY for k in io._reconnectCallbacks),
            'last_error': io._last_error is not None, 'last_attempt': _ticks(io._last_connect_attempt) if io._last_connect_attempt else None,
            'blocked_at_end': res.blocked_at_end, 'poll_started': poll_state['started'],
        }
    finally:
        for mod, name, val in saved:
            setattr(mod, name, val)
        if io is not None:
            try:
                io._conn = None
                io.polledModules.clear()
            except Exception:
                pass
