"""C16 — communicator (frappy/io.py StringIO / BytesIO over frappy/lib/asynconn.py AsynTcp): implementation driver (real
modules, real caller threads and the real poll thread under harness/dsched.py, scripted fake socket in virtual time),
case encoder, direct oracle, generators.  A second kind of case ('rx': True, harness/c16rx.py) drives the receive layer
alone: one real AsynTcp object on a scripted socket with arrival times, scripts of readline / readbytes / flush_recv
calls, exhaustive chunkings of short streams"""
import math
import random

from harness import gal
from harness import c16rx

ID = 'C16'
MODEL_TARGETS = ['theories/C16/Run.vo']
PROOF_TARGETS = ['theories/C16/Properties.vo']
PROPERTIES_V = 'theories/C16/Properties.v'
IMPORTS = 'Require Import FV.Gen.C16 FV.C16.Model FV.C16.RxModel FV.C16.Run.\nOpen Scope Z_scope.'
CASE_TYPE = 'tcase'
CHECK = 'check_tcase'
SHARD_SIZE = 100
TICK = 8               # ticks per second: every delay / time-out / interval is a multiple of 1/8 s
T0 = 1000.0            # virtual start time
SLICE = 8              # AsynConn.timeout = 1 s: one receive slice
RULE = ('one real StringIO (end_of_line "\\n", "\\r\\n" or ";") or BytesIO module on a real AsynTcp connection whose socket '
        'is a scripted fake (frappy.lib.asynconn.socket/select replaced): 2..4 caller threads with programs of '
        'communicate / writeline / multicomm / pause, optionally the real Module.__pollThread of the communicator, a '
        'wait_before = 0 or > 0 (then also multi-line commands, written line by line with a sleep in front of each, and '
        'late replies that arrive inside the pause in front of the first line), a '
        'device directive per command (reply delay, chunking incl. cuts inside the end-of-line, garbage before/after, '
        'late reply, silence, partial reply, disconnect before/inside/after the reply), k refused connection attempts, '
        'registered reconnect callbacks (return True / False / None / raise), and a thread schedule at '
        'synchronisation-point granularity (seeded / sticky / bounded preemption / explicit) in virtual time; every '
        'case is a real multi-thread run replayable from its decision list; non-trivial = at least two commands were '
        'sent or a connection attempt was refused or the connection was lost; distinct = distinct (programs, executed '
        'step sequence).  Receive layer cases: one real AsynTcp object (frappy.lib.asynconn.socket/select/time replaced, '
        'single thread) on a socket queue with arrival times, a script of readline / readbytes / flush_recv / wait calls; '
        'all 2^(n-1) chunkings of 13 short streams (1- and 2-byte end-of-line incl. "\\r\\n", ";;", "ab"; fixed-length '
        'frames) under three timings (dense, an empty slice between any two chunks, a flush in the middle) plus random '
        'queues with end of stream; result, clock, _rxbuffer and chunks left in the socket are compared after every call')
ASSUMPTIONS = [
    'granularity: threads are interleaved at synchronisation points (acquire of the communicator lock and of accessLock, '
    'time.sleep, socket connect / sendall / blocking recv, Event.wait of the poll thread); preemption between two bytecodes '
    'of a region without such a point is not explored',
    'virtual time in ticks of 1/8 s; the clock advances only when every thread is blocked (dsched); data scheduled by the '
    'device for time t is readable at every time >= t; one recv returns one scheduled chunk',
    'the device closes a connection by EOF (recv returns b""); a send on a connection closed by the peer is silently lost',
    'wait_before in {0, 1/8, 1/4, 1/2 s} (one value per communicator); a multi-line command (lines joined by the end of '
    'line) is generated only with wait_before > 0 (only then the code splits it); identification = [] (checkHWIdent is '
    'empty), timeout > 0, no write_is_connected calls',
    'the poll thread is the real Module.__pollThread serving the communicator only; the model treats its own timing as '
    'arbitrary (it may call read_is_connected at any time) and follows only what read_is_connected does',
    'triggerPoll.set() (called by the trigger_polls reconnect callback) is not a scheduling point',
    'receive layer cases: the socket is first-in-first-out with non-decreasing arrival times, recv returns one scheduled '
    'chunk (at its arrival if that is within the slice), b"" only at the end of the stream; serial connections '
    '(AsynSerial) are not exercised',
]

MAX_SOCKET_CALLS = 2000      # per run (the generated runs need < 100); the logs of a run that is cut off are truncated
CB_KINDS = {'T': 0, 'F': 1, 'N': 2, 'E': 3}     # returns True / returns False / returns None / raises
TRIGGER_KEY = 99


# ------------------------------------------------------------------ implementation driver
def _policy(spec):
    from harness import dsched
    k = spec['kind']
    if k == 'seed':
        return dsched.Seeded(spec['seed'], spec.get('stick', 0.0))
    if k == 'explicit':
        return dsched.Explicit(spec['decisions'])
    if k == 'preempt':
        return dsched.Preempt(spec['points'])
    if k == 'np':
        return dsched.NonPreemptive()
    raise ValueError(k)


class _Log:
    def __getattr__(self, name):
        return lambda *a, **k: None


def _ticks(t):
    """absolute virtual time in ticks"""
    v = t * TICK
    r = round(v)
    if abs(v - r) > 1e-9:
        raise ValueError(f'time {t} is not on the tick grid')
    return int(r)


def cmd_text(xid):
    return f'c{xid}'


def full_text(x, eol):
    """command text of an exchange: the lines in front of the last one (only generated with wait_before > 0) and the
    last line, joined by the end of line"""
    return eol.join([cmd_text(p['id']) for p in x.get('pre', [])] + [cmd_text(x['id'])])


def run_case(case):
    if case.get('rx'):
        return c16rx.run_rx(case)
    import socket as real_socket
    import frappy.io as fio
    import frappy.lib.asynconn as fa
    import frappy.modulebase as mb
    from frappy.errors import CommunicationFailedError
    from frappy.lib import generalConfig
    from harness import dsched
    generalConfig.testinit()

    steptimes = []
    inner = _policy(case['sched'])

    def policy(n, enabled, cur):
        steptimes.append(s.now)
        return inner(n, enabled, cur)

    s = dsched.Scheduler(policy, max_steps=case.get('max_steps', 4000), start_time=T0)
    line = case['mode'] == 'line'
    eol = case.get('eol', '\n').encode('latin-1')
    exch = {}
    for prog in case['threads']:
        for op in prog:
            for x in ([op[1]] if op[0] in ('comm', 'write') else op[1] if op[0] == 'multi' else []):
                exch[x['id']] = x
                for pl in x.get('pre', []):
                    exch[pl['id']] = pl
    refuse = list(case.get('refuse', []))
    log = {'connects': [], 'sends': [], 'chunks': [], 'recvs': [], 'cbs': [], 'ann': [], 'polls': [], 'closed': [], 'ev': []}
    conns = []

    def who():
        cur = s.current_thread()
        return cur.name if cur is not None else '?'

    budget = {'socket_calls': 0}

    def count_socket_call():
        # a receive loop of the code under test that never ends (no scheduling point inside) is cut off here
        budget['socket_calls'] += 1
        if budget['socket_calls'] > MAX_SOCKET_CALLS:
            raise c16rx.Runaway(f'more than {MAX_SOCKET_CALLS} socket calls in one run: a receive loop of the code under test '
                                'does not end')

    class FakeSocket:
        def __init__(self, cid):
            self.cid = cid
            self.queue = []         # [arrival, data | None (= EOF)] sorted by arrival, stable
            self.local_closed = False
            self.peeked = False

        def _insert(self, arrival, data, origin):
            i = len(self.queue)
            while i > 0 and self.queue[i - 1][0] > arrival:
                i -= 1
            self.queue.insert(i, [arrival, data])
            log['chunks'].append([self.cid, _ticks(arrival), None if data is None else list(data), origin])

        def ready(self):
            return bool(self.queue) and self.queue[0][0] <= s.now

        def sendall(self, data):
            s.switch('send')
            if self.local_closed:
                raise OSError('send on closed socket')
            txt = data.decode('latin-1')
            body = txt[:-len(eol)] if line and txt.endswith(eol.decode('latin-1')) else txt
            xid = int(body[1:]) if body[:1] == 'c' and body[1:].isdigit() else -1
            log['sends'].append([self.cid, _ticks(s.now), who(), xid, list(data), len(log['chunks'])])
            log['ev'].append(['send', who(), xid, _ticks(s.now), self.cid])
            x = exch.get(xid)
            s.annotate(x=xid)
            if x is not None:
                for d, bs in x['emit']:
                    self._insert(s.now + d / TICK, bytes(bs), xid)
                if x.get('close') is not None:
                    self._insert(s.now + x['close'] / TICK, None, xid)

        def recv(self, n):
            count_socket_call()
            if self.local_closed:
                raise OSError('recv on closed socket')
            kind = 'recv'
            if self.peeked and self.ready():
                self.peeked = False     # called from flush_recv right after select said readable: not a scheduling point
                kind = 'flush'
            else:
                wait = 1.0
                if self.queue and self.queue[0][0] > s.now:
                    wait = min(wait, self.queue[0][0] - s.now)
                s.block('recv', self.ready, wait)
                if not self.ready():
                    # woken early (at the arrival of a chunk that is not the head any more) cannot happen: only the
                    # lock holder sends
                    log['recvs'].append([self.cid, _ticks(s.now), who(), 'timeout'])
                    log['ev'].append(['recv', who(), 'timeout', _ticks(s.now), self.cid])
                    raise real_socket.timeout('timed out')
            arrival, data = self.queue[0]
            if data is None:
                log['recvs'].append([self.cid, _ticks(s.now), who(), 'eof'])
                log['ev'].append([kind, who(), 'eof', _ticks(s.now), self.cid])
                return b''
            self.queue.pop(0)
            log['recvs'].append([self.cid, _ticks(s.now), who(), list(data)])
            log['ev'].append([kind, who(), 'data', _ticks(s.now), self.cid])
            return data

        def shutdown(self, how):
            pass

        def close(self):
            self.local_closed = True
            log['closed'].append([self.cid, _ticks(s.now), who()])

        def fileno(self):
            return -1

    class FakeSocketModule:
        timeout = real_socket.timeout
        gaierror = real_socket.gaierror
        error = real_socket.error
        SHUT_RDWR = real_socket.SHUT_RDWR

        @staticmethod
        def create_connection(addr, timeout=None):
            s.switch('connect')
            refused = refuse.pop(0) if refuse else False
            log['connects'].append([_ticks(s.now), who(), not refused])
            log['ev'].append(['connect', who(), not refused, _ticks(s.now)])
            s.annotate(ok=not refused)
            if refused:
                raise ConnectionRefusedError('refused')
            sock = FakeSocket(len(conns))
            conns.append(sock)
            return sock

    class FakeSelectModule:
        @staticmethod
        def select(r, w, x, timeout=None):
            count_socket_call()
            ready = [k for k in r if k.ready()]
            for k in ready:
                k.peeked = True
            return ready, [], []

    class QuietEvent(dsched.Event):
        """trigger event of the poll thread: set() is no scheduling point; wait() ends on the tick grid"""
        def set(self):
            self.flag = True

        def wait(self, timeout=None):
            if timeout is not None:
                timeout = max(0.0, math.ceil(timeout * TICK - 1e-6) / TICK)
            return dsched.Event.wait(self, timeout)

    class PollClock:
        """the clock seen by frappy.modulebase (poll thread): a hair later than the scheduler's clock, so that a wait
        that ends exactly at its deadline is followed by `now > due time` (in real time the clock always moves on; with
        an exact virtual clock the loop `while modules:` would spin at `now == last_main + interval`)"""
        @staticmethod
        def time():
            return s.now + 2.0 ** -20

        def __getattr__(self, name):
            return getattr(s.time_module, name)

    class _Dispatcher:
        def announce_update(self, moduleobj, pobj):
            if pobj.name == 'is_connected':
                log['ann'].append([_ticks(s.now), bool(pobj.value), pobj.readerror is not None, who()])

    class _Srv:
        def __init__(self):
            self.dispatcher = _Dispatcher()
            self.secnode = None

    saved = [(fio, 'time', fio.time), (fa, 'time', fa.time), (fa, 'socket', fa.socket), (fa, 'select', fa.select),
             (mb, 'time', mb.time)]
    io = None
    try:
        fio.time = s.time_module
        fa.time = s.time_module
        mb.time = PollClock()
        fa.socket = FakeSocketModule
        fa.select = FakeSelectModule
        cfg = {'description': 'communicator under test', 'uri': 'tcp://dev:1234'}
        if line:
            cfg['end_of_line'] = case.get('eol', '\n')
            io = fio.StringIO('io', _Log(), cfg, _Srv())
        else:
            io = fio.BytesIO('io', _Log(), cfg, _Srv())
        io.earlyInit()
        io.initModule()
        io.timeout = case['timeout'] / TICK
        io.pollinterval = case['interval'] / TICK
        io.wait_before = case.get('wait', 0) / TICK
        io.writeDict.clear()
        if io.errors:
            raise RuntimeError(f'module errors {io.errors}')
        io._lock = s.RLock()
        io._lock.name = 'lock'
        io.accessLock = s.RLock()
        io.accessLock.name = 'access'
        io.triggerPoll = QuietEvent(s)
        io.triggerPoll.name = 'trigger'
        log['ann'].clear()

        def mk_cb(key, kind):
            def cb():
                log['cbs'].append([_ticks(s.now), key, who()])
                log['ev'].append(['cb', who(), key, _ticks(s.now)])
                if kind == 'E':
                    raise RuntimeError('callback failed')
                return {'T': True, 'F': False, 'N': None}[kind]
            return cb
        for key, kind in case.get('cbs', []):
            io.registerReconnectCallback(f'k{key}', mk_cb(key, kind))
        orig_register = io.registerReconnectCallback

        def register(name, func):
            # the poll thread registers its trigger_all closure: wrap it to log the call, keep the real function
            def logged():
                log['cbs'].append([_ticks(s.now), TRIGGER_KEY, who()])
                log['ev'].append(['cb', who(), TRIGGER_KEY, _ticks(s.now)])
                return func()
            orig_register(name, logged)
        io.registerReconnectCallback = register
        orig_doPoll = io.doPoll

        def doPoll():
            log['polls'].append([_ticks(s.now), bool(io.is_connected)])
            return orig_doPoll()
        io.doPoll = doPoll

        nthreads = len(case['threads'])
        results = [[] for _ in range(nthreads)]

        def enc_reply(r):
            if r is None:
                return None
            return list(r.encode('latin-1')) if isinstance(r, str) else list(r)

        def call(i, j, op):
            kind = op[0]
            rec = {'op': kind, 't0': _ticks(s.now)}
            log['ev'].append(['call', f'c{i}', j, _ticks(s.now)])
            try:
                if kind == 'pause':
                    s.time_module.sleep(op[1] / TICK)
                    rec['res'] = 'ok'
                elif kind == 'comm':
                    x = op[1]
                    if line:
                        r = io.communicate(full_text(x, case.get('eol', '\n')))
                    else:
                        r = io.communicate(cmd_text(x['id']).encode(), x['n'])
                    rec['res'] = 'ok'
                    rec['replies'] = [enc_reply(r)]
                elif kind == 'write':
                    io.writeline(full_text(op[1], case.get('eol', '\n')))
                    rec['res'] = 'ok'
                    rec['replies'] = []
                elif kind == 'multi':
                    if line:
                        reqs = [(full_text(x, case.get('eol', '\n')), not x.get('noreply', False), x['delay'] / TICK)
                                for x in op[1]]
                    else:
                        reqs = [(cmd_text(x['id']).encode(), x['n'], x['delay'] / TICK) for x in op[1]]
                    r = io.multicomm(reqs)
                    rec['res'] = 'ok'
                    rec['replies'] = [enc_reply(k) for k in r]
                else:
                    raise ValueError(kind)
            except CommunicationFailedError as e:
                rec['res'] = 'commfail'
                rec['exc'] = type(e).__name__
            except Exception as e:
                rec['res'] = 'other'
                rec['exc'] = type(e).__name__
            rec['t1'] = _ticks(s.now)
            log['ev'].append(['ret', f'c{i}', j, _ticks(s.now)])
            rec['conn_after'] = bool(io.is_connected)
            results[i].append(rec)

        def caller(i):
            for j, op in enumerate(case['threads'][i]):
                call(i, j, op)

        poll_state = {'started': None}

        def poller():
            io._Module__pollThread(io.polledModules, lambda: poll_state.__setitem__('started', _ticks(s.now)))

        def main():
            if case.get('poller'):
                s.spawn(poller, 'poll')
            cs = [s.spawn(caller, f'c{i}', i) for i in range(nthreads)]
            for t in cs:
                t.join()
            tail = case.get('tail', 0)
            if tail:
                s.time_module.sleep(tail / TICK)

        res = s.run(main)
        cut_off = budget['socket_calls'] > MAX_SOCKET_CALLS or res.status != 'ok'
        if cut_off:
            # a run that did not end by itself is reported by the oracle as such; keep only the beginning of its logs
            for key in ('recvs', 'ev', 'sends', 'chunks', 'ann', 'cbs', 'polls'):
                del log[key][300:]
        trace = []
        for n, (t, lab, info) in enumerate(res.trace[:300] if cut_off else res.trace):
            if t != 'main':
                trace.append([t, lab, _ticks(steptimes[n]), info])
        return {
            'status': res.status, 'main_error': res.error, 'trace': trace,
            'decisions': res.decisions[:300] if cut_off else res.decisions,
            'results': results, 'log': log, 'cut_off': cut_off, 'thread_errors': res.thread_errors, 'now': _ticks(res.now),
            'connected': bool(io.is_connected), 'has_conn': io._conn is not None, 'nconn': len(conns),
            'cbkeys': [int(k[1:]) if k[0] == 'k' else TRIGGER_KEY for k in io._reconnectCallbacks],
            'last_error': io._last_error is not None, 'last_attempt': _ticks(io._last_connect_attempt),
            'blocked_at_end': res.blocked_at_end, 'poll_started': poll_state['started'],
        }
    finally:
        for mod, name, val in saved:
            setattr(mod, name, val)
        if io is not None:
            try:
                io._conn = None
                io.polledModules.clear()
            except Exception:
                pass


# ------------------------------------------------------------------ encoding into Gallina
LABELS = {'start': 'LStart', 'acquire:access': 'LAccess', 'connect': 'LConnect', 'acquire:lock': 'LLock', 'send': 'LSend',
          'recv': 'LRecv', 'sleep': 'LSleep', 'wait:trigger': 'LWait'}
CBK = {'T': 'CbTrue', 'F': 'CbFalse', 'N': 'CbNone', 'E': 'CbRaise'}


def enc_tid(name):
    return 'TP' if name == 'poll' else f'(TC {gal.nat(int(name[1:]))})'


def enc_bytes(bs):
    return gal.lst(list(bs), gal.N)


def enc_emit(em):
    return gal.lst(em, lambda e: f'({gal.z(e[0])}, {enc_bytes(e[1])})')


def enc_exch(x, noreply=False, wait=0):
    pre = gal.lst(x.get('pre', []), lambda p: f"({gal.nat(p['id'])}, {enc_emit(p['emit'])}, {gal.option(p.get('close'), gal.z)})")
    return ('{| x_id := %s; x_emit := %s; x_close := %s; x_n := %s; x_delay := %s; x_noreply := %s; x_wait := %s; '
            'x_pre := %s |}' % (
                gal.nat(x['id']), enc_emit(x['emit']), gal.option(x.get('close'), gal.z), gal.nat(x.get('n', 0)),
                gal.z(x.get('delay', 0)), gal.boolean(noreply or bool(x.get('noreply', False))), gal.z(wait), pre))


def enc_op(op, wait=0):
    if op[0] == 'pause':
        return f'(OPause {gal.z(op[1])})'
    if op[0] == 'comm':
        return f'(OSingle {enc_exch(dict(op[1], noreply=False), wait=wait)})'
    if op[0] == 'write':
        return f'(OSingle {enc_exch(op[1], noreply=True, wait=wait)})'
    if op[0] == 'multi':
        return f'(OMulti {gal.lst(op[1], lambda x: enc_exch(x, wait=wait))})'
    raise ValueError(op[0])


def enc_outcome(rec):
    if rec['res'] == 'ok':
        return f"(ROk {gal.lst(rec['replies'], enc_bytes)})"
    if rec['res'] == 'commfail':
        return 'RFail'
    raise ValueError(f"outcome outside the model: {rec.get('exc')}")


def enc_mode(case):
    if case['mode'] == 'line':
        return f"(MLine {enc_bytes(case.get('eol', chr(10)).encode('latin-1'))})"
    return 'MBytes'


def encode(case, obs):
    if case.get('rx'):
        return c16rx.encode_rx(case, obs)
    return f'(TSys {encode_sys(case, obs)})'


def encode_sys(case, obs):
    if obs['status'] != 'ok' or obs['main_error'] or obs['thread_errors']:
        raise ValueError(f"run did not complete: {obs['status']} {obs['main_error']} {obs['thread_errors']}")
    trace = obs['trace']
    nxt_after = {}
    last = obs['blocked_at_end'].get('poll') == 'acquire:access'
    for k in range(len(trace) - 1, -1, -1):
        if trace[k][0] == 'poll':
            nxt_after[k] = last
            last = trace[k][1] == 'acquire:access'
    steps = []
    for k, (t, lab, now, info) in enumerate(trace):
        if lab not in LABELS:
            raise ValueError(f'label outside the model: {lab}')
        steps.append(f'({enc_tid(t)}, {LABELS[lab]}, {gal.z(now)}, {gal.boolean(nxt_after.get(k, False))})')
    log = obs['log']
    outs = gal.lst(obs['results'], lambda rs: gal.lst([r for r in rs if r['op'] != 'pause'], enc_outcome))
    sends = gal.lst(log['sends'], lambda e: f'({gal.nat(int(e[2][1:]))}, {gal.nat(e[3])}, {gal.nat(e[0] + 1)})')
    return ('{| c_mode := %s; c_timeout := %s; c_interval := %s; c_progs := %s; c_refuse := %s; c_cbs := %s; '
            'c_poller := %s; c_trace := [%s]; c_outs := %s; c_sends := %s; c_cblog := %s; c_ann := %s; '
            'c_connected := %s; c_conn := %s; c_nconn := %s; c_cbkeys := %s; c_lasterr := %s; c_lastatt := %s |}' % (
                enc_mode(case), gal.z(case['timeout']), gal.z(case['interval']),
                gal.lst(case['threads'], lambda p: gal.lst(p, lambda o: enc_op(o, case.get('wait', 0)))), gal.lst(case.get('refuse', []), gal.boolean),
                gal.lst(case.get('cbs', []), lambda c: f'({gal.nat(c[0])}, {CBK[c[1]]})'),
                gal.boolean(bool(case.get('poller'))), '; '.join(steps), outs, sends,
                gal.lst([e[1] for e in log['cbs']], gal.nat), gal.lst([e[1] for e in log['ann'] if not e[2]], gal.boolean),
                gal.boolean(obs['connected']), gal.boolean(obs['has_conn']), gal.nat(obs['nconn']),
                gal.lst(obs['cbkeys'], gal.nat), gal.boolean(obs['last_error']), gal.z(obs['last_attempt'])))


def model_result_term(case, obs):
    if case.get('rx'):
        return f'rx_model ({c16rx.rx_term(case, obs)})'
    return f'model_result ({encode_sys(case, obs)})'


# ------------------------------------------------------------------ generators
def _cuts(rng, data, maxparts=3):
    """split data into 1..maxparts non-empty chunks"""
    n = len(data)
    k = min(n, rng.choice([1, 1, 2, 2, 3][:2 + maxparts]))
    if k <= 1 or n < 2:
        return [data]
    pos = sorted(rng.sample(range(1, n), k - 1))
    return [data[a:b] for a, b in zip([0] + pos, pos + [n])]


def reply_bytes(case_mode, eol, xid):
    if case_mode == 'line':
        return f'r{xid}'.encode() + eol.encode('latin-1')
    return f'R{xid:03d}'.encode()


def rand_exch(rng, mode, eol, timeout, xid, in_multi, wait=0):
    own = reply_bytes(mode, eol, xid)
    x = {'id': xid, 'emit': [], 'close': None, 'n': 4, 'delay': 0, 'noreply': False, 'kind': 'normal'}
    r = rng.random()

    def chunks(data, d0):
        out = []
        d = d0
        for part in _cuts(rng, data):
            out.append([d, list(part)])
            d += rng.choice([0, 0, 1, 2])
        return out
    d0 = rng.choice([0, 0, 1, 1, 2, 4])
    junk = (f'g{xid}'.encode() + eol.encode('latin-1')) if mode == 'line' else b'GG'
    if r < 0.5:
        x['emit'] = chunks(own, d0)
    elif r < 0.58:
        x['kind'] = 'extra-after'
        x['emit'] = chunks(own + (b'zz' if mode == 'line' else b'ZZZ'), d0)
    elif r < 0.65:
        x['kind'] = 'garbage-before'
        x['emit'] = chunks(junk + own, d0)
    elif r < 0.73:
        x['kind'] = 'unsolicited-later'
        x['emit'] = chunks(own, d0) + [[rng.choice([6, 10, 18, 30]), list(junk)]]
    elif r < 0.81:
        x['kind'] = 'late'
        # with wait_before: the late reply often arrives inside the pause in front of the next command
        x['emit'] = chunks(own, timeout + (rng.choice([1, 1, wait, wait, 4, 9]) if wait else rng.choice([1, 4, 9])))
    elif r < 0.86:
        x['kind'] = 'silent'
    elif r < 0.9:
        x['kind'] = 'partial'
        x['emit'] = [[d0, list(own[:max(1, len(own) // 2)])]]
    else:
        x['kind'] = 'close'
        how = rng.random()
        if how < 0.35:
            x['close'] = rng.choice([0, 1, 3])
        elif how < 0.6:
            x['emit'] = [[d0, list(own[:max(1, len(own) // 2)])]]
            x['close'] = d0 + rng.choice([0, 1])
        elif how < 0.85:
            x['emit'] = chunks(own, d0)
            x['close'] = x['emit'][-1][0] + rng.choice([0, 1, 5])
        else:
            x['close'] = timeout + 2
    if in_multi:
        x['delay'] = rng.choice([0, 0, 2, 4, 8])
        if mode == 'line' and rng.random() < 0.25:
            x['noreply'] = True
    return x


def rand_sched(rng):
    r = rng.random()
    if r < 0.35:
        return {'kind': 'seed', 'seed': rng.randrange(1 << 30), 'stick': 0.0}
    if r < 0.75:
        return {'kind': 'seed', 'seed': rng.randrange(1 << 30), 'stick': rng.choice([0.5, 0.8, 0.9])}
    k = rng.choice([1, 2, 2, 3])
    return {'kind': 'preempt', 'points': {str(rng.randrange(2, 60)): rng.randrange(6) for _ in range(k)}}


def rand_case(rng):
    mode = 'line' if rng.random() < 0.62 else 'bytes'
    eol = rng.choice(['\n', '\n', '\r\n', '\r\n', ';'])
    timeout = rng.choice([8, 16, 16, 24])
    interval = rng.choice([8, 16, 32, 80])
    n = rng.choice([2, 2, 3, 3, 4])
    ids = iter(range(1, 1000))
    wait = rng.choice([0, 0, 0, 1, 2, 2, 4])
    _rand_exch = globals()['rand_exch']

    def rand_exch(rng, mode, eol, timeout, xid, in_multi):     # local version: adds wait_before and multi-line commands
        x = _rand_exch(rng, mode, eol, timeout, xid, in_multi, wait)
        if wait and mode == 'line' and rng.random() < 0.3:
            # a multi-line command: split by the code and written line by line, a sleep of wait_before in front of each
            x['pre'] = []
            for _ in range(rng.choice([1, 1, 2])):
                pid = next(ids)
                em = [[rng.choice([0, 1, wait]), list(f'e{pid}'.encode() + eol.encode('latin-1'))]] if rng.random() < 0.3 else []
                x['pre'].append({'id': pid, 'emit': em, 'close': None})
        return x
    threads = []
    for _ in range(n):
        prog = []
        for _ in range(rng.choice([1, 2, 2, 3, 4])):
            r = rng.random()
            if r < 0.5:
                prog.append(['comm', rand_exch(rng, mode, eol, timeout, next(ids), False)])
            elif r < 0.6 and mode == 'line':
                prog.append(['write', rand_exch(rng, mode, eol, timeout, next(ids), False)])
            elif r < 0.85:
                prog.append(['multi', [rand_exch(rng, mode, eol, timeout, next(ids), True)
                                       for _ in range(rng.choice([1, 2, 2, 3]))]])
            else:
                prog.append(['pause', rng.choice([1, 4, 8, 20, 40])])
        threads.append(prog)
    refuse = []
    r = rng.random()
    if r < 0.2:
        refuse = [False] + [True] * rng.choice([1, 1, 2, 3])
    elif r < 0.3:
        refuse = [True] * rng.choice([1, 2])
    elif r < 0.35:
        refuse = [False, False, True]
    cbs = [[k, rng.choice('TTFNE')] for k in range(rng.choice([0, 1, 2, 3]))]
    poller = rng.random() < 0.5
    if rng.random() < 0.7:
        # let one thread (or the poll thread) establish the connection first
        first = rng.randrange(n)
        for i, prog in enumerate(threads):
            if i != first or poller:
                prog.insert(0, ['pause', rng.choice([1, 1, 2])])
    case = {'mode': mode, 'timeout': timeout, 'interval': interval, 'refuse': refuse, 'cbs': cbs, 'poller': poller,
            'threads': threads, 'sched': rand_sched(rng), 'tail': rng.choice([0, 0, 40, 100]) if poller else 0}
    if wait:
        case['wait'] = wait
    if mode == 'line':
        case['eol'] = eol
    return case


def gen_cases(seed, tier):
    rng = random.Random(seed * 1000003 + 16)
    n = {'quick': 2200, 'thorough': 25000, 'search': 25000}[tier]
    sys_cases = [rand_case(rng) for _ in range(n)]
    return c16rx.gen_rx_cases(random.Random(seed * 1000003 + 1016), tier) + sys_cases


# ------------------------------------------------------------------ direct oracle: the property on the observation
# (written from the property text; uses only what the fake device saw: bytes written, chunks scheduled with their
# arrival times, order of socket operations, and what every call returned / raised and when)
def _first_frame(line, eol, n, buf):
    if line:
        k = buf.find(eol)
        return None if k < 0 else buf[:k]
    return bytes(buf[:n]) if len(buf) >= n else None


def _exchanges(op):
    """the lines a call writes, in order; a line in front of the last line of a multi-line command expects no reply of
    its own; 'first' of the last line = id of the first line of its command (the command is being written from there)"""
    if op[0] in ('comm', 'write'):
        xs = [dict(op[1], noreply=(op[0] == 'write'))]
    elif op[0] == 'multi':
        xs = op[1]
    else:
        return []
    out = []
    for x in xs:
        pre = x.get('pre', [])
        for pl in pre:
            out.append({'id': pl['id'], 'noreply': True, 'delay': 0, 'n': 0, 'preline': True})
        out.append(dict(x, first=pre[0]['id']) if pre else x)
    return out


def oracle(case, obs):
    if case.get('rx'):
        return c16rx.oracle_rx(case, obs)
    fails = []

    def fail(cls, what):
        fails.append({'class': cls, 'what': what})

    if any(str(e).startswith('Runaway') for e in obs['thread_errors'].values()):
        fail('receive-loop-does-not-end', f"a call kept polling the socket without end and was cut off: {obs['thread_errors']}")
        return fails
    if obs['status'] != 'ok' or obs['main_error'] or obs['thread_errors']:
        fail('run-' + obs['status'], f"the run did not complete: {obs['status']} {obs['main_error']} "
             f"{obs['thread_errors']} blocked: {obs['blocked_at_end']}")
        return fails
    line = case['mode'] == 'line'
    eol = case.get('eol', '\n').encode('latin-1')
    timeout, interval = case['timeout'], case['interval']
    log = obs['log']
    ev = log['ev']
    chunks = log['chunks']
    sends = log['sends']
    send_by_x = {}
    for k, sd in enumerate(sends):
        if sd[3] in send_by_x:
            fail('command-sent-twice', f'command c{sd[3]} was written twice')
        send_by_x[sd[3]] = k
    # ---- bytes written are exactly the command (+ end of line)
    for cid, ts, w, xid, data, mark in sends:
        want = cmd_text(xid).encode() + (eol if line else b'')
        if bytes(data) != want:
            fail('wrong-bytes-sent', f'{w} wrote {bytes(data)!r} for command c{xid}, expected {want!r}')
    # ---- connection life times as the device sees them
    conn_start = [c[0] for c in log['connects'] if c[2]]
    eof_at = {}
    for cid, arr, data, origin in chunks:
        if data is None:
            eof_at[cid] = min(arr, eof_at.get(cid, arr))

    def post_send_stream(k, k0=None):
        """chunks that arrive on the connection after send k: scheduled by this command, or scheduled earlier with a
        later arrival time; in arrival order.  For the last line of a multi-line command k0 is the send of its first
        line: the command is written from there on"""
        cid, ts, w, xid, data, mark = sends[k]
        if k0 is not None and sends[k0][0] == cid:
            ts, mark = sends[k0][1], sends[k0][5]
        nxt = len(chunks)
        for sd in sends[k + 1:]:
            if sd[0] == cid:
                nxt = sd[5]
                break
        cand = [(c[1], i, c[2]) for i, c in enumerate(chunks)
                if c[0] == cid and ((mark <= i < nxt) or (i < mark and c[1] > ts))]
        return sorted(cand)

    def expected(k, x, upto):
        """('frame', bytes, arrival) | ('eof', None, arrival) | ('none', None, last arrival or None)"""
        buf = b''
        last = None
        for arr, i, data in post_send_stream(k, send_by_x.get(x.get('first'))):
            if arr > upto:
                break
            last = arr
            if data is None:
                return 'eof', None, arr
            buf += bytes(data)
            f = _first_frame(line, eol, x['n'], buf)
            if f is not None:
                return 'frame', f, arr
        return 'none', None, last

    ev_index = {}
    for n, e in enumerate(ev):
        if e[0] in ('call', 'ret'):
            ev_index[(e[0], e[1], e[2])] = n
    for i, prog in enumerate(case['threads']):
        me = f'c{i}'
        for j, op in enumerate(prog):
            rec = obs['results'][i][j]
            if rec['res'] == 'other':
                fail('wrong-exception', f"{me} op {j} ({op[0]}) raised {rec['exc']}, not a communication error")
            xs = _exchanges(op)
            if not xs:
                continue
            a, b = ev_index[('call', me, j)], ev_index[('ret', me, j)]
            inner = ev[a:b + 1]
            my_sends = [n for n in range(a, b + 1) if ev[n][0] == 'send' and ev[n][1] == me]
            sent = [x for x in xs if x['id'] in send_by_x]
            # ---- atomicity: from the first write of the call to its return nobody else touches the connection
            if my_sends:
                for n in range(my_sends[0], b + 1):
                    e = ev[n]
                    if e[0] in ('send', 'recv', 'flush') and e[1] != me:
                        fail('transaction-interleaved', f"{e[1]} did {e[0]} at {e[3]} inside the "
                             f"{'transaction' if op[0] == 'multi' else 'request/reply'} of {me} (op {j})")
                        break
            # ---- order of the commands inside a transaction
            if [x['id'] for x in sent] != [x['id'] for x in xs[:len(sent)]]:
                fail('transaction-order', f'{me} op {j}: commands written out of order')
            # ---- wait_before: every line is written at least wait_before after the call started / the previous line
            wait = case.get('wait', 0)
            if wait:
                prev = rec['t0']
                for n in my_sends:
                    if ev[n][3] < prev + wait:
                        fail('wait-before-not-honoured', f"{me} op {j}: line c{ev[n][2]} written at {ev[n][3]}, less than "
                             f"wait_before = {wait} ticks after {prev}")
                    prev = ev[n][3]
            # ---- delays of a transaction
            if op[0] == 'multi':
                for q, x in enumerate(sent):
                    if not x['delay']:
                        continue
                    n0 = my_sends[q]
                    if q + 1 < len(sent):
                        n1 = my_sends[q + 1]
                    elif rec['res'] == 'ok':
                        n1 = b
                    else:
                        continue
                    done = ev[n0][3]
                    for n in range(n0, n1):
                        if ev[n][0] == 'recv' and ev[n][1] == me:
                            done = ev[n][3]
                    if ev[n1][3] < done + x['delay']:
                        fail('delay-not-honoured', f"{me} op {j}: command c{x['id']} was finished at {done}, its delay is "
                             f"{x['delay']} ticks, but the transaction went on at {ev[n1][3]}")
            # ---- replies: the first frame completed by data arriving after the command was written
            if rec['res'] == 'ok':
                if len(sent) != len(xs):
                    fail('command-not-sent', f'{me} op {j} returned although a command was never written')
                    continue
                want_n = [x for x in xs if not x.get('noreply')]
                if len(rec['replies']) != len(want_n):
                    fail('wrong-reply-count', f"{me} op {j}: {len(rec['replies'])} replies for {len(want_n)} queries")
                    continue
                for x, r in zip(want_n, rec['replies']):
                    kind, f, arr = expected(send_by_x[x['id']], x, rec['t1'])
                    if kind != 'frame' or (r is None) or bytes(r) != f:
                        fail('wrong-reply', f"{me} op {j}: command c{x['id']} written at {sends[send_by_x[x['id']]][1]} "
                             f"returned {None if r is None else bytes(r)!r}; the first frame arriving after the write is "
                             f"{f!r} ({kind})")
                    else:
                        bound = max(sends[send_by_x[x['id']]][1] + timeout,
                                    max([c[0] for c in post_send_stream(send_by_x[x['id']]) if c[0] < arr], default=0)) + SLICE
                        if arr > bound:
                            fail('timeout-exceeded', f"{me} op {j}: the reply to c{x['id']} was accepted at {arr}, later than "
                                 f"its time-out allows ({bound})")
            elif rec['res'] == 'commfail':
                last = sent[-1] if sent else None
                in_time = False
                if last is not None and not last.get('noreply'):
                    k = send_by_x[last['id']]
                    ts = sends[k][1]
                    kind, f, arr = expected(k, last, ts + timeout)
                    in_time = kind == 'frame'
                    if not in_time:
                        seen = [c[0] for c in post_send_stream(k) if c[0] <= rec['t1']]
                        bound = max([ts + timeout] + seen) + SLICE
                        if rec['t1'] > bound:
                            fail('timeout-exceeded', f"{me} op {j}: command c{last['id']} written at {ts} failed only at "
                                 f"{rec['t1']} (time-out {timeout}, bound {bound})")
                if last is None or in_time or last.get('noreply'):
                    # the call failed although everything it wrote was answered in time: it must have failed before
                    # writing its next command, which is justified only if no live connection existed
                    if len(sent) == len(xs) and last is not None:
                        fail('reply-lost', f"{me} op {j}: command c{last['id']} was answered in time but the call failed")
                    else:
                        t0, t1 = rec['t0'], rec['t1']
                        # connections established (event order) before the call started, not ended for the device
                        # by the time the call returned, and not replaced meanwhile
                        conn_ev = [n for n, e in enumerate(ev) if e[0] == 'connect' and e[2]]
                        cur = [cid for cid, n in enumerate(conn_ev) if n < a]
                        live = bool(cur) and eof_at.get(cur[-1], 1 << 60) > t1 and \
                            not any(a <= n <= b for n in conn_ev)
                        refused_now = any(e[0] == 'connect' and not e[2] and e[1] == me for e in inner)
                        if live and not refused_now:
                            fail('spurious-failure', f'{me} op {j} failed at {t1} although the connection was up from {t0}')
    # ---- connection state visible
    for e in ev:
        if e[0] in ('recv', 'flush') and e[2] == 'eof':
            if not any(a[0] == e[3] and a[1] is False and not a[2] and a[3] == e[1] for a in log['ann']):
                fail('state-not-visible', f'{e[1]} saw the end of the stream at {e[3]} but is_connected = False was not announced')
        if e[0] == 'connect' and e[2]:
            if not any(a[0] == e[3] and a[1] is True and not a[2] and a[3] == e[1] for a in log['ann']):
                fail('state-not-visible', f'{e[1]} connected at {e[3]} but is_connected = True was not announced')
    for i, prog in enumerate(case['threads']):
        for j, op in enumerate(prog):
            a, b = ev_index.get(('call', f'c{i}', j)), ev_index.get(('ret', f'c{i}', j))
            if a is not None and b is not None:
                if any(e[0] in ('recv', 'flush') and e[2] == 'eof' and e[1] == f'c{i}' for e in ev[a:b]) \
                        and obs['results'][i][j]['conn_after']:
                    fail('state-not-visible', f'c{i} op {j} hit the end of the stream but is_connected is still True')
    if obs['connected'] != obs['has_conn']:
        fail('state-not-visible', f"is_connected = {obs['connected']} but the connection object is "
             f"{'present' if obs['has_conn'] else 'gone'}")
    # ---- reconnect attempts made by calls (check_connection) respect the reconnect interval
    att = [c[0] for c in log['connects'] if c[1].startswith('c')]
    for t_a, t_b in zip(att, att[1:]):
        if t_b - t_a < interval:
            fail('reconnect-rate', f'calls tried to reconnect at {t_a} and again at {t_b}, reconnect interval {interval}')
            break
    # ---- reconnect callbacks
    kinds = dict((k, v) for k, v in case.get('cbs', []))
    ran_before = set()
    had_conn = False
    err_recorded = False
    last_recv = {}
    n = 0
    while n < len(ev):
        e = ev[n]
        if e[0] in ('recv', 'flush'):
            last_recv[e[1]] = e[2]
        elif e[0] == 'send':
            last_recv[e[1]] = None
        elif e[0] == 'ret':
            i, j = int(e[1][1:]), e[2]
            if obs['results'][i][j]['res'] != 'ok' and last_recv.get(e[1]) == 'timeout':
                err_recorded = True
            last_recv[e[1]] = None
        elif e[0] == 'cb':
            fail('callback-outside-reconnect', f'callback {e[2]} ran at {e[3]} without a successful connect')
        elif e[0] == 'connect' and not e[2]:
            err_recorded = True
        elif e[0] == 'connect' and e[2]:
            group = []
            while n + 1 < len(ev) and ev[n + 1][0] == 'cb':
                n += 1
                group.append(ev[n][2])
            if len(set(group)) != len(group):
                fail('callback-ran-twice', f'reconnect at {e[3]}: callbacks {group}')
            if had_conn:
                need = [k for k, v in kinds.items() if v == 'T' or k not in ran_before]
                poller = bool(case.get('poller'))
                if not group and (need or (poller and TRIGGER_KEY not in ran_before)):
                    fail('callbacks-not-run' if err_recorded else 'callbacks-not-run-after-clean-disconnect',
                         f'reconnect at {e[3]} by {e[1]}: no reconnect callback ran (registered: {need}'
                         f"{' + poll trigger' if poller else ''})")
                elif any(k not in group for k in need):
                    fail('callback-missing', f'reconnect at {e[3]}: callbacks {[k for k in need if k not in group]} did not run')
                elif poller and TRIGGER_KEY not in group:
                    fail('polling-not-retriggered-after-first' if TRIGGER_KEY in ran_before else 'polling-not-retriggered',
                         f'reconnect at {e[3]} by {e[1]}: the poll thread was not re-triggered')
            if group:
                err_recorded = True
            ran_before.update(group)
            had_conn = True
        n += 1
    return fails


FINDING_CLASSIFIERS = {}     # both findings of C16 were repaired in /repo (18d6f98, f9007fb): nothing is suppressed


def nontrivial_key(case, obs):
    if case.get('rx'):
        return c16rx.nontrivial_key_rx(case, obs)
    if obs['status'] != 'ok':
        return None
    log = obs['log']
    if len(log['sends']) < 2 and all(c[2] for c in log['connects']) and not any(c[2] is None for c in log['chunks']):
        return None
    return repr((case['threads'], case['mode'], [(t, l) for t, l, _, _ in obs['trace']]))


def outcome_labels(case, obs):
    if case.get('rx'):
        return c16rx.outcome_labels_rx(case, obs)
    labs = {case['mode']}
    log = obs['log']
    if case.get('wait'):
        labs.add('wait_before>0')
        if any(x.get('pre') for prog in case['threads'] for op in prog
               for x in ([op[1]] if op[0] in ('comm', 'write') else op[1] if op[0] == 'multi' else [])):
            labs.add('multi-line-command')
        if any(e[0] == 'flush' and e[2] == 'data' for e in log['ev']):
            labs.add('stale-data-flushed-after-wait_before')
    for rs in obs['results']:
        for r in rs:
            if r['op'] != 'pause':
                labs.add(f"{r['op']}:{r['res']}")
    if any(not c[2] for c in log['connects']):
        labs.add('connect-refused')
    if sum(1 for c in log['connects'] if c[2]) > 1:
        labs.add('reconnected')
    if any(c[1] == 'poll' and c[2] for c in log['connects'][1:]):
        labs.add('reconnected-by-poller')
    if log['cbs']:
        labs.add('callbacks-ran')
    if any(e[0] == 'flush' and e[2] == 'data' for e in log['ev']):
        labs.add('stale-data-flushed')
    if any(e[2] == 'eof' for e in log['ev'] if e[0] in ('recv', 'flush')):
        labs.add('disconnect-detected')
    if any(e[0] == 'recv' and e[2] == 'timeout' for e in log['ev']):
        labs.add('recv-slice-timeout')
    if case.get('poller'):
        labs.add('with-poll-thread')
    return sorted(labs)


def sample_repr(case, obs):
    if case.get('rx'):
        return c16rx.sample_repr_rx(case, obs)
    return {'case': case, 'results': obs['results'], 'sends': obs['log']['sends'], 'connects': obs['log']['connects'],
            'steps': [f'{t}:{lab}@{now}' for t, lab, now, _ in obs['trace']][:60]}


def extra_evidence(cases, obs):
    rx = [o for o in obs if '__harness_error__' not in o and o.get('rx')]
    ok = [o for o in obs if '__harness_error__' not in o and not o.get('rx')]
    return {'receive_layer_cases': len(rx), 'receive_layer_calls_total': sum(len(o['steps']) for o in rx),
            'receive_layer_socket_recvs_total': sum(o['recvs'] for o in rx),'schedule_steps_total': sum(len(o['trace']) for o in ok),
            'max_steps_in_a_run': max((len(o['trace']) for o in ok), default=0),
            'commands_written_total': sum(len(o['log']['sends']) for o in ok),
            'connection_attempts_total': sum(len(o['log']['connects']) for o in ok)}


def shrink(case):
    if case.get('rx'):
        yield from c16rx.shrink_rx(case)
        return
    threads = case['threads']
    if case['sched']['kind'] == 'explicit':
        return
    for i in range(len(threads) - 1, -1, -1):
        if len(threads) > 1:
            yield dict(case, threads=threads[:i] + threads[i + 1:])
    for i, prog in enumerate(threads):
        for j in range(len(prog) - 1, -1, -1):
            if len(prog) > 1:
                yield dict(case, threads=threads[:i] + [prog[:j] + prog[j + 1:]] + threads[i + 1:])
    if case.get('poller'):
        yield dict(case, poller=False, tail=0)
    if case.get('cbs'):
        yield dict(case, cbs=case['cbs'][:-1])
    if case['sched']['kind'] != 'np':
        yield dict(case, sched={'kind': 'np'})
