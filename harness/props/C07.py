"""C07 — one well-formed reply per request line, any bytes, any chunking:
implementation driver (real TCPRequestHandler on a fake socket against a real Dispatcher + SecNode),
case encoder, direct oracle, generators"""
import contextlib
import io
import itertools
import json
import random

ID = 'C07'
MODEL_TARGETS = ['theories/C07/Run.vo']
PROOF_TARGETS = ['theories/C07/Properties.vo']
PROPERTIES_V = 'theories/C07/Properties.v'
IMPORTS = 'Require Import FV.Gen.C07 FV.C07.Model FV.C07.Conc FV.C07.Run.\nLocal Open Scope N_scope.'
CASE_TYPE = 'case'
CHECK = 'check_case'
SHARD_SIZE = 100
RULE = ('byte streams made of 1..7 request lines drawn from a grammar of SECoP requests against a two-module node '
        '(valid, semantically failing, unknown and handler-colliding actions) and mutated at byte level (invalid/overlong/'
        'surrogate UTF-8, broken JSON, missing/extra fields, blanks/tabs/CR before and after, empty lines, lines longer than '
        'the receive size, deep nesting; pure ASCII lines whose JSON data holds \\uXXXX escapes of lone surrogates, surrogate pairs, '
        'BMP and non-BMP characters - as values of a UTF-8 string parameter / struct member / command argument, as struct member '
        'names, in places named by error texts - and the same characters raw in data and specifier), last line possibly '
        'unterminated; delivered to a real TCPRequestHandler through '
        'scripted recv() segments (random cut points, recv time-outs; exhaustive segmentations of short streams), with other '
        'connections talking to the same dispatcher between two segments; plus direct encode_msg_frame / decode_msg cases. '
        'A stream case is non-trivial when at least one complete line was answered; distinct = distinct (segments, other '
        'connections) resp. distinct codec inputs; a few threaded runs in which a second thread sends events through '
        'send_reply while the fake socket delivers every frame in two halves; concurrent send path (kind conc): 1..3 real '
        'connections (handler threads answering scripted requests) and 1..3 sender threads (send_reply directly, '
        'Dispatcher.broadcast_event, Dispatcher.send_log_msg, Module.announceUpdate) as real threads under the deterministic '
        'scheduler harness/dsched.py with a seeded random schedule; the fake socket takes each frame in partial writes of '
        'scripted sizes with a switch point before every write, and in 40 % of the cases the socket of one connection fails at '
        'a scripted write (BrokenPipeError, OSError, time-out, ConnectionResetError, ValueError, RuntimeError); the executed '
        'schedule is replayed by the Coq model (Conc.v), which must produce the same byte stream on every socket')
ASSUMPTIONS = [
    'json.loads / json.dumps / str(exception) are CPython or message text: supplied to the model as recorded data (json verdict per data string, reply data text = what the json.dumps call inside encode_msg_frame returned, error text cut out of it)',
    'law of the json.dumps oracle, evaluated on every case by check_case (premise of C07_reply_ascii_data, tied to the source by the fact dumps_ascii_only): the data texts are printable ASCII',
    'the bodies of Dispatcher.handle_<x> are oracles (reply data, messages sent, exception class); their reply action and specifier rule are read off the source by the translator',
    'stream cases: the fake socket never fails in sendall and honours the recv size; detailed_errors is False; other connections run between two recv() calls of the observed one (socketserver threading, kernel buffers are not covered)',
    'conc cases: thread switches happen at lock acquisitions, before every partial write of sendall and at recv (harness/dsched.py: one thread runs at a time; instruction-level interleaving inside python statements is not explored); a failing socket stays failed; the schedule given to the model is the one observed (calls of send_reply, lock acquisitions, partial writes, failures in execution order)',
    'lines counted as replies are those whose action is not an event (update, log, _ comment lines; error_update unless the request action is update)',
]

WS = b' \t\n\r\x0b\x0c'
# SECoP: request action -> reply action (from the SECoP specification, not imported from frappy)
REPLY = {'describe': 'describing', 'activate': 'active', 'deactivate': 'inactive', 'do': 'done', 'change': 'changed',
         'read': 'reply', 'ping': 'pong', 'help': 'helping', 'logging': 'logging'}
IDENT_PREFIXES = ('ISSE&SINE2020,SECoP,', 'ISSE,SECoP,')
SECOP_CLASSES = {'ProtocolError', 'NoSuchModule', 'NoSuchParameter', 'NoSuchCommand', 'ReadOnly', 'WrongType', 'RangeError',
                 'BadJSON', 'NotImplemented', 'HardwareError', 'CommandFailed', 'CommandRunning', 'CommunicationFailed',
                 'TimeoutError', 'IsBusy', 'IsError', 'Disabled', 'Impossible', 'ReadFailed', 'OutOfRange', 'InternalError'}
EVENTS = ('update', 'log', '_')


def hx(b):
    return bytes(b).hex()


def unhx(s):
    return bytes.fromhex(s)


# ------------------------------------------------------------------ node under test
_env = {}


def _setup():
    """import frappy once per worker process, define the module class"""
    if _env:
        return _env
    import frappy.secnode
    import frappy.protocol.dispatcher as D
    import frappy.protocol.interface as iface
    import frappy.protocol.interface.tcp as tcp
    from frappy.datatypes import FloatRange, IntRange, StringType, StructOf
    from frappy.errors import SECoPError
    from frappy.lib import generalConfig
    from frappy.logging import RemoteLogHandler
    from frappy.modules import Writable
    from frappy.params import Command, Parameter

    generalConfig.testinit(omit_unchanged_within=0)

    class Log:
        parent = None
        propagate = False

        def __init__(self):
            self.handlers = [RemoteLogHandler()]

        def __getattr__(self, name):
            return lambda *a, **k: None

        def getChild(self, *a, **k):
            return self

    class Mod(Writable):
        value = Parameter('v', FloatRange(0, 100), default=1.5)
        target = Parameter('t', FloatRange(0, 100), default=2.0)
        txt = Parameter('s', StringType(), default='', readonly=False)
        utxt = Parameter('u', StringType(isUTF8=True), default='', readonly=False)
        st = Parameter('st', StructOf(a=IntRange(), b=StringType(isUTF8=True)), default={'a': 0, 'b': ''},
                       readonly=False)

        def read_value(self):
            return self.value

        def write_target(self, v):
            self.value = v
            return v

        @Command(IntRange(0, 5), result=IntRange())
        def twice(self, n):
            """twice"""
            return 2 * n

        @Command(StringType(isUTF8=True), result=StringType(isUTF8=True))
        def echo(self, arg):
            """echo"""
            return arg

    class Srv:
        def __init__(self):
            self.module_cfg = {}
            self.restart = self.shutdown = lambda: None
            self.log = Log()
            self.detailed_errors = False

    def mknode():
        srv = Srv()
        srv.secnode = frappy.secnode.SecNode('node', Log(), {}, srv)
        srv.dispatcher = D.Dispatcher('disp', Log(), {}, srv)
        srv.secnode.add_secnode_property('description', 'n')
        for name in ('m', 'm2'):
            m = Mod(name, Log(), {'description': 'd'}, srv)
            srv.secnode.add_module(m, name)
            m.earlyInit()
            m.initModule()
            m._isinitialized = True
        return srv

    from translator import facts_C07
    errtab = []
    try:
        body = facts_C07.error_names()[1]
        import re
        for m in re.finditer(r'\(\[([^\]]*)\], \[([^\]]*)\]\)', body):
            errtab.append(tuple(''.join(chr(int(x[:-2])) for x in g.split('; ') if x) for g in m.groups()))
    except Exception:
        errtab = []
    _env.update(secnode_mod=frappy.secnode, D=D, iface=iface, tcp=tcp, mknode=mknode, SECoPError=SECoPError,
                errtab=errtab)
    return _env


def canon(x):
    return json.dumps(x, sort_keys=True)


class Recorder:
    """all instrumentation of one run (one fresh node, one observed connection A, nested other connections)"""

    def __init__(self, env):
        self.env = env
        self.cur = None          # id of the connection whose thread is running
        self.line = {}           # conn id -> number of request lines taken from its buffer so far
        self.in_handler = False
        self.last_triple = None
        self.sends = []          # dicts: to, triple, bytes, cur, line, in_handler
        self.failed = []         # encode_msg_frame calls that raised: triple, exc, cur, line, in_handler
        self.last_dumps = None   # text returned by the last json.dumps call of the code under test
        self.json = []           # [text, canon or None] in call order
        self.hcalls = {}         # (conn, line) -> dict
        self.problems = []

    # --- patches
    def encode_wrapper(self, real):
        def encode_msg_frame(action, specifier=None, data=None):
            # the data text of the triple is what the json.dumps call INSIDE encode_msg_frame returned (json oracle),
            # not a dump made by the harness
            self.last_dumps = None
            try:
                r = real(action, specifier, data)
            except BaseException as e:
                self.failed.append({'triple': [action, specifier, self.dumped(data)], 'exc': type(e).__name__,
                                    'cur': self.cur, 'line': self.line.get(self.cur, -1), 'in_handler': self.in_handler})
                raise
            self.last_triple = [action, specifier, self.dumped(data)]
            return r
        return encode_msg_frame

    def dumped(self, data):
        if data is None:
            return None
        if self.last_dumps is None:     # encode_msg_frame did not call json.dumps: fail closed (model will disagree)
            self.problems.append('encode_msg_frame did not call json.dumps for a data part')
            return json.dumps(data)
        return self.last_dumps

    def get_msg_wrapper(self, real):
        def get_msg(_bytes):
            r = real(_bytes)
            if r[0] is not None:
                self.line[self.cur] = self.line.get(self.cur, -1) + 1
            return r
        return get_msg

    def json_shim(self):
        rec = self

        class J:
            JSONDecodeError = json.JSONDecodeError

            @staticmethod
            def dumps(*a, **k):
                r = json.dumps(*a, **k)
                rec.last_dumps = r
                return r

            @staticmethod
            def loads(s, *a, **k):
                try:
                    r = json.loads(s, *a, **k)
                except BaseException:
                    rec.json.append([s, None])
                    raise
                try:
                    rec.json.append([s, canon(r)])
                except Exception as e:
                    rec.problems.append(f'canon failed: {type(e).__name__}')
                    rec.json.append([s, None])
                return r
        return J

    def wrap_handlers(self, disp):
        rec = self
        for name in dir(type(disp)):
            if not name.startswith('handle_') or name == 'handle_request':
                continue
            real = getattr(disp, name)

            def make(real, hname):
                def wrapper(conn, specifier, data):
                    key = (rec.cur, rec.line.get(rec.cur, -1))
                    entry = {'name': hname, 'spec': specifier, 'data': None if data is None else canon(data)}
                    rec.hcalls[key] = entry
                    rec.in_handler = True
                    try:
                        res = real(conn, specifier, data)
                    except Exception as e:
                        entry['exc'] = rec.classify_exc(e)
                        raise
                    finally:
                        rec.in_handler = False
                    if res is None:
                        entry['ret'] = None
                    else:
                        entry['ret'] = [res[0], res[1], None if res[2] is None else json.dumps(res[2])]
                    return res
                return wrapper
            setattr(disp, name, make(real, name[len('handle_'):]))

    def classify_exc(self, e):
        if isinstance(e, self.env['SECoPError']):
            names = [n for n, _ in self.env['errtab']]
            for cls in type(e).__mro__:
                if cls.__name__ in names:
                    i = names.index(cls.__name__)
                    if self.env['errtab'][i][1] != e.name:
                        self.problems.append(f'error table: {cls.__name__} has name {e.name}')
                    return ['secop', i, type(e).__name__]
            self.problems.append(f'{type(e).__name__} not in error table')
            return ['secop', 0, type(e).__name__]
        return ['other', type(e).__name__]


class FakeSock:
    def __init__(self, rec, cid, script, nested=None):
        self.rec = rec
        self.cid = cid
        self.script = list(script)      # bytes | None (time-out)
        self.nested = nested or {}      # recv call number -> callable run before returning
        self.nrecv = 0
        self.events = []                # for the observed connection: ['chunk', bytes] | ['async', triple]
        self.seen = 0                   # number of entries of rec.sends already attributed

    def settimeout(self, t):
        pass

    def recv(self, n):
        import socket
        k = self.nrecv
        self.nrecv += 1
        if k in self.nested:
            self.nested[k]()
        # messages that arrived on this socket while other connections were running
        for s in self.rec.sends[self.seen:]:
            if s['to'] == self.cid and s['cur'] != self.cid:
                self.events.append(['async', s['triple']])
        self.seen = len(self.rec.sends)
        self.rec.cur = self.cid
        if not self.script:
            return b''
        c = self.script.pop(0)
        if c is None:
            raise socket.timeout()
        if len(c) > n:
            self.script.insert(0, c[n:])
            c = c[:n]
        self.events.append(['chunk', hx(c)])
        return c

    def sendall(self, b):
        r = self.rec
        r.sends.append({'to': self.cid, 'triple': r.last_triple, 'bytes': hx(b), 'cur': r.cur,
                        'line': r.line.get(r.cur, -1), 'in_handler': r.in_handler})
        self.seen += 0

    def shutdown(self, *a):
        pass

    def close(self):
        pass


def run_stream(chunks, others=()):
    """run _run_stream in a fresh thread: the error branches of RequestHandler.handle format the whole python stack with
    the repr of every local variable, which must not include the harness's case lists"""
    import threading
    box = {}

    def target():
        try:
            box['r'] = _run_stream(chunks, others)
        except BaseException as e:      # harness problem
            box['e'] = e
    t = threading.Thread(target=target)
    t.start()
    t.join()
    if 'e' in box:
        raise box['e']
    return box['r']


def _run_stream(chunks, others=()):
    """chunks: list of bytes|None for connection 'A'; others: list of [recv index of A, [bytes lines script]] run nested.
    Returns the raw record of the run"""
    env = _setup()
    tcp, iface, D = env['tcp'], env['iface'], env['D']
    rec = Recorder(env)
    saved = (tcp.encode_msg_frame, tcp.get_msg, iface.json, env['secnode_mod'].get_version)
    tcp.encode_msg_frame = rec.encode_wrapper(saved[0])
    tcp.get_msg = rec.get_msg_wrapper(saved[1])
    iface.json = rec.json_shim()
    env['secnode_mod'].get_version = lambda: 'X'
    result = {}
    try:
        srv = env['mknode']()
        rec.wrap_handlers(srv.dispatcher)
        bsocks = []

        def make_nested(idx, script):
            def go():
                bs = FakeSock(rec, f'B{idx}', script)
                bsocks.append(bs)
                rec.cur = bs.cid
                try:
                    tcp.TCPRequestHandler(bs, ('10.0.0.2', 1000 + idx), srv)
                except BaseException as e:
                    rec.problems.append(f'B constructor raised {type(e).__name__}')
            return go
        nested = {}
        for idx, (at, script) in enumerate(others):
            nested[at] = make_nested(idx, [unhx(x) for x in script])
        a = FakeSock(rec, 'A', chunks, nested)
        rec.cur = 'A'
        raised = []
        orig_handle = tcp.TCPRequestHandler.handle

        def handle(self):
            try:
                return orig_handle(self)
            except BaseException as e:      # what RequestHandler.__init__ would log
                raised.append([self.request.cid, type(e).__name__, str(e)[:200]])
                raise
        tcp.TCPRequestHandler.handle = handle
        try:
            with contextlib.redirect_stdout(io.StringIO()):
                h = tcp.TCPRequestHandler(a, ('10.0.0.1', 999), srv)
        finally:
            tcp.TCPRequestHandler.handle = orig_handle
        result = {'rec': rec, 'a': a, 'h': h, 'raised': raised, 'bsocks': bsocks,
                  'leftover_conns': len(srv.dispatcher._connections)}
    finally:
        tcp.encode_msg_frame, tcp.get_msg, iface.json, env['secnode_mod'].get_version = saved
    return result


def err_text_of(data_text):
    """the JSON text of the message inside an error report `["<name>", <text>, {}]`, cut out of the text json.dumps
    produced (so that it is the implementation's rendering, whatever escaping it uses)"""
    try:
        d = json.loads(data_text)
        for name in (json.dumps(d[0]), json.dumps(d[0], ensure_ascii=False)):
            pre, post = '[' + name + ', ', ', {}]'
            if data_text.startswith(pre) and data_text.endswith(post) and isinstance(d[1], str) and d[2] == {}:
                text = data_text[len(pre):-len(post)]
                if json.loads(text) == d[1]:
                    return text
        return json.dumps(d[1])
    except Exception:
        return ''


def summarize(r, conn='A'):
    """JSON-able observation of connection conn of a run"""
    rec = r['rec']
    sends = [s for s in rec.sends if s['to'] == conn]
    nlines = rec.line.get(conn, -1) + 1
    lines = []
    for i in range(nlines):
        own = [s for s in sends if s['cur'] == conn and s['line'] == i]
        # a reply that could not be encoded (the exception leaves send_reply and the request loop)
        failed = [f for f in rec.failed if f['cur'] == conn and f['line'] == i and not f['in_handler']]
        hc = rec.hcalls.get((conn, i))
        own_out = [s for s in own if not s['in_handler']]
        reply = failed[0]['triple'] if failed else own_out[-1]['triple'] if own_out else None
        errtext = ''
        if reply and reply[0].startswith('error_') and reply[2] is not None:
            errtext = err_text_of(reply[2])
        if hc and hc.get('ret') and reply and not reply[0].startswith('error_') and reply[2] is not None:
            # oracle law: the text json.dumps produced for the reply data parses back to the value the handler returned
            try:
                if canon(json.loads(reply[2])) != canon(json.loads(hc['ret'][2])):
                    rec.problems.append(f'line {i}: dumped reply data does not parse back to the returned value')
            except Exception:
                pass
        lines.append({'h': hc, 'sent_in_handler': [s['triple'] for s in own if s['in_handler']], 'err': errtext,
                      'out': [s['bytes'] for s in own], 'reply': reply,
                      'unencodable': failed[0]['exc'] if failed else None})
    return {'out': [s['bytes'] for s in sends], 'nlines': nlines, 'lines': lines,
            'foreign': [s['bytes'] for s in sends if s['cur'] != conn]}


# ------------------------------------------------------------------ implementation driver
def run_case(case):
    kind = case['kind']
    if kind == 'stream':
        return run_stream_case(case)
    if kind == 'threads':
        return run_threads_case(case)
    if kind == 'conc':
        from harness import c07conc
        return c07conc.run_conc(_setup(), case)
    env = _setup()
    iface = env['iface']
    if kind == 'encode':
        a, s, d = case['triple']
        rec = Recorder(env)
        saved = iface.json
        iface.json = rec.json_shim()
        try:
            try:
                r = iface.encode_msg_frame(a, s, d)
            except Exception as e:
                # the text json.dumps produced is kept: the model decides from it whether the frame is encodable
                return {'exc': type(e).__name__, 'dumps': None if d is None else rec.last_dumps}
            obs = {'out': hx(r), 'dumps': None if d is None else rec.last_dumps}
            try:
                back = iface.decode_msg(r[:-1])
                obs['back'] = [back[0], back[1], None if back[2] is None else canon(back[2])]
                obs['again'] = hx(iface.encode_msg_frame(*back))
            except Exception as e:
                obs['back_exc'] = type(e).__name__
            return obs
        finally:
            iface.json = saved
    if kind == 'decode':
        rec = Recorder(env)
        saved = iface.json
        iface.json = rec.json_shim()
        try:
            try:
                a, s, d = iface.decode_msg(unhx(case['line']))
                return {'res': [a, s, None if d is None else canon(d)], 'json': rec.json}
            except Exception as e:
                return {'res': None, 'exc': type(e).__name__, 'json': rec.json}
        finally:
            iface.json = saved
    raise ValueError(kind)


def run_threads_case(case):
    """a second thread sends events through send_reply of the connection while its own thread answers requests; the fake
    socket delivers every frame in two halves with a pause in between, and records the resulting byte stream"""
    import threading
    import time
    env = _setup()
    tcp = env['tcp']
    srv = env['mknode']()
    stream = bytearray()
    script = [unhx(c) for c in case['chunks']]
    pause = case.get('pause', 0.0003)

    class TSock:
        def settimeout(self, t):
            pass

        def recv(self, n):
            return script.pop(0) if script else b''

        def sendall(self, b):
            k = len(b) // 2
            stream.extend(b[:k])
            time.sleep(pause)
            stream.extend(b[k:])

        def shutdown(self, *a):
            pass

        def close(self):
            pass

    stop = threading.Event()
    count = [0]
    problems = []

    def other():
        while not srv.dispatcher._connections and not stop.is_set():
            time.sleep(0.0001)
        while not stop.is_set():
            conns = list(srv.dispatcher._connections)
            if not conns:
                break
            try:
                conns[0].send_reply(('update', 'm:value', [count[0], {}]))
                count[0] += 1
            except Exception as e:
                problems.append(type(e).__name__)
                break
            time.sleep(pause / 2)
    t = threading.Thread(target=other)
    raised = None
    t.start()
    try:
        with contextlib.redirect_stdout(io.StringIO()):
            tcp.TCPRequestHandler(TSock(), ('10.0.0.3', 7), srv)
    except BaseException as e:
        raised = type(e).__name__
    finally:
        stop.set()
        t.join()
    return {'stream': hx(bytes(stream)), 'n_async': count[0], 'problems': problems, 'raised': raised}


def stream_bytes(case):
    return b''.join(unhx(c) for c in case['chunks'] if c is not None)


def run_stream_case(case):
    chunks = [None if c is None else unhx(c) for c in case['chunks']]
    main = run_stream(chunks, case.get('others', []))
    a = main['a']
    obs = summarize(main, 'A')
    obs['events'] = a.events
    obs['json'] = main['rec'].json
    obs['rest'] = hx(main['h'].data)
    obs['raised'] = main['raised']
    obs['problems'] = main['rec'].problems
    obs['leftover_conns'] = main['leftover_conns']
    obs['others'] = [summarize(main, b.cid)['out'] for b in main['bsocks']]
    # control 1: the same byte stream in one piece, nobody else connected
    stream = stream_bytes(case)
    c1 = run_stream([stream], [])
    obs['control_whole'] = summarize(c1, 'A')['out']
    obs['control_whole_raised'] = c1['raised']
    # control 2: only the well-formed request lines
    good = [ln for ln in complete_lines(stream) if spec_parse(ln)['wellformed']]
    c2 = run_stream([b''.join(g + b'\n' for g in good)], [])
    obs['control_good'] = [ln['out'] for ln in summarize(c2, 'A')['lines']]
    # control 3: the other connections in the same order on a fresh node where the observed connection sends nothing
    ctl = []
    if case.get('others'):
        oth = [[k, script] for k, (_, script) in enumerate(case['others'])]
        cb = run_stream([None] * len(oth), oth)
        ctl = [summarize(cb, b.cid)['out'] for b in cb['bsocks']]
        if summarize(cb, 'A')['out']:
            ctl.append(['silent connection received something'])
    obs['control_others'] = ctl
    return obs


# ------------------------------------------------------------------ specification side parsing
def complete_lines(stream):
    parts = stream.split(b'\n')
    return parts[:-1]


def spec_parse(line):
    """the request a line carries, from the protocol description: surrounding ASCII white space is ignored, fields are
    separated by single blanks, the third field is JSON.  Fields that are not valid UTF-8 are reported as None"""
    s = line.strip(WS)
    if s == b'':
        return {'blank': True, 'wellformed': True, 'action': 'help', 'spec': None}
    f = s.split(b' ', 2)

    def dec(b):
        try:
            return b.decode('utf-8')
        except UnicodeDecodeError:
            return None
    action = dec(f[0])
    spec = dec(f[1]) if len(f) > 1 else ''
    data_ok = True
    if len(f) > 2 and f[2] != b'':
        t = dec(f[2])
        if t is None:
            data_ok = False
        else:
            try:
                json.loads(t)
            except Exception:       # includes RecursionError for absurd nesting
                data_ok = False
    wf = action is not None and spec is not None and data_ok
    return {'blank': False, 'wellformed': wf, 'action': action, 'spec': spec or None if spec is not None else 'INVALID',
            'spec_valid': spec is not None, 'data_ok': data_ok}


def strict_json(text):
    def bad(x):
        raise ValueError('non-strict constant ' + x)
    return json.loads(text, parse_constant=bad)


def parse_frame(b):
    """None or (action, spec, data) of an emitted frame, by the letter of the protocol"""
    if not b.endswith(b'\n') or b.count(b'\n') != 1:
        return None, 'not exactly one line'
    try:
        s = b[:-1].decode('utf-8')
    except UnicodeDecodeError:
        return None, 'not UTF-8'
    f = s.split(' ', 2)
    if f[0] == '':
        return None, 'empty action'
    data = None
    if len(f) > 2 and f[2] != '':
        try:
            data = strict_json(f[2])
        except Exception as e:
            return None, f'data part is not strict JSON ({type(e).__name__})'
    return (f[0], f[1] if len(f) > 1 and f[1] != '' else None, data), None


def strip_t(x):
    """replace time stamps by 0 (for comparing two runs)"""
    if isinstance(x, dict):
        return {k: (0 if k == 't' else strip_t(v)) for k, v in x.items()}
    if isinstance(x, list):
        return [strip_t(v) for v in x]
    return x


def norm_frames(frames, drop_events=True):
    res = []
    for fr in frames:
        p, _ = parse_frame(unhx(fr))
        if p is None:
            res.append(fr)
            continue
        if drop_events and p[0] in ('update', 'log'):
            continue
        res.append([p[0], p[1], strip_t(p[2])])
    return res


# ------------------------------------------------------------------ direct oracle
def oracle(case, obs):
    fails = []

    def fail(cls, what, **kw):
        fails.append(dict({'class': cls, 'what': what}, **kw))

    if case['kind'] == 'encode':
        if case.get('wf'):
            if 'exc' in obs:
                fail('codec', f'encode_msg_frame raised {obs["exc"]} on a well-formed triple')
                return fails
            a, s, d = case['triple']
            want = [a, s, None if d is None else canon(d)]
            if obs.get('back') != want:
                fail('codec', f'decode_msg(encode_msg_frame(t)) = {obs.get("back", obs.get("back_exc"))} instead of {want}')
            elif obs.get('again') != obs['out']:
                fail('codec', 'encode(decode(encode(t))) differs from encode(t)')
            p, why = parse_frame(unhx(obs['out']))
            if p is None:
                fail('wellformed', f'encoded frame: {why}')
        return fails
    if case['kind'] == 'decode':
        return fails
    if case['kind'] == 'conc':
        conc_oracle(case, obs, fail)
        return fails
    if case['kind'] == 'threads':
        if obs['raised'] or obs['problems']:
            fail('terminated', f'threads: {obs["raised"]} {obs["problems"]}')
        data = unhx(obs['stream'])
        parts = data.split(b'\n')
        if parts[-1] != b'':
            fail('split-line', f'stream does not end with a complete line: {parts[-1][:60]!r}')
        nreq = len(complete_lines(b''.join(unhx(c) for c in case['chunks'])))
        replies, nxt = 0, 0
        for ln in parts[:-1]:
            p, why = parse_frame(ln + b'\n')
            if p is None:
                fail('split-line', f'line {ln[:80]!r} of the byte stream: {why}')
                break
            if p[0] == 'update':
                if p[1] != 'm:value' or not isinstance(p[2], list) or p[2][0] != nxt:
                    fail('split-line', f'event line {ln[:80]!r} is not the next event sent ({nxt})')
                    break
                nxt += 1
            elif p[0] == '_':
                if not (isinstance(p[2], str) and (p[1] or '').isdigit()):
                    fail('split-line', f'damaged help text line {ln[:80]!r}')
                    break
            elif p[0] in ('helping', 'pong'):
                replies += 1
            else:
                fail('split-line', f'unexpected line {ln[:80]!r}')
                break
        else:
            if replies != nreq or nxt != obs['n_async']:
                fail('split-line', f'{replies} replies for {nreq} requests, {nxt} of {obs["n_async"]} events arrived')
        return fails

    # ---- stream cases
    stream = stream_bytes(case)
    lines = complete_lines(stream)
    if obs['raised']:
        fail('terminated', f'connection handler left by {obs["raised"][0][1]}: {obs["raised"][0][2]}')
    if obs['problems']:
        fail('harness', '; '.join(obs['problems'][:3]))
    if obs['leftover_conns']:
        fail('leak', 'connections still registered at the dispatcher after all sockets were closed')
    frames = [unhx(x) for x in obs['out']]
    parsed = []
    for fr in frames:
        p, why = parse_frame(fr)
        if p is None:
            fail('wellformed', f'emitted {fr[:80]!r}: {why}')
            return fails
        parsed.append(p)
    # one reply per request line, in order
    pos = 0
    for i, ln in enumerate(lines):
        rq = spec_parse(ln)
        reply = None
        while pos < len(parsed):
            p = parsed[pos]
            pos += 1
            if p[0] in EVENTS or (p[0] == 'error_update' and rq['action'] != 'update'):
                continue
            reply = p
            break
        if reply is None:
            fail('one-reply', f'line {i} {ln[:60]!r} got no reply', line=hx(ln), index=i)
            break
        bad = check_reply(rq, reply)
        if bad:
            fail('reply-mismatch', f'line {i} {ln[:60]!r} answered by {reply[0]!r} {reply[1]!r}: {bad}', line=hx(ln), index=i,
                 reply=[reply[0], reply[1]])
    else:
        extra = [p for p in parsed[pos:] if p[0] not in EVENTS and p[0] != 'error_update']
        if extra:
            fail('one-reply', f'{len(extra)} reply lines more than request lines, first {extra[0][0]!r}')
    if stream.rsplit(b'\n', 1)[-1] != unhx(obs['rest']) and not obs['raised']:
        fail('one-reply', 'unterminated rest of the stream is not what the handler kept in its buffer')
    # any chunking / other connections: same answers as the stream in one piece on a quiet node
    if norm_frames(obs['out']) != norm_frames(obs['control_whole']):
        fail('chunking', 'replies differ from those to the same byte stream delivered in one piece')
    # malformed lines do not change the answers to the others
    good_idx = [i for i, ln in enumerate(lines) if spec_parse(ln)['wellformed']]
    if len(obs['lines']) == len(lines) and len(obs['control_good']) == len(good_idx):
        for k, i in enumerate(good_idx):
            if norm_frames(obs['lines'][i]['out']) != norm_frames(obs['control_good'][k]):
                fail('isolation', f'answer to line {i} {lines[i][:60]!r} differs when the malformed lines are left out',
                     line=hx(lines[i]), index=i)
                break
    elif not fails:
        fail('isolation', 'control run with the well-formed lines only answered a different number of lines')
    # other connections are not affected and receive nothing of ours
    for got, want in zip(obs['others'], obs['control_others']):
        if norm_frames(got, drop_events=False) != norm_frames(want, drop_events=False):
            fail('leak', 'another connection received different lines than when it is alone on the node')
    return fails


def spec_frame(triple):
    """the line a message triple stands for, by the letter of the protocol (data text as json.dumps gave it)"""
    a, sp, d = triple
    return ' '.join([a, sp or '', d or '']).strip().encode('utf-8')


def conc_oracle(case, obs, fail):
    """asynchronous messages never split another line; a failing send neither stops other connections nor leaves the
    send lock held - judged on what the sockets received and on the messages handed to send_reply"""
    if obs['status'] != 'ok':
        fail('send-lock', f'run ended with status {obs["status"]} (threads parked at {obs.get("blocked_at_end")}): a lock is '
             'never released or a thread never returns')
        return
    if obs['raised'] or obs['thread_errors'] or obs['sender_exc']:
        fail('terminated', f'a thread was terminated by an exception of the send path: handlers {obs["raised"]}, '
             f'threads {obs["thread_errors"]}, senders {obs["sender_exc"]}')
    if any(obs['locked']):
        fail('send-lock', f'send_lock of connection(s) {[c for c, x in enumerate(obs["locked"]) if x]} still held at the end')
    if obs['leftover']:
        fail('leak', 'connections still registered at the dispatcher after all handlers ended')
    calls = [e for e in obs['events'] if e[0] == 'call' and e[3] is not None and e[4] != 'encode-raised']
    for c, shex in enumerate(obs['streams']):
        stream = unhx(shex)
        pending = {}
        for e in calls:
            if e[2] == c:
                pending.setdefault(e[1], []).append(e[3])
        pieces = stream.split(b'\n')
        failed = c in obs['failed'] or not obs['running'][c]
        # the lines must be an interleaving of the threads' message sequences (identical messages of two threads make
        # the attribution ambiguous: search all attributions)
        names = sorted(pending)
        queues = [[spec_frame(m) for m in pending[t]] for t in names]
        lines_ = pieces[:-1]
        start = tuple(0 for _ in names)
        rest = pieces[-1]
        stack, seen, best, final, finals = [start], {start}, start, None, []
        while stack:
            pos = stack.pop()
            i = sum(pos)
            if i > sum(best):
                best = pos
            if i == len(lines_):
                finals.append(pos)
                continue
            for k, q in enumerate(queues):
                if pos[k] < len(q) and q[pos[k]] == lines_[i]:
                    nxt = pos[:k] + (pos[k] + 1,) + pos[k + 1:]
                    if nxt not in seen:
                        seen.add(nxt)
                        stack.append(nxt)
        for pos in finals:      # prefer an attribution under which the cut frame (if any) is some thread's next message
            if final is None or any(pos[k] < len(q) and q[pos[k]].startswith(rest) for k, q in enumerate(queues)):
                final = pos
        if final is None:
            ln = lines_[sum(best)]
            fail('split-line', f'connection {c}: the peer reads the line {ln[:80]!r} - it is not the next message of any '
                 f'thread (next: {[q[best[k]][:40] for k, q in enumerate(queues) if best[k] < len(q)][:4]})', conn=c)
            continue
        pending = {t: pending[t][final[k]:] for k, t in enumerate(names)}
        nreply = 0
        for ln in lines_:
            p, why = parse_frame(ln + b'\n')
            if p is None:
                fail('wellformed', f'connection {c}: line {ln[:80]!r}: {why}', conn=c)
            elif p[0] not in EVENTS:
                nreply += 1
        if failed:
            if rest and not any(q and spec_frame(q[0]).startswith(rest) for q in pending.values()):
                fail('split-line', f'connection {c}: after the socket failure the stream ends with {rest[:60]!r}, which is not '
                     'the beginning of a message handed to send_reply', conn=c)
        else:
            if rest:
                fail('split-line', f'connection {c}: stream ends inside a line: {rest[:60]!r}', conn=c)
            lost = {t: len(q) for t, q in pending.items() if q}
            if lost:
                fail('split-line', f'connection {c}: messages handed to send_reply never arrived: {lost}', conn=c)
            nreq = len(complete_lines(b''.join(unhx(x) for x in case['conns'][c])))
            if nreply != nreq:
                fail('one-reply', f'connection {c} (no failure on its socket) answered {nreply} of {nreq} request lines'
                     + (f' while the socket of connection {obs["failed"]} failed' if obs['failed'] else ''), conn=c)


def check_reply(rq, reply):
    """None if reply (action, spec, data) is an admissible answer to the parsed request rq, else the reason"""
    action, spec, data = reply
    if rq['blank']:
        return None if action == 'helping' else 'an empty line is a help request'
    ra, rs = rq['action'], rq['spec']
    if action.startswith('error_'):
        if not (isinstance(data, list) and len(data) == 3 and data[0] in SECOP_CLASSES and isinstance(data[1], str)
                and isinstance(data[2], dict)):
            return 'error report is not [<SECoP error class>, <text>, {..}]'
        if ra is not None and action != 'error_' + ra:
            return f'error reply does not name the request action {ra!r}'
        if rq['spec_valid'] and (spec or None) != (rs or None):
            return f'error reply does not echo the specifier {rs!r}'
        return None
    if not rq['wellformed']:
        return 'malformed request not answered by an error reply'
    if ra == '*IDN?':
        return None if action.startswith(IDENT_PREFIXES) and data is None else 'not an identification reply'
    if ra not in REPLY:
        return f'unknown request action {ra!r} not answered by an error reply'
    if action != REPLY[ra]:
        return f'reply action should be {REPLY[ra]!r}'
    return None


def _line_of(failure):
    return unhx(failure['line']) if 'line' in failure else None


def f_latin1_echo(case, obs, failure):
    """an undecodable line whose action or specifier is valid non-ASCII UTF-8: echoed through latin-1 (mojibake)"""
    ln = _line_of(failure)
    if failure['class'] != 'reply-mismatch' or ln is None:
        return False
    rq = spec_parse(ln)
    if rq['blank'] or rq['wellformed'] or not failure['reply'][0].startswith('error_'):
        return False
    f = ln.strip(WS).split(b' ', 2)
    nonascii = [x for x in f[:2] if not x.isascii()]
    if not nonascii:
        return False
    # the reply is exactly the latin-1 reading of the fields of the stripped line
    raw = ln.strip(WS).decode('latin-1').split(' ', 3) + [None]
    return failure['reply'][0] == 'error_' + raw[0] and (failure['reply'][1] or None) == (raw[1] or None)


FINDING_CLASSIFIERS = {'latin1_echo': f_latin1_echo}


# ------------------------------------------------------------------ encoding into Gallina
def g_bytes(b):
    b = bytes(b)
    return '(B 0x1' + b.hex() + ')' if b else '[]'


def g_str(s):
    if not s:
        return '[]'
    if all(ord(c) < 256 for c in s):
        return '(B 0x1' + ''.join('%02x' % ord(c) for c in s) + ')'
    return '(U 0x1' + ''.join('%06x' % ord(c) for c in s) + ')'


def g_ostr(s):
    return 'None' if s is None else f'(Some {g_str(s)})'


def g_msg(t):
    return f'({g_str(t[0])}, {g_ostr(t[1])}, {g_ostr(t[2])})'


def g_json(tab):
    seen = {}
    for text, c in tab:
        seen.setdefault(text, c)
    return '[' + ';'.join(f'({g_str(k)}, {g_ostr(v)})' for k, v in seen.items()) + ']'


def g_hres(ln):
    h = ln['h']
    if h is None:
        return 'HExc'
    if 'exc' in h:
        return f'(HSecop {h["exc"][1]}%nat)' if h['exc'][0] == 'secop' else 'HExc'
    sent = '[' + ';'.join(g_msg(t) for t in ln['sent_in_handler']) + ']'
    data = None if h['ret'] is None else h['ret'][2]
    reply = ln.get('reply')
    if h['ret'] is not None and reply and not reply[0].startswith('error_'):
        data = reply[2]     # the text json.dumps produced inside encode_msg_frame for the returned value
    return f'(HOk {g_ostr(data)} {sent})'


def encode(case, obs):
    k = case['kind']
    if k == 'conc':
        from harness import c07conc
        progs, sched = c07conc.model_inputs(case, obs)
        gp = '[' + ';'.join('[' + ';'.join(f'({c}%nat, {g_msg(t)})' for c, t in pr) + ']' for pr in progs) + ']'
        gs = '[' + ';'.join(f'({t}%nat, Write {a[1]}%nat)' if a[0] == 'W' else f'({t}%nat, Fail {a[1]}%nat)'
                            for t, a in sched) + ']'
        socks = '[' + ';'.join(g_bytes(unhx(x)) for x in obs['streams']) + ']'
        run = '[' + ';'.join('true' if r else 'false' for r in obs['running']) + ']'
        return f'(CConc {gp} {gs} {len(obs["streams"])}%nat {socks} {run})'
    if k == 'threads':      # the interleaving is not an input of the model: compare the event frame only
        return f'(CEncode ({g_str("update")}, {g_ostr("m:value")}, {g_ostr("[0, {}]")}) (Some {g_bytes(b"update m:value [0, {}]" + bytes([10]))}))'
    if k == 'encode':
        a, s, d = case['triple']
        if 'exc' in obs:
            if obs['exc'] != 'UnicodeEncodeError' or (d is not None and obs['dumps'] is None):
                raise ValueError('encode_msg_frame raised ' + obs['exc'])
            return f'(CEncode ({g_str(a)}, {g_ostr(s)}, {g_ostr(obs["dumps"])}) None)'
        return f'(CEncode ({g_str(a)}, {g_ostr(s)}, {g_ostr(obs["dumps"])}) (Some {g_bytes(unhx(obs["out"]))}))'
    if k == 'decode':
        res = 'None' if obs['res'] is None else f'(Some {g_msg(obs["res"])})'
        return f'(CDecode {g_bytes(unhx(case["line"]))} {g_json(obs["json"])} {res})'
    evs = []
    for e in obs['events']:
        evs.append(f'(Chunk {g_bytes(unhx(e[1]))})' if e[0] == 'chunk' else f'(Async {g_msg(e[1])})')
    lines = '[' + ';'.join(f'({g_hres(ln)}, {g_str(ln["err"])})' for ln in obs['lines']) + ']'
    calls = []
    for i, ln in enumerate(obs['lines']):
        if ln['h'] is not None:
            calls.append(f'({i}%nat, {g_str(ln["h"]["name"])}, {g_ostr(ln["h"]["spec"])}, {g_ostr(ln["h"]["data"])})')
    out = '[' + ';'.join(g_bytes(unhx(x)) for x in obs['out']) + ']'
    return (f'(CStream [{";".join(evs)}] {g_json(obs["json"])} {lines} {out} [{";".join(calls)}] '
            f'{g_bytes(unhx(obs["rest"]))} {"false" if obs["raised"] else "true"})')


def model_result_term(case, obs):
    return f'model_result {encode(case, obs)}'


def nontrivial_key(case, obs):
    if case['kind'] == 'stream':
        if not obs['nlines']:
            return None
        return repr((case['chunks'], case.get('others')))
    return repr(case)


def outcome_labels(case, obs):
    if case['kind'] == 'conc':
        labs = ['conc', f'conc:status-{obs["status"]}']
        if obs['failed']:
            labs.append('conc:socket-failure')
            if len(obs['streams']) > 1:
                labs.append('conc:failure-with-other-connections')
        held = {}
        for e in obs['events']:
            if e[0] == 'acq':
                held[e[2]] = e[1]
            elif e[0] == 'rel':
                held.pop(e[2], None)
            elif e[0] == 'call' and e[2] in held and held[e[2]] != e[1]:
                labs.append('conc:call-while-other-thread-inside-sendall')
        if any(e[0] == 'raise' for e in obs['events']):
            labs.append('conc:send_reply-raised')
        return sorted(set(labs))
    if case['kind'] == 'threads':
        return ['threads']
    if case['kind'] != 'stream':
        return [case['kind'] + ('-exc' if obs.get('exc') else '')]
    labs = set()
    for fr in obs['out']:
        p, _ = parse_frame(unhx(fr))
        if p:
            a = p[0]
            labs.add('reply:' + (a if a in REPLY.values() or a in EVENTS else
                                 'ident' if a.startswith(IDENT_PREFIXES) else
                                 'error/' + str(p[2][0]) if a.startswith('error_') and isinstance(p[2], list) and p[2] else 'other'))
    for ln in obs['lines']:
        if ln['h']:
            labs.add('handler:' + ln['h']['name'])
    if any(e[0] == 'async' for e in obs['events']):
        labs.add('async-between-segments')
    if unhx(obs['rest']):
        labs.add('partial-rest')
    return sorted(labs)


def sample_repr(case, obs):
    if case['kind'] == 'conc':
        return {'case': {k: v for k, v in case.items() if k != 'decisions'},
                'obs': {'streams': [repr(unhx(x))[:300] for x in obs['streams']], 'running': obs['running'],
                        'status': obs['status'], 'failed': obs['failed'], 'nsteps': obs['nsteps'],
                        'raised': obs['raised'], 'sender_exc': obs['sender_exc']}}
    if case['kind'] != 'stream':
        return {'case': case, 'obs': {k: v for k, v in obs.items() if k != 'json'}}
    return {'segments': [None if c is None else repr(unhx(c))[:200] for c in case['chunks']][:12],
            'others': case.get('others'),
            'sent': [repr(unhx(x))[:160] for x in obs['out']][:8]}


# ------------------------------------------------------------------ generators
VALID = [
    b'*IDN?', b'describe', b'describe .', b'describe m', b'describe m:value', b'describe nomod', b'read m:value', b'read m',
    b'read m:_txt', b'read m:nope', b'read nomod:value', b'read', b'read m:value 1', b'change m:target 3', b'change m:target 7.5',
    b'change m:target 1000', b'change m:target "x"', b'change m:target', b'change m:_txt "text"', b'change m:_txt "\\u00e9\\u2028"',
    b'change m:value 1', b'change m 4', b'change nomod:target 1', b'change', b'do m:_twice 2', b'do m:_twice 9', b'do m:_twice',
    b'do m:stop', b'do m', b'do m:nocmd', b'do', b'ping', b'ping tok', b'ping tok 1', b'ping "\\ud800"', b'ping tok null',
    b'activate', b'activate m', b'activate m:value', b'activate m:nope', b'activate x', b'activate m 1', b'deactivate',
    b'deactivate m', b'deactivate m 1', b'logging m "debug"', b'logging . "off"', b'logging m "bogus"', b'logging nomod "debug"',
    b'logging', b'help', b'help x', b'help x 1', b'', b'request x 1', b'request', b'_ident', b'_ident x', b'_ident x 1',
    b'update m:value [1,{}]', b'error_read x', b'describing', b'foo', b'foo bar [1, 2]', b'Read m:value', b'reply m:value',
    b'ping t\xc3\xa9st', b'ping \xe2\x80\xa8', b'ping \xc2\xa0', b'read m\xc3\xb6d:value', b'r\xc3\xa9ad m:value',
    b'change m:target 1e999', b'change m:target NaN', b'change m:target -Infinity', b'change m:_txt "a b  c"',
    b'change m:_utxt "t\\u00e9xt"', b'change m:_st {"a": 2, "b": "s"}', b'change m:_st {"a": 2}', b'do m:_echo "hi"',
]
# pure ASCII request lines whose JSON data holds \\uXXXX escapes: lone surrogates (json.loads accepts them), surrogate pairs
# (= one non-BMP character), BMP characters; and the same characters as raw UTF-8 - as values of the UTF-8 string
# parameter / struct member / command argument (echoed in the reply), as struct member names and in places named by the
# error text, and raw in the specifier
ESCAPES = [b'\\ud800', b'\\udbff', b'\\udc00', b'\\udfff', b'\\ud83d\\ude00', b'\\ude00\\ud83d', b'\\ud800\\ud800', b'\\ud7ff',
           b'\\ue000', b'\\u00e9', b'\\u20ac', b'\\u2028', b'\\u0085', b'\\ufffd', b'\\uffff', b'\\u0000', b'\\u000a', b'\\uD83D',
           b'\xc3\xa9', b'\xe2\x82\xac', b'\xf0\x9f\x98\x80', b'\xf4\x8f\xbf\xbf', b'\xef\xbf\xbd']
UNI_TEMPLATES = [b'change m:_utxt "%s"', b'change m:_utxt "x%sy"', b'change m:_utxt "%s "', b'do m:_echo "%s"', b'do m:_echo " %s"',
                 b'change m:_st {"a": 1, "b": "%s"}', b'change m:_st {"%s": 1}', b'change m:_st {"a": 1, "b": "", "k%s": 2}',
                 b'change m:_st {"b": "%s"}', b'change m:_st {"a": "%s", "b": ""}', b'change m:_txt "%s"', b'change m:target "%s"',
                 b'do m:_twice "%s"', b'ping tok "%s"', b'ping "%s"', b'logging m "%s"', b'foo bar ["%s"]', b'read m:value "%s"',
                 b'change m:_utxt ["%s"]', b'change m:_utxt "a%sb"', b'describe "%s"', b'help x "%s"', b'change m:_utxt "%s',
                 b'change m:_utxt "\\%s"']
UNI_RAW_SPEC = [b'read m:%s', b'ping %s', b'change m:_utxt%s "x"', b'change %s:_utxt "x"', b'do m:_echo%s "x"', b'logging %s "debug"',
                b'%s m:value', b'describe %s']


def uni_line(rng):
    e = rng.choice(ESCAPES)
    if rng.random() < 0.3:
        e += rng.choice(ESCAPES)
    if rng.random() < 0.15 and not e.startswith(b'\\'):
        return rng.choice(UNI_RAW_SPEC) % e
    return rng.choice(UNI_TEMPLATES) % e


UNI_FIXED = [b'change m:_utxt "x\\ud800y"', b'change m:_st {"\\ud800": 1}', b'do m:_echo "\\udfff"', b'change m:_utxt "\\ud83d\\ude00"',
             b'change m:_st {"a": 1, "b": "\\u00e9\\ud800"}', b'read m:_utxt', b'read m:_st', b'change m:_utxt "\xf0\x9f\x98\x80"']
BULKY = (b'describe', b'describe .', b'describe m', b'help', b'help x', b'help x 1', b'', b'activate')
BYTES_OF_INTEREST = [0x00, 0x09, 0x0a, 0x0b, 0x0c, 0x0d, 0x1c, 0x1f, 0x20, 0x22, 0x5b, 0x5d, 0x7b, 0x7d, 0x3a, 0x5c, 0x7f, 0x80,
                     0x85, 0xa0, 0xbf, 0xc0, 0xc2, 0xc3, 0xa9, 0xe0, 0xe2, 0xed, 0xef, 0xf0, 0xf4, 0xf5, 0xff]
BAD_UTF8 = [b'\xff', b'\xc3', b'\xc0\xaf', b'\xe0\x80\xaf', b'\xed\xa0\x80', b'\xf4\x90\x80\x80', b'\xf8\x88\x80\x80\x80',
            b'\xe2\x82', b'\x80', b'\xf0\x9f\x98']
GOOD_UTF8 = [b'\xc3\xa9', b'\xe2\x82\xac', b'\xf0\x9f\x98\x80', b'\xc2\x85', b'\xc2\xa0', b'\xe2\x80\xa8', b'\xe3\x80\x80',
             b'\xef\xbf\xbf', b'\xf4\x8f\xbf\xbf', b'\xed\x9f\xbf', b'\xee\x80\x80', b'\xe1\x9a\x80']
BAD_JSON = [b'{bad', b'[1,', b'"open', b'tru', b'01', b"'x'", b'{"a":}', b'[1 2]', b'1 2', b'\\', b'nul', b'{', b'}', b'[' * 1100]


def mutate(rng, line):
    r = rng.random()
    b = bytearray(line)
    if r < 0.12:
        return bytes(rng.choice([b' ', b'\t', b'\r', b'  ', b'\x0b', b' \t'])) + line
    if r < 0.2:
        return line + rng.choice([b'\r', b' ', b' \r', b'\t', b'  ', b'\x0c'])
    if r < 0.32:     # broken JSON as data part
        f = line.split(b' ', 2)
        while len(f) < 2:
            f.append(rng.choice([b'm:value', b'x', b'']))
        return b' '.join(f[:2] + [rng.choice(BAD_JSON)])
    if r < 0.42:     # invalid UTF-8 somewhere
        p = rng.randint(0, len(b))
        return bytes(b[:p]) + rng.choice(BAD_UTF8) + bytes(b[p:])
    if r < 0.5:      # valid non-ASCII somewhere
        p = rng.randint(0, len(b))
        return bytes(b[:p]) + rng.choice(GOOD_UTF8) + bytes(b[p:])
    if r < 0.6 and b:      # replace a byte
        b[rng.randrange(len(b))] = rng.choice(BYTES_OF_INTEREST)
        return bytes(b)
    if r < 0.68 and b:     # delete a byte
        del b[rng.randrange(len(b))]
        return bytes(b)
    if r < 0.76:     # insert a byte
        b.insert(rng.randint(0, len(b)), rng.choice(BYTES_OF_INTEREST))
        return bytes(b)
    if r < 0.82:     # extra field / doubled blank
        p = line.find(b' ')
        return line + b' extra' if p < 0 or rng.random() < 0.5 else line[:p] + b' ' + line[p:]
    if r < 0.835:    # long line (longer than one recv)
        n = rng.choice([1000, 1023, 1024, 1025, 2100])
        return line + b' ' * 1 + b'"' + b'x' * n + (b'"' if rng.random() < 0.6 else b'')
    if r < 0.9:
        return rng.choice([b'ping x ', b'read m:value ', b'change m:_txt ']) + b'[' * rng.choice([5, 40, 40, 200, 200, 1500]) + \
            (b']' * 5 if rng.random() < 0.5 else b'')
    if r < 0.95:     # mutated action colliding with handler names
        return rng.choice([b'request', b'_ident', b'help', b'_ident ', b'__class__', b'request ', b'', b'*IDN? x', b'*IDN?  1']) + \
            rng.choice([b'', b' x', b' x 1', b' x {bad'])
    return line


def rand_stream(rng):
    n = rng.choice([1, 1, 2, 2, 3, 3, 4, 5, 7])
    lines = []
    for _ in range(n):
        ln = rng.choice(VALID)
        if ln in BULKY and rng.random() < 0.9:
            ln = rng.choice(VALID)
        if rng.random() < 0.12:
            ln = uni_line(rng)
        k = rng.random()
        if k < 0.55:
            ln = mutate(rng, ln)
            if rng.random() < 0.25:
                ln = mutate(rng, ln)
        lines.append(ln)
    eol = b'\r\n' if rng.random() < 0.15 else b'\n'
    stream = eol.join(lines) + (eol if rng.random() < 0.8 else b'')
    return stream


def rand_cuts(rng, stream):
    n = len(stream)
    if n <= 1 or rng.random() < 0.1:
        return [stream]
    style = rng.random()
    if style < 0.3:
        k = rng.randint(1, min(6, n - 1))
    elif style < 0.6:
        k = rng.randint(1, min(25, n - 1))
    else:
        k = min(n - 1, max(1, n // rng.choice([1, 2, 3, 7])))
    k = min(k, 40)
    cuts = sorted(rng.sample(range(1, n), k))
    return [stream[a:b] for a, b in zip([0] + cuts, cuts + [n])]


OTHER_SCRIPTS = [
    [b'ping b\n'], [b'*IDN?\n', b'read m2:value\n'], [b'change m2:target 5\n'], [b'activate m2\n', b'change m2:target 6\nping z\n'],
    [b'\xff {bad\n', b'describe m2\n'], [b'change m2:tar', b'get 7\n\n'], [b'ping unterminated'],
]


def stream_case(rng, stream=None, cuts=None):
    stream = rand_stream(rng) if stream is None else stream
    chunks = rand_cuts(rng, stream) if cuts is None else cuts
    script = []
    for c in chunks:
        if rng.random() < 0.05:
            script.append(None)
        script.append(hx(c))
    others = []
    if rng.random() < 0.35:
        nrecv = len([c for c in script]) + 1
        for at in sorted(rng.sample(range(nrecv), min(nrecv, rng.choice([1, 1, 2])))):
            others.append([at, [hx(x) for x in rng.choice(OTHER_SCRIPTS)]])
    return {'kind': 'stream', 'chunks': script, 'others': others}


def all_segmentations(stream):
    n = len(stream)
    for mask in range(1 << max(0, n - 1)):
        cuts = [i + 1 for i in range(n - 1) if mask >> i & 1]
        yield [stream[a:b] for a, b in zip([0] + cuts, cuts + [n])]


SHORT_STREAMS = [b'ping\n\xff\n', b' a {\nping\n', b'\n\r\n \n', b'a\nb c\n', b'\xc3\xa9 x {\n', b'_ident\n', b'ping x 1\n',
                 b'*IDN?\n\n', b'a b [1]\nc', b'\xe2\x80\xa8\n\n', b'help\r\n\xc3\n']
JSON_VALUES = [None, True, 0, -1, 1.5, 'x', '', ' ', 'a b', '\u00e9', '\u00a0', [], [1, [2, {}]], {}, {'a': None, 'b': [1.0]},
               1e300, 12345678901234567890, '"', '\\', ' lead', 'trail ', [[]], {'t': 1.0}, '\x00', '\U0001f600', '\u20ac\u2028',
               {'\u00e9': ['\U0010ffff']}, '\ud800', 'x\udfffy', {'\ud800': 1}, ['\ud83d\ude00'], '\ude00\ud83d']
N_LONE = 5      # the last N_LONE values hold lone surrogates (no round trip demanded: they are no text)
TOK_CHARS = 'abzAZ09_:.*?-+&,\u00e9\u20ac\U0001f600\x00\x7f\xad'
WILD_CHARS = TOK_CHARS + (' \t\n\r\x0b\x0c\x1c\x1d\x1e\x1f\x85\xa0\u1680\u2000\u200a\u200b\u2028\u2029\u202f\u205f\u3000'
                          '\ufeff\u180e\x1b\x84\x86\u2007\u2060\ud800\udfff')


def rand_token(rng, chars, lo=0, hi=6):
    return ''.join(rng.choice(chars) for _ in range(rng.randint(lo, hi)))


def codec_cases(rng, n):
    cases = []
    for _ in range(n):
        r = rng.random()
        if r < 0.3:     # well-formed triple: round trip demanded
            a = rand_token(rng, TOK_CHARS, 1, 8)
            s = rand_token(rng, TOK_CHARS, 1, 8) if rng.random() < 0.7 else None
            d = rng.choice(JSON_VALUES[:-N_LONE]) if rng.random() < 0.7 else None
            if isinstance(d, float) and d != d:
                d = None
            cases.append({'kind': 'encode', 'wf': True, 'triple': [a, s, d]})
        elif r < 0.55:  # wild triple
            a = rand_token(rng, WILD_CHARS, 0, 5)
            s = rand_token(rng, WILD_CHARS, 0, 5) if rng.random() < 0.7 else None
            d = rng.choice(JSON_VALUES) if rng.random() < 0.6 else None
            cases.append({'kind': 'encode', 'wf': False, 'triple': [a, s, d]})
        else:           # decode of wild bytes
            parts = []
            for _ in range(rng.randint(0, 5)):
                k = rng.random()
                parts.append(rng.choice(GOOD_UTF8) if k < 0.2 else rng.choice(BAD_UTF8) if k < 0.3 else
                             bytes([rng.choice(BYTES_OF_INTEREST)]) if k < 0.5 else
                             rng.choice([b'a', b'read', b'm:value', b'[1, 2]', b'{"a": 1}', b'{bad', b'""', b'1e999', b'NaN',
                                         b' ', b'  ', b'\t', b'\r', b'[' * 1200]))
            sep = rng.choice([b' ', b' ', b'', b'  '])
            cases.append({'kind': 'decode', 'line': hx(sep.join(parts))})
    return cases


def illformed_sequences():
    """catalogue of UTF-8 byte sequences around every decision of the decoder (lead byte class x admissible / inadmissible
    second byte x truncation), used in action and specifier of undecodable request lines (error echo with replacement)"""
    leads = [0x80, 0xbf, 0xc0, 0xc1, 0xc2, 0xdf, 0xe0, 0xe1, 0xec, 0xed, 0xee, 0xef, 0xf0, 0xf1, 0xf3, 0xf4, 0xf5, 0xff]
    seconds = [None, 0x7f, 0x80, 0x8f, 0x90, 0x9f, 0xa0, 0xbf, 0xc2]
    thirds = [None, 0x41, 0x80, 0xbf]
    fourths = [None, 0x41, 0x80]
    seen, out = set(), []
    for a in leads:
        for b in seconds:
            for c in thirds:
                for d in fourths:
                    q = [a]
                    for x in (b, c, d):
                        if x is None:
                            break
                        q.append(x)
                    q = bytes(q)
                    if q not in seen:
                        seen.add(q)
                        out.append(q)
    return out


def echo_cases(rng, n_lines, per_stream=16):
    seqs = illformed_sequences()
    if n_lines < len(seqs):
        seqs = rng.sample(seqs, n_lines)
    lines = []
    for q in seqs:
        form = rng.randrange(4)
        if form == 0:
            lines.append(b'a' + q + b'b x' + q + b' {bad')
        elif form == 1:
            lines.append(q + b' ' + q + b' [1')
        elif form == 2:
            lines.append(b' r' + q + b' m:' + q + b'v ' + q)
        else:
            lines.append(b'r\xc3\xa9ad' + q + b' m\xc3\xb6d:value' + q + b' {bad')
    cases = []
    for k in range(0, len(lines), per_stream):
        cases.append({'kind': 'stream', 'chunks': [hx(b'\n'.join(lines[k:k + per_stream]) + b'\n')], 'others': []})
    return cases


def unicode_cases(rng, n):
    """streams in which every line carries escaped / raw non-ASCII text in its data or specifier, between two pings (a
    handler that dies on such a line leaves the later ones unanswered); some after `activate` so that the value also
    travels in update events"""
    cases = []
    fixed = list(UNI_FIXED)
    for k in range(n):
        lines = [b'ping a']
        if rng.random() < 0.25:
            lines.append(rng.choice([b'activate', b'activate m', b'activate m:utxt']))
        for _ in range(rng.choice([1, 1, 2, 3])):
            lines.append(fixed.pop() if fixed else uni_line(rng))
        if rng.random() < 0.5:
            lines.append(rng.choice([b'read m:_utxt', b'read m:_st', b'ping b', b'describe m:_utxt']))
        stream = b'\n'.join(lines) + b'\n'
        cases.append(stream_case(rng, stream, None if rng.random() < 0.5 else [stream]))
    return cases


CONC_SCRIPTS = [b'activate\n', b'ping a\nhelp\n', b'read m:value\nping b\n', b'change m:target 3\nping c\n', b'\n',
                b'activate m\nread m2:value\n', b'*IDN?\ndescribe\n', b'ping x\n', b'activate\nchange m2:target 5\n', b'']
CONC_SIZES = [1, 2, 3, 5, 8, 13, 20, 64, 1000]
CONC_EXC = ['BrokenPipeError', 'OSError', 'timeout', 'ConnectionResetError', 'ValueError', 'RuntimeError']


def conc_case(rng, k):
    nconn = rng.choice([1, 1, 2, 2, 3])
    conns = []
    for _ in range(nconn):
        script = rng.choice(CONC_SCRIPTS)
        cuts = sorted(rng.sample(range(1, len(script)), min(len(script) - 1, rng.choice([0, 0, 1, 2])))) if len(script) > 1 else []
        conns.append([hx(script[a:b]) for a, b in zip([0] + cuts, cuts + [len(script)]) if b > a])
    writes = [[rng.choice(CONC_SIZES) for _ in range(rng.randint(1, 4))] for _ in range(nconn)]
    senders = []
    serial = 0
    for j in range(rng.choice([1, 2, 2, 3])):
        prog = []
        for _ in range(rng.randint(1, 5)):
            serial += 1
            kind = rng.choice(['send', 'send', 'bcast', 'log', 'update'])
            if kind == 'send':
                prog.append(['send', rng.randrange(nconn), ['update', rng.choice(['m:value', 'm2:target']),
                                                            [serial, {'t': 1.5, 's': f's{j}'}]]])
            elif kind == 'bcast':
                prog.append(['bcast', ['update', 'm:status', [[100, f'n{serial}'], {}]]])
            elif kind == 'log':
                prog.append(['log', rng.randrange(nconn), rng.choice(['m', 'm2']), rng.choice(['info', 'debug', 'error']),
                             f'text {serial} \u00e9 "q"'])
            else:
                prog.append(['update', rng.choice(['m', 'm2']), serial])
        senders.append(prog)
    case = {'kind': 'conc', 'conns': conns, 'writes': writes, 'senders': senders, 'seed': rng.randrange(1 << 30),
            'stick': rng.choice([0.0, 0.3, 0.6, 0.8]), 'n': k}
    if rng.random() < 0.4:
        case['fail'] = {str(rng.randrange(nconn)): [rng.randrange(0, 14), rng.choice(CONC_EXC)]}
    return case


def gen_cases(seed, tier):
    rng = random.Random(seed * 1000003 + 7)
    n_stream = {'quick': 1700, 'thorough': 14000, 'search': 30000}[tier]
    n_codec = {'quick': 1400, 'thorough': 6000, 'search': 5000}[tier]
    cases = [stream_case(rng) for _ in range(n_stream)]
    cases.extend(codec_cases(rng, n_codec))
    cases.extend(echo_cases(rng, {'quick': 480}.get(tier, 10000)))
    cases.extend(unicode_cases(rng, {'quick': 260, 'thorough': 2000, 'search': 5000}[tier]))
    for k in range({'quick': 12}.get(tier, 60)):
        cases.append({'kind': 'threads', 'chunks': [hx(b'help\nping a\n'), hx(b'\nping b\nhelp\n')][:1 + k % 2],
                      'pause': [0.0003, 0.001, 0.0001][k % 3], 'n': k})
    crng = random.Random(seed * 7919 + 13)
    for k in range({'quick': 120, 'thorough': 1500, 'search': 1500}[tier]):
        cases.append(conc_case(crng, k))
    # exhaustive segmentations of short streams
    limit = 9 if tier == 'quick' else 12
    for s in SHORT_STREAMS:
        if len(s) > limit:
            s = s[:limit]
        for chunks in all_segmentations(s):
            cases.append({'kind': 'stream', 'chunks': [hx(c) for c in chunks], 'others': []})
    if tier != 'quick':
        for _ in range(30):
            s = rand_stream(rng)[:11]
            for chunks in all_segmentations(s):
                cases.append({'kind': 'stream', 'chunks': [hx(c) for c in chunks], 'others': []})
        for n in (5000, 30000):
            cases.append({'kind': 'stream', 'others': [],
                          'chunks': [hx(b'ping x "' + b'y' * n + b'"\nping\n'), hx(b'read m:value ' + b'[' * n + b'\n')]})
    return cases


def shrink(case):
    if case['kind'] != 'stream':
        return
    if case.get('others'):
        yield dict(case, others=[])
    stream = stream_bytes(case)
    if len([c for c in case['chunks'] if c is not None]) > 1 or None in case['chunks']:
        yield dict(case, chunks=[hx(stream)])
    lines = stream.split(b'\n')
    for i in range(len(lines)):
        rest = lines[:i] + lines[i + 1:]
        if rest:
            yield dict(case, chunks=[hx(b'\n'.join(rest))], others=[])
    for i, ln in enumerate(lines):
        if len(ln) > 8:
            for cut in (ln[:len(ln) // 2], ln[len(ln) // 2:], ln[:-1], ln[1:]):
                yield dict(case, chunks=[hx(b'\n'.join(lines[:i] + [cut] + lines[i + 1:]))], others=[])
