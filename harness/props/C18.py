"""C18 — linked parameters (StructParam, FloatEnumParam, Limit parameters, control hand-over):
implementation driver, case encoder, direct oracle, generators"""
import itertools
import random

from harness import gal

ID = 'C18'
MODEL_TARGETS = ['theories/C18/Run.vo']
PROOF_TARGETS = ['theories/C18/Properties.vo']
PROPERTIES_V = 'theories/C18/Properties.v'
IMPORTS = 'Require Import FV.Gen.C18 FV.C18.Model FV.C18.Run.'
CASE_TYPE = 'case'
CHECK = 'check_case'
SHARD_SIZE = 200
RULE = ('four case kinds, each a generated layout + an operation history of depth 1..8 run on a freshly built real module '
        '(client operations through the real Dispatcher._setParameterValue/_getParameterValue, driver operations through '
        'the wrapped read_/write_ methods, attribute assignment, update_target, a change of the fake hardware or of its fault script): '
        'st = struct of 1..3 members, with combined read_/write_ (both, read only, write only) or with per-member '
        'read_/write_ subsets, user methods raising per script (HardwareError on read, RangeError on write) also in the middle of the '
        'generated struct read/write loops, a user written write_<struct> whose hardware coerces members per script (member, requested '
        'value -> stored value, seldom outside the member range; the script changes inside the history; member and struct writes ask '
        'for coerced values); fe = float/enum pair over 1..5 labels (implicit/explicit indices, explicit/parsed values, '
        'ties, descending tables, with/without read_idx, write_idx absent / plain / following a script that takes the requested index '
        'over, sets ANOTHER index instead (locked out range) or raises; the script changes inside the history); li = base parameter with every non-empty subset of '
        '{_min,_max,_limits} plus a LimitsType parameter, in class layouts of 1..3 classes (MRO order): everything in one class, '
        'parameter (with/without a check_<p> of the programmer) in an ancestor and the limits in a subclass, limits in a plain mixin, '
        'limits split over / repeated in several classes, intermediate classes with a check_<p>; co = 1..3 controllers registered in random name order on one output, each '
        'plain / writing the output target on switch-off (picontrol style) / raising on switch-off per script. '
        'After every operation the result, the update events (value and error updates) in order and the cached values and error flags '
        'of all parameters are compared with the model.  A case is non-trivial when at least one operation produced an update event; '
        'distinct = distinct (kind, layout, ops).  On top of the seeded random histories: exhaustive histories over 6-9 letter '
        'alphabets on 16 representative layouts, depth <= 2 in quick, depth <= 4 in thorough (<= 3 for the coercing struct and the class layouts).')
ASSUMPTIONS = [
    'omit_unchanged_within = 0 (every announceUpdate is delivered); single thread except the cs cases: two real threads under harness/dsched.py, '
    'accessLock/updateLock replaced by scheduler RLocks (a thread switch is possible at every lock acquisition, thread start and join only); '
    'the model schedule of a cs case is the order in which the threads got the accessLock',
    'member / limit / target values are integers inside the generated ranges or one step outside; FloatEnum values are multiples of 0.5 '
    '(python float arithmetic on them is exact), explicit enum indices are strictly increasing',
    'user read_/write_ methods of the fake driver store exactly what they are given; they raise only as scripted (one error kind per '
    'direction: HardwareError on read, RangeError on write); a parameter in error state (last update was an error update) is not '
    'compared by the oracle',
    'check_<p> methods written by the programmer (limits layouts) raise RangeError for value % 4 == 3 and return None otherwise (a check '
    'returning True stops the chain by design and is not generated); one written in a class that itself defines a limit parameter '
    'calls self.checkLimits(value, <p>) as the docstring of checkLimits asks (it replaces the generated check by design); a limit '
    'parameter never stands deeper in the MRO than its base parameter (frappy refuses to build such a module)',
    'the coercion script of the struct fake hardware applies to a user written write_<struct> only (it returns what the hardware holds)',
    'the label parser (regex + float()) of FloatEnumParam is python runtime: the parsed number enters the model as data',
    'a scripted write_<idx> of the FloatEnum fake driver answers with an index of the table (never an invalid one) or raises '
    'HardwareError before it stores anything; the oracle is told by the fake driver which index it was asked for and which it set',
]


# ------------------------------------------------------------------ implementation driver
class _Log:
    handlers = []

    def __getattr__(self, name):
        return lambda *a, **k: None


def _num(x, scale=1):
    """canonical integer of a python number (bool/int/float/EnumMember); floats must be integral after scaling"""
    if isinstance(x, bool):
        return int(x)
    if isinstance(x, int):
        return x * scale
    if isinstance(x, float):
        y = x * scale
        if y != int(y):
            raise ValueError(f'not representable: {x!r}')
        return int(y)
    return int(x) * scale      # EnumMember


def _err(e):
    return {'err': type(e).__name__}


class _Env:
    """real Dispatcher around a minimal server / secnode stub; one recording connection"""

    def __init__(self):
        from frappy.protocol.dispatcher import Dispatcher
        env = self

        class SecNode:
            def __init__(self):
                self.modules = {}

            def get_module(self, name):
                return self.modules.get(name)

        class Conn:
            def send_reply(self, msg):
                env.msgs.append(msg)

        self.msgs = []
        self.secnode = SecNode()
        self.restart = self.shutdown = None
        self.dispatcher = Dispatcher('dispatcher', _Log(), {}, self)
        self.dispatcher._active_connections.add(Conn())

    def add(self, cls, name, cfg=None):
        m = cls(name, _Log(), dict(cfg or {}, description='x'), self)
        self.secnode.modules[name] = m
        return m

    def init(self, m):
        m.earlyInit()
        m.initModule()

    def change(self, mod, pname, value):
        return self.dispatcher._setParameterValue(mod.name, mod.parameters[pname].export, value)[0]

    def read(self, mod, pname):
        return self.dispatcher._getParameterValue(mod.name, mod.parameters[pname].export)[0]

    def take(self):
        """update events since the last call: [(module, exported name, value or None, error name or None)]"""
        res = []
        for m in self.msgs:
            modname, pname = m[1].split(':')
            if m[0] == 'update':
                res.append([modname, pname, m[2][0], None])
            else:
                res.append([modname, pname, None, m[2][0]])
        del self.msgs[:]
        return res


def _attempt(fn):
    try:
        return {'ok': fn()}
    except Exception as e:            # every exception of the code under test is data
        return _err(e)


def run_case(case):
    from frappy.lib import generalConfig
    saved = generalConfig._config
    generalConfig.testinit(omit_unchanged_within=0)
    try:
        return {'st': _run_st, 'fe': _run_fe, 'li': _run_li, 'co': _run_co, 'mo': _run_mo, 'cs': _run_cs}[case['kind']](case)
    finally:
        generalConfig._config = saved


MEMBERS = 'abc'
ST_LO, ST_HI = -100, 100


def _run_st(case):
    from frappy.core import IntRange, Module, Parameter
    from frappy.extparams import StructParam
    L = case['layout']
    n, prefix = L['n'], L['prefix']
    names = [prefix + MEMBERS[i] for i in range(n)]
    ns = {'st': StructParam('struct', {MEMBERS[i]: Parameter(MEMBERS[i], IntRange(ST_LO, ST_HI)) for i in range(n)},
                            prefix, readonly=False)}
    from frappy.errors import HardwareError, RangeError

    def flag(lst, i):
        return i < len(lst) and lst[i]

    if L['rw']:
        if L['sr']:
            def read_st(self):
                if flag(self.frd, 0):
                    raise HardwareError('scripted')
                return {MEMBERS[i]: self.hw[i] for i in range(n)}
            ns['read_st'] = read_st
        if L['sw']:
            def write_st(self, value):
                if flag(self.fwr, 0):
                    raise RangeError('scripted')
                # the hardware rounds / clamps per script (first matching entry [member, requested, stored]) and the
                # method returns what the hardware holds, as drivers do
                def stored(i, v):
                    for j, a, b in self.csc:
                        if j == i and a == v:
                            return b
                    return v
                self.hw = [stored(i, int(value[MEMBERS[i]])) for i in range(n)]
                return {MEMBERS[i]: self.hw[i] for i in range(n)}
            ns['write_st'] = write_st
    else:
        for i in range(n):
            if L['mr'][i]:
                def rm(self, i=i):
                    if flag(self.frd, i):
                        raise HardwareError('scripted')
                    return self.hw[i]
                ns['read_' + names[i]] = rm
            if L['mw'][i]:
                def wm(self, value, i=i):
                    if flag(self.fwr, i):
                        raise RangeError('scripted')
                    self.hw[i] = int(value)
                    return self.hw[i]
                ns['write_' + names[i]] = wm
    cls = type('StMod', (Module,), ns)
    env = _Env()
    m = env.add(cls, 'm')
    m.hw = [0] * n
    m.frd, m.fwr = [], []
    m.csc = []
    env.init(m)
    pid = {'_st': 0}
    for i, nm in enumerate(names):
        pid['_' + nm] = i + 1

    def sval(d):
        return [_num(d[MEMBERS[i]]) for i in range(n)]

    def snap():
        return [sval(m.st), [_num(getattr(m, nm)) for nm in names],
                [int(isinstance(m.parameters[p].readerror, HardwareError)) for p in ['st'] + names]]

    def events():
        res = []
        for mod, p, v, e in env.take():
            if e == 'HardwareError' and p in pid:
                res.append([100 + pid[p], []])
            elif e is not None:
                res.append([99, [], e])
            else:
                res.append([pid.get(p, 98), sval(v) if p == '_st' else [_num(v)]])
        return res

    def todict(v):
        return {MEMBERS[i]: v[i] for i in range(n)}

    env.take()
    init = snap()
    steps = []
    for op in case['ops']:
        k = op[0]
        if k == 'readS':
            r = _attempt(lambda: sval(env.read(m, 'st') if op[1] == 'c' else m.read_st()))
        elif k == 'readM':
            nm = names[op[1]]
            r = _attempt(lambda: [_num(env.read(m, nm) if op[2] == 'c' else getattr(m, 'read_' + nm)())])
        elif k == 'writeS':
            r = _attempt(lambda: sval(env.change(m, 'st', todict(op[1])) if op[2] == 'c' else m.write_st(todict(op[1]))))
        elif k == 'writeM':
            nm = names[op[1]]
            r = _attempt(lambda: [_num(env.change(m, nm, op[2]) if op[3] == 'c' else getattr(m, 'write_' + nm)(op[2]))])
        elif k == 'setS':
            r = _attempt(lambda: setattr(m, 'st', todict(op[1])) or [])
        elif k == 'setM':
            r = _attempt(lambda: setattr(m, names[op[1]], op[2]) or [])
        elif k == 'hw':
            m.hw = list(op[1])
            r = {'ok': []}
        elif k == 'fault':
            m.frd, m.fwr = list(op[1]), list(op[2])
            r = {'ok': []}
        elif k == 'coerce':
            m.csc = [list(e) for e in op[1]]
            r = {'ok': []}
        else:
            raise ValueError(op)
        steps.append({'res': r, 'events': events(), 'snap': snap(), 'hw': list(m.hw)})
    return {'init': init, 'steps': steps}


def _fe_labels(L):
    res = []
    for lab in L['labels']:
        text = lab['label']
        if lab['val'] is not None:
            elem = (text, lab['val'] / 2) if lab['idx'] is None else (lab['idx'], text, lab['val'] / 2)
        else:
            elem = text if lab['idx'] is None else (lab['idx'], text)
        res.append(elem)
    return res


def _run_fe(case):
    from frappy.core import Module
    from frappy.extparams import FloatEnumParam
    L = case['layout']
    ns = {'g': FloatEnumParam('float with index', _fe_labels(L), '')}
    if L['ri']:
        ns['read_g_idx'] = lambda self: self.hwi
    from frappy.errors import HardwareError
    if L['wi'] in (1, 2):
        def write_g_idx(self, value, mode=L['wi']):
            self.hwi = int(value)
            self.drv.append([int(value), self.hwi])
            return None if mode == 1 else self.hwi
        ns['write_g_idx'] = write_g_idx
    elif L['wi']:
        # scripted hardware: a requested range may be locked out -> the driver sets another index and returns the index
        # really set, or it raises
        def write_g_idx(self, value):
            k = int(value)
            for req, act in self.scr:
                if req == k:
                    if act is None:
                        self.drv.append([k, None])
                        raise HardwareError('scripted: range refused')
                    k2 = act
                    break
            else:
                k2 = k
            self.hwi = k2
            self.drv.append([k, k2])
            return k2
        ns['write_g_idx'] = write_g_idx
    cls = type('FeMod', (Module,), ns)
    env = _Env()
    m = env.add(cls, 'm')
    m.hwi = int(m.parameters['g_idx'].value)
    m.scr = []
    m.drv = []         # log of the fake driver: [requested index, index set or None when it raised]
    env.init(m)
    m.drv = []
    pid = {'_g': 0, '_g_idx': 1}

    def snap():
        return [[_num(m.parameters['g'].value, 2)], [int(m.parameters['g_idx'].value)], [_num(m.g, 2)]]

    def events():
        res = []
        for mod, p, v, e in env.take():
            if e is not None:
                res.append([99, [], e])
            else:
                res.append([pid.get(p, 98), [_num(v, 2 if p == '_g' else 1)]])
        return res

    env.take()
    init = snap()
    steps = []
    for op in case['ops']:
        k = op[0]
        if k == 'writeF':
            r = _attempt(lambda: [_num(env.change(m, 'g', op[1] / 2) if op[2] == 'c' else m.write_g(op[1] / 2), 2)])
        elif k == 'writeI':
            r = _attempt(lambda: [_num(env.change(m, 'g_idx', op[1]) if op[2] == 'c' else m.write_g_idx(op[1]))])
        elif k == 'readF':
            r = _attempt(lambda: [_num(env.read(m, 'g') if op[1] == 'c' else m.read_g(), 2)])
        elif k == 'readI':
            r = _attempt(lambda: [_num(env.read(m, 'g_idx') if op[1] == 'c' else m.read_g_idx())])
        elif k == 'setI':
            r = _attempt(lambda: setattr(m, 'g_idx', op[1]) or [])
        elif k == 'setF':
            r = _attempt(lambda: setattr(m, 'g', op[1] / 2) or [])
        elif k == 'hwI':
            m.hwi = op[1]
            r = {'ok': []}
        elif k == 'script':
            m.scr = [list(e) for e in op[1]]
            r = {'ok': []}
        else:
            raise ValueError(op)
        steps.append({'res': r, 'events': events(), 'snap': snap(), 'drv': m.drv,
                      'errs': [p for p in ('g', 'g_idx') if m.parameters[p].readerror]})
        m.drv = []
    return {'init': init, 'steps': steps}


def li_classes(L):
    """the class hierarchy of a limits layout, MRO order (module class first).  Layouts written before class layouts
    existed name only which limit parameters exist: one class defining everything"""
    if L.get('classes'):
        return L['classes']
    return [{'acc': True, 'param': True, 'user': 0, 'min': bool(L.get('min')), 'max': bool(L.get('max')),
             'lim': bool(L.get('lim'))}]


def li_has(L, key):
    return any(c[key] for c in li_classes(L))


def _li_build(L):
    """create the real classes: the list is the MRO, most derived first; a class with acc derives from the next class
    with acc (or from Module) and has the plain mixins standing between them as leading bases:
    [K0, m1, m2, K1, m3]  ->  class K1(m3, Module); class K0(m1, m2, K1)"""
    from frappy.core import FloatRange, IntRange, Module, Parameter
    from frappy.datatypes import LimitsType
    from frappy.errors import RangeError
    from frappy.params import Limit
    mk = (lambda: IntRange(L['lo'], L['hi'])) if L['base'] == 'int' else (lambda: FloatRange(L['lo'], L['hi']))
    classes = li_classes(L)
    if not classes[0]['acc']:
        raise ValueError('the module class must derive from Module')
    prev, pending, built = Module, [], []
    for j in range(len(classes) - 1, -1, -1):
        c = classes[j]
        ns = {}
        if c['param']:
            ns['a'] = Parameter('base', mk(), readonly=False, default=0)
            ns['rng'] = Parameter('range', LimitsType(mk()), readonly=False, default=(0, 0))
        for key, nm in (('min', 'a_min'), ('max', 'a_max'), ('lim', 'a_limits')):
            if c[key]:
                ns[nm] = Limit()
        if c['user']:
            def check_a(self, value, kind=c['user']):
                # a plausibility test of the programmer; kind 2: he calls the limit check himself
                if value % 4 == 3:
                    raise RangeError('implausible value')
                if kind >= 2:
                    self.checkLimits(value, 'a')
            ns['check_a'] = check_a
        if c['acc']:
            k = type(f'Li{j}', tuple(pending) + (prev,), ns)
            prev, pending = k, []
        else:
            k = type(f'LiMix{j}', (), ns)
            pending.insert(0, k)
        built.insert(0, k)
    return prev, built


def _run_li(case):
    L = case['layout']
    cls, built = _li_build(L)
    # the model lists the classes in MRO order: check what python made of the bases
    mro = [k for k in cls.__mro__ if k in built]
    if mro != built:
        raise ValueError(f'MRO {mro} differs from the layout {built}')
    L = {'lo': L['lo'], 'hi': L['hi'], 'min': li_has(L, 'min'), 'max': li_has(L, 'max'), 'lim': li_has(L, 'lim')}
    env = _Env()
    m = env.add(cls, 'm')
    env.init(m)
    pid = {'_a': 0, '_a_min': 1, '_a_max': 2, '_a_limits': 3, '_rng': 4}

    def snap():
        return [[_num(m.a)],
                [_num(m.a_min) if L['min'] else L['lo']],
                [_num(m.a_max) if L['max'] else L['hi']],
                [_num(x) for x in m.a_limits] if L['lim'] else [L['lo'], L['hi']],
                [_num(x) for x in m.rng]]

    def events():
        res = []
        for mod, p, v, e in env.take():
            if e is not None:
                res.append([99, [], e])
            else:
                res.append([pid.get(p, 98), [_num(x) for x in v] if isinstance(v, (list, tuple)) else [_num(v)]])
        return res

    def write(pname, value, by):
        r = env.change(m, pname, value) if by == 'c' else getattr(m, 'write_' + pname)(value)
        return [_num(x) for x in r] if isinstance(r, (list, tuple)) else [_num(r)]

    env.take()
    init = snap()
    steps = []
    names = {'writeA': 'a', 'writeMin': 'a_min', 'writeMax': 'a_max', 'setMin': 'a_min', 'setMax': 'a_max'}
    for op in case['ops']:
        k = op[0]
        if k in ('writeA', 'writeMin', 'writeMax'):
            r = _attempt(lambda: write(names[k], op[1], op[2]))
        elif k == 'writeLim':
            r = _attempt(lambda: write('a_limits', [op[1], op[2]], op[3]))
        elif k == 'writeRng':
            r = _attempt(lambda: write('rng', [op[1], op[2]], op[3]))
        elif k in ('setMin', 'setMax'):
            r = _attempt(lambda: setattr(m, names[k], op[1]) or [])
        elif k == 'setLim':
            r = _attempt(lambda: setattr(m, 'a_limits', (op[1], op[2])) or [])
        else:
            raise ValueError(op)
        steps.append({'res': r, 'events': events(), 'snap': snap(),
                      'errs': [p for p in m.parameters if m.parameters[p].readerror and '_' + p in pid]})
    return {'init': init, 'steps': steps}


_CO_CLASSES = {}


def _co_classes():
    if not _CO_CLASSES:
        from frappy.core import FloatRange, Parameter, Writable
        from frappy.mixins import HasControlledBy, HasOutputModule

        class Out(HasControlledBy, Writable):
            value = Parameter('v', FloatRange(), default=0)
            target = Parameter('t', FloatRange(), default=0)

            def write_target(self, value):
                self.self_controlled()
                return value

        class Ctl(HasOutputModule, Writable):
            value = Parameter('v', FloatRange(), default=0)
            target = Parameter('t', FloatRange(), default=0)

            def write_target(self, value):
                self.activate_control()
                return value

        from frappy.errors import HardwareError

        class CtlSafe(Ctl):
            # like frappy_psi.picontrol: switching control off puts the output to a safe value first
            def set_control_active(self, active):
                if not active:
                    self.output_module.write_target(0)
                super().set_control_active(active)

        class CtlFail(Ctl):
            # the hardware may not answer when control is to be switched off
            fail = False

            def set_control_active(self, active):
                if not active and self.fail:
                    raise HardwareError('scripted: no answer')
                super().set_control_active(active)

        _CO_CLASSES['out'], _CO_CLASSES['ctl'] = Out, [Ctl, CtlSafe, CtlFail]
    return _CO_CLASSES['out'], _CO_CLASSES['ctl']


def _run_co(case):
    Out, Ctl = _co_classes()
    L = case['layout']
    names = L['names']            # controller names in registration order
    env = _Env()
    out = env.add(Out, 'out')
    kinds = L.get('kinds') or [0] * len(names)
    ctl = [env.add(Ctl[kd], nm, {'output_module': 'out'}) for nm, kd in zip(names, kinds)]
    env.init(out)
    for c in ctl:                 # initModule registers the input on the output
        env.init(c)
    pid = {('out', 'controlled_by'): 0, ('out', 'target'): 1}
    for j, nm in enumerate(names):
        pid[(nm, 'control_active')] = 10 + 2 * j
        pid[(nm, 'target')] = 11 + 2 * j

    def snap():
        return [[int(out.controlled_by)], [int(bool(c.control_active)) for c in ctl], [_num(out.target)],
                [_num(c.target) for c in ctl]]

    def events():
        res = []
        for mod, p, v, e in env.take():
            if e is not None:
                res.append([99, [], e])
            else:
                res.append([pid.get((mod, p), 98), [_num(v)]])
        return res

    env.take()
    init = snap()
    steps = []
    for op in case['ops']:
        k = op[0]
        if k == 'writeT':
            c = ctl[op[1]]
            r = _attempt(lambda: [_num(env.change(c, 'target', op[2]) if op[3] == 'c' else c.write_target(op[2]))])
        elif k == 'writeO':
            r = _attempt(lambda: [_num(env.change(out, 'target', op[1]) if op[2] == 'c' else out.write_target(op[1]))])
        elif k == 'updT':
            r = _attempt(lambda: out.update_target(names[op[1]], op[2]) or [])
        elif k == 'cfault':
            for c, f in zip(ctl, op[1]):
                c.fail = bool(f)
            r = {'ok': []}
        else:
            raise ValueError(op)
        steps.append({'res': r, 'events': events(), 'snap': snap(),
                      'by_name': out.controlled_by.name, 'members': dict(out.parameters['controlled_by'].datatype.export_datatype()['members'])})
    return {'init': init, 'steps': steps,
            'members': dict(out.parameters['controlled_by'].datatype.export_datatype()['members'])}


def _run_mo(case):
    """a node with several output modules (real HasControlledBy / HasOutputModule classes), each with its own controllers"""
    Out, Ctl = _co_classes()
    outs_l = case['layout']['outs']          # [{'names': [...], 'kinds': [...]}, ...]
    env = _Env()
    outs = [env.add(Out, f'out{k}') for k in range(len(outs_l))]
    ctl = [[env.add(Ctl[kd], nm, {'output_module': f'out{k}'}) for nm, kd in zip(o['names'], o['kinds'])]
           for k, o in enumerate(outs_l)]
    for o in outs:
        env.init(o)
    # registration: round robin over the outputs (order inside one output = the given order)
    for j in range(max(len(c) for c in ctl)):
        for cs in ctl:
            if j < len(cs):
                env.init(cs[j])
    pid = {}
    for k, o in enumerate(outs_l):
        pid[(f'out{k}', 'controlled_by')] = 100 * k
        pid[(f'out{k}', 'target')] = 100 * k + 1
        for j, nm in enumerate(o['names']):
            pid[(nm, 'control_active')] = 100 * k + 10 + 2 * j
            pid[(nm, 'target')] = 100 * k + 11 + 2 * j

    def snap():
        res = []
        for out, cs in zip(outs, ctl):
            res += [[int(out.controlled_by)], [int(bool(c.control_active)) for c in cs], [_num(out.target)],
                    [_num(c.target) for c in cs]]
        return res

    def members():
        return [dict(out.parameters['controlled_by'].datatype.export_datatype()['members']) for out in outs]

    def events():
        res = []
        for mod, p, v, e in env.take():
            if e is not None:
                res.append([99, [], e])
            else:
                res.append([pid.get((mod, p), 98), [_num(v)]])
        return res

    env.take()
    init = snap()
    steps = []
    for op in case['ops']:
        k, o = op[0], op[1]
        out = outs[o]
        if k == 'writeT':
            c = ctl[o][op[2]]
            r = _attempt(lambda: [_num(env.change(c, 'target', op[3]) if op[4] == 'c' else c.write_target(op[3]))])
        elif k == 'writeO':
            r = _attempt(lambda: [_num(env.change(out, 'target', op[2]) if op[3] == 'c' else out.write_target(op[2]))])
        elif k == 'updT':
            r = _attempt(lambda: out.update_target(outs_l[o]['names'][op[2]], op[3]) or [])
        elif k == 'cfault':
            for c, f in zip(ctl[o], op[2]):
                c.fail = bool(f)
            r = {'ok': []}
        else:
            raise ValueError(op)
        steps.append({'res': r, 'events': events(), 'snap': snap(), 'by_name': [out.controlled_by.name for out in outs]})
    return {'init': init, 'steps': steps, 'members': members()}


class _RecLock:
    """accessLock under the deterministic scheduler which records who got it (outermost acquisitions only)"""

    def __init__(self, sched, order):
        self.lock = sched.RLock()
        self.lock.name = 'accessLock'
        self.sched, self.order = sched, order

    def acquire(self, *a, **k):
        ok = self.lock.acquire(*a, **k)
        if ok and self.lock.count == 1:
            cur = self.sched.current
            self.order.append(cur.name if cur is not None else '?')
        return ok

    def release(self):
        self.lock.release()

    def __enter__(self):
        return self.acquire()

    def __exit__(self, *a):
        self.release()


def _run_cs(case):
    """two REAL threads on one module with a struct parameter without combined methods, one thread at a time under
    harness/dsched.py: switch points at every acquisition of accessLock / updateLock (announceUpdate takes updateLock
    first, so there is a switch point in front of every announceUpdate) and at thread start / join"""
    from harness import dsched
    from frappy.core import IntRange, Module, Parameter
    from frappy.extparams import StructParam
    from frappy.errors import HardwareError
    L = case['layout']
    n, prefix = L['n'], L['prefix']
    names = [prefix + MEMBERS[i] for i in range(n)]
    ns = {'st': StructParam('struct', {MEMBERS[i]: Parameter(MEMBERS[i], IntRange(ST_LO, ST_HI)) for i in range(n)},
                            prefix, readonly=False)}
    for i in range(n):
        if L['mr'][i]:
            ns['read_' + names[i]] = lambda self, i=i: self.hw[i]
        if L['mw'][i]:
            def wm(self, value, i=i):
                self.hw[i] = int(value)
                return self.hw[i]
            ns['write_' + names[i]] = wm
    cls = type('CsMod', (Module,), ns)
    env = _Env()
    m = env.add(cls, 'm')
    m.hw = [0] * n
    env.init(m)
    pid = {'_st': 0}
    for i, nm in enumerate(names):
        pid['_' + nm] = i + 1

    def sval(d):
        return [_num(d[MEMBERS[i]]) for i in range(n)]

    def snap():
        return [sval(m.st), [_num(getattr(m, nm)) for nm in names],
                [int(isinstance(m.parameters[p_].readerror, HardwareError)) for p_ in ['st'] + names]]

    def todict(v):
        return {MEMBERS[i]: v[i] for i in range(n)}

    def do(op):
        k = op[0]
        if k == 'readS':
            return sval(env.read(m, 'st') if op[1] == 'c' else m.read_st())
        if k == 'readM':
            nm = names[op[1]]
            return [_num(env.read(m, nm) if op[2] == 'c' else getattr(m, 'read_' + nm)())]
        if k == 'writeS':
            return sval(env.change(m, 'st', todict(op[1])) if op[2] == 'c' else m.write_st(todict(op[1])))
        if k == 'writeM':
            nm = names[op[1]]
            return [_num(env.change(m, nm, op[2]) if op[3] == 'c' else getattr(m, 'write_' + nm)(op[2]))]
        raise ValueError(op)

    env.take()
    init = snap()
    sched = dsched.Scheduler(dsched.Preempt(case['preempt']), max_steps=3000)
    order = []
    m.accessLock = _RecLock(sched, order)
    m.updateLock = sched.RLock()
    m.updateLock.name = 'updateLock'
    results = {'A': [], 'B': []}

    def prog(name, ops):
        for op in ops:
            results[name].append(_attempt(lambda: do(op)))

    def main():
        ta = sched.spawn(prog, 'A', 'A', case['pa'])
        tb = sched.spawn(prog, 'B', 'B', case['pb'])
        ta.join()
        tb.join()

    res = sched.run(main)
    evs = []
    for mod, p_, v, e in env.take():
        if e is not None:
            evs.append([99, [], e])
        else:
            evs.append([pid.get(p_, 98), sval(v) if p_ == '_st' else [_num(v)]])
    return {'init': init, 'steps': [], 'final': snap(), 'events': evs, 'order': order, 'results': results,
            'status': res.status, 'error': res.error, 'thread_errors': res.thread_errors, 'hw': list(m.hw),
            'decisions': list(res.decisions), 'switches': [[t, lab] for t, lab, _ in res.trace]}


# ------------------------------------------------------------------ encoding into Gallina
def zl(xs):
    return gal.lst(list(xs), gal.z)


def enc_res(r):
    if 'ok' in r:
        return f'(ROk {zl(r["ok"])})'
    return f'(RErr {gal.nat({"RangeError": 1, "HardwareError": 3}.get(r["err"], 2))})'


def enc_obs(s):
    evs = []
    for e in s['events']:
        if len(e) > 2:
            raise ValueError(f'error update from the implementation: {e}')
        evs.append(f'({gal.nat(e[0])}, {zl(e[1])})')
    return ('{| o_res := %s; o_evs := [%s]; o_snap := %s |}'
            % (enc_res(s['res']), '; '.join(evs), gal.lst(s['snap'], zl)))


def by(b):
    return gal.boolean(b == 'c')


def enc_op(kind, op):
    k = op[0]
    if kind == 'st':
        return {'readS': lambda: 'St.ReadS', 'readM': lambda: f'(St.ReadM {gal.nat(op[1])})',
                'writeS': lambda: f'(St.WriteS {zl(op[1])})', 'writeM': lambda: f'(St.WriteM {gal.nat(op[1])} {gal.z(op[2])})',
                'setS': lambda: f'(St.SetS {zl(op[1])})', 'setM': lambda: f'(St.SetM {gal.nat(op[1])} {gal.z(op[2])})',
                'hw': lambda: f'(St.Hw {zl(op[1])})',
                'fault': lambda: f'(St.Fault {gal.lst(op[1], gal.boolean)} {gal.lst(op[2], gal.boolean)})',
                'coerce': lambda: '(St.Coerce %s)' % gal.lst(
                    op[1], lambda e: f'({gal.nat(e[0])}, {gal.z(e[1])}, {gal.z(e[2])})')}[k]()
    if kind == 'fe':
        return {'writeF': lambda: f'(Fe.WriteF {gal.z(op[1])})', 'writeI': lambda: f'(Fe.WriteI {gal.z(op[1])})',
                'readF': lambda: f'(Fe.ReadF {by(op[1])})', 'readI': lambda: 'Fe.ReadI',
                'setI': lambda: f'(Fe.SetI {gal.z(op[1])})', 'setF': lambda: f'(Fe.SetF {gal.z(op[1])})',
                'hwI': lambda: f'(Fe.HwI {gal.z(op[1])})',
                'script': lambda: '(Fe.Script %s)' % gal.lst(
                    op[1], lambda e: f'({gal.z(e[0])}, {gal.option(e[1], gal.z)})')}[k]()
    if kind == 'li':
        return {'writeA': lambda: f'(Li.WriteA {gal.z(op[1])})', 'writeMin': lambda: f'(Li.WriteMin {gal.z(op[1])})',
                'writeMax': lambda: f'(Li.WriteMax {gal.z(op[1])})',
                'writeLim': lambda: f'(Li.WriteLim {gal.z(op[1])} {gal.z(op[2])})',
                'writeRng': lambda: f'(Li.WriteRng {gal.z(op[1])} {gal.z(op[2])})',
                'setMin': lambda: f'(Li.SetMin {gal.z(op[1])})', 'setMax': lambda: f'(Li.SetMax {gal.z(op[1])})',
                'setLim': lambda: f'(Li.SetLim {gal.z(op[1])} {gal.z(op[2])})'}[k]()
    if kind == 'mo':
        inner = {'writeT': lambda: f'(Co.WriteT {gal.nat(op[2])} {gal.z(op[3])})', 'writeO': lambda: f'(Co.WriteO {gal.z(op[2])})',
                 'updT': lambda: f'(Co.UpdT {gal.nat(op[2])} {gal.z(op[3])})',
                 'cfault': lambda: f'(Co.CFault {gal.lst(op[2], gal.boolean)})'}[k]()
        return f'({gal.nat(op[1])}, {inner})'
    return {'writeT': lambda: f'(Co.WriteT {gal.nat(op[1])} {gal.z(op[2])})', 'writeO': lambda: f'(Co.WriteO {gal.z(op[1])})',
            'updT': lambda: f'(Co.UpdT {gal.nat(op[1])} {gal.z(op[2])})',
            'cfault': lambda: f'(Co.CFault {gal.lst(op[1], gal.boolean)})'}[k]()


def enc_layout(kind, L):
    if kind == 'st':
        n = L['n']
        return ('{| St.sl_n := %s; St.sl_rw := %s; St.sl_sr := %s; St.sl_sw := %s; St.sl_mr := %s; St.sl_mw := %s; '
                'St.sl_lo := %s; St.sl_hi := %s |}'
                % (gal.nat(n), gal.boolean(L['rw']), gal.boolean(L['sr']), gal.boolean(L['sw']),
                   gal.lst(L['mr'], gal.boolean), gal.lst(L['mw'], gal.boolean), gal.z(ST_LO), gal.z(ST_HI)))
    if kind == 'fe':
        labs = ['{| Fe.fl_idx := %s; Fe.fl_explicit := %s; Fe.fl_val := %s |}'
                % (gal.option(lab['idx'], gal.z), gal.boolean(lab['val'] is not None),
                   gal.z(lab['val'] if lab['val'] is not None else lab['pval'])) for lab in L['labels']]
        return ('{| Fe.f_labels := [%s]; Fe.f_ri := %s; Fe.f_wi := %s |}'
                % ('; '.join(labs), gal.boolean(L['ri']), gal.nat(L['wi'])))
    if kind == 'li':
        cls = ['{| Li.c_acc := %s; Li.c_param := %s; Li.c_user := %s; Li.c_min := %s; Li.c_max := %s; Li.c_lim := %s |}'
               % (gal.boolean(c['acc']), gal.boolean(c['param']), gal.nat(c['user']), gal.boolean(c['min']),
                  gal.boolean(c['max']), gal.boolean(c['lim'])) for c in li_classes(L)]
        return ('{| Li.l_lo := %s; Li.l_hi := %s; Li.l_classes := [%s] |}' % (gal.z(L['lo']), gal.z(L['hi']), '; '.join(cls)))
    if kind == 'mo':
        return gal.lst(L['outs'], lambda o: gal.lst(o['kinds'], gal.nat))
    return gal.lst(L.get('kinds') or [0] * len(L['names']), gal.nat)


def _enc_cs(case, obs):
    if obs['status'] != 'ok' or obs['error'] or obs['thread_errors']:
        raise ValueError(f'scheduler run not ok: {obs["status"]} {obs["error"]} {obs["thread_errors"]}')
    if any('err' in r for rs in obs['results'].values() for r in rs):
        raise ValueError(f'operation failed: {obs["results"]}')
    # model schedule: the threads in the order in which the implementation's threads got the accessLock, three moves
    # (acquire, first half, second half + release) each; a blocked thread's move would be a stutter
    sched = []
    for t in obs['order']:
        sched += [t == 'B'] * 3
    evs = '; '.join(f'({gal.nat(e[0])}, {zl(e[1])})' for e in obs['events'] if len(e) == 2)
    if any(len(e) > 2 for e in obs['events']):
        raise ValueError('error update from the implementation')
    return ('(CaseCs %s [%s] [%s] %s %s %s [%s])'
            % (enc_layout('st', case['layout']), '; '.join(enc_op('st', o) for o in case['pa']),
               '; '.join(enc_op('st', o) for o in case['pb']), gal.lst(sched, gal.boolean),
               gal.lst(obs['init'], zl), gal.lst(obs['final'], zl), evs))


def encode(case, obs):
    kind = case['kind']
    if kind == 'cs':
        return _enc_cs(case, obs)
    con = {'st': 'CaseSt', 'fe': 'CaseFe', 'li': 'CaseLi', 'co': 'CaseCo', 'mo': 'CaseMo'}[kind]
    if kind == 'mo':
        for k, o in enumerate(case['layout']['outs']):
            want = {'self': 0}
            want.update({nm: j + 1 for j, nm in enumerate(o['names'])})
            if obs['members'][k] != want:
                raise ValueError(f'controlled_by members of out{k} {obs["members"][k]} != registration order {want}')
    if kind == 'co':
        # the model identifies a controller with its registration number: check the enum the implementation built
        want = {'self': 0}
        want.update({nm: j + 1 for j, nm in enumerate(case['layout']['names'])})
        if obs['members'] != want:
            raise ValueError(f'controlled_by members {obs["members"]} != registration order {want}')
    ops = '; '.join(enc_op(kind, op) for op in case['ops'])
    return '(%s %s [%s] %s [%s])' % (con, enc_layout(kind, case['layout']), ops, gal.lst(obs['init'], zl),
                                     ';\n   '.join(enc_obs(s) for s in obs['steps']))


def model_result_term(case, obs):
    return f'model_result {encode(case, obs)}'


# ------------------------------------------------------------------ direct oracle (the property on the observations)
def fe_table(L):
    """index -> value (half units) as the documentation of FloatEnumParam describes it; independent of the code"""
    table = {}
    nxt = 0
    for lab in L['labels']:
        idx = nxt if lab['idx'] is None else lab['idx']
        table[idx] = lab['val'] if lab['val'] is not None else lab['pval']
        nxt = idx + 1
    return table


def oracle(case, obs):
    fails = []

    def fail(cls, what, op_index, **kw):
        fails.append(dict({'class': cls, 'what': what, 'op_index': op_index}, **kw))

    kind, L = case['kind'], case['layout']
    ops = case['ops']
    steps = obs['steps']

    if kind == 'st':
        n = L['n']
        # a parameter whose last update was an error update (a fault of the fake driver) shows no value: the struct and
        # a member are compared while neither of them is in that state
        stream = [list(obs['init'][0]), list(obs['init'][1])]      # what a client that activated at start has seen
        sflag = [0] * (n + 1)
        prev_bad, prev_sbad = set(), set()
        origin, sorigin = {}, {}       # member -> op at which the (possibly not yet visible) disagreement arose
        for k in range(-1, len(steps)):
            snap = obs['init'] if k < 0 else steps[k]['snap']
            if k >= 0:
                for e in steps[k]['events']:
                    if len(e) > 2:
                        continue
                    if 100 <= e[0] <= 100 + n:
                        sflag[e[0] - 100] = 1
                    elif e[0] == 0:
                        stream[0] = list(e[1])
                        sflag[0] = 0
                    elif 1 <= e[0] <= n:
                        stream[1][e[0] - 1] = e[1][0]
                        sflag[e[0]] = 0
            flags = snap[2]
            for org, a, b in ((origin, snap[0], snap[1]), (sorigin, stream[0], stream[1])):
                for i in range(n):
                    if a[i] != b[i]:
                        org.setdefault(i, k)
                    else:
                        org.pop(i, None)
            bad = {i for i in origin if not flags[0] and not flags[i + 1]}
            sbad = {i for i in sorigin if not sflag[0] and not sflag[i + 1]}
            for i in sorted(bad - prev_bad):
                fail('struct-agree', f'after op {k} ({ops[k] if k >= 0 else "init"}): struct member {MEMBERS[i]} is '
                     f'{snap[0][i]} but parameter {L["prefix"] + MEMBERS[i]} is {snap[1][i]} (differing since op {origin[i]})',
                     k, member=i, origin=origin[i])
            for i in sorted((sbad - prev_sbad) - bad):
                fail('struct-agree', f'after op {k}: update stream shows struct member {MEMBERS[i]} = {stream[0][i]} '
                     f'but member parameter = {stream[1][i]} (differing since op {sorigin[i]})', k, member=i, origin=sorigin[i])
            prev_bad, prev_sbad = bad, sbad

    elif kind == 'fe':
        table = fe_table(L)
        stream = [obs['init'][0][0], obs['init'][1][0]]
        prev = {'shown': False, 'cache': False, 'stream': False}
        for k in range(-1, len(steps)):
            snap = obs['init'] if k < 0 else steps[k]['snap']
            before = obs['init'] if k <= 0 else steps[k - 1]['snap']
            if k >= 0:
                for e in steps[k]['events']:
                    if len(e) == 2 and e[0] in (0, 1):
                        stream[e[0]] = e[1][0]
            idx = snap[1][0]
            want = table.get(idx)
            cur = {'shown': snap[2][0] != want, 'cache': snap[0][0] != want, 'stream': table.get(stream[1]) != stream[0]}
            label = f'after op {k} ({ops[k] if k >= 0 else "init"})'
            if cur['shown'] and not prev['shown']:
                fail('floatenum-value', f'{label}: module attribute shows {snap[2][0] / 2} but index {idx} means '
                     f'{None if want is None else want / 2}', k, view='shown')
            if cur['cache'] and not prev['cache']:
                fail('floatenum-value', f'{label}: the value given to clients is {snap[0][0] / 2} but index {idx} means '
                     f'{None if want is None else want / 2}', k, view='cache')
            elif cur['stream'] and not prev['stream'] and not cur['cache']:
                fail('floatenum-value', f'{label}: update stream shows {stream[0] / 2} with index {stream[1]}', k, view='stream')
            prev = cur
            if k >= 0 and ops[k][0] == 'writeF':
                v = ops[k][1]
                r = steps[k]['res']
                lo, hi = min(table.values()), max(table.values())
                best = min(abs(x - v) for x in table.values())
                # what the fake driver (if the module has a write_<idx>) was asked for and what it did: [requested, set | None]
                drv = steps[k].get('drv') or []
                if 'ok' in r:
                    # the index selected by the write: the one handed to write_<idx>, or (no driver method) the one set
                    sel = drv[0][0] if drv else idx
                    if len(drv) > 1:
                        fail('floatenum-closest', f'{label}: write_<idx> was called {len(drv)} times', k)
                    if sel not in table or abs(table[sel] - v) != best:
                        fail('floatenum-closest', f'{label}: write of {v / 2} selected index {sel} '
                             f'({table[sel] / 2 if sel in table else None}), closest distance is {best / 2}', k)
                    if drv and drv[0][1] != idx:
                        fail('floatenum-closest', f'{label}: write_<idx> set index {drv[0][1]} but the index parameter is {idx}', k)
                    if r['ok'] != [want]:
                        fail('floatenum-value', f'{label}: write of {v / 2} returned '
                             f'{[x / 2 for x in r["ok"]]} but the index now set is {idx} which means '
                             f'{None if want is None else want / 2}', k, view='reply')
                elif lo <= v <= hi and not (r['err'] == 'HardwareError' and len(drv) == 1 and drv[0][1] is None
                                            and drv[0][0] in table and abs(table[drv[0][0]] - v) == best):
                    # the only legitimate refusal of an allowed value: the scripted write_<idx> raised for the closest index
                    fail('floatenum-closest', f'{label}: write of allowed value {v / 2} refused with {r["err"]}', k)
                elif before[1] != snap[1] or before[0] != snap[0]:
                    fail('floatenum-closest', f'{label}: refused write changed the parameters', k)
            if k >= 0 and ops[k][0] == 'readF' and 'ok' in steps[k]['res'] and not cur['cache'] and not cur['shown']:
                if steps[k]['res']['ok'] != [want]:
                    fail('floatenum-value', f'{label}: read returned {steps[k]["res"]["ok"]}', k, view='read')

    elif kind == 'li':
        # whatever the class layout (which class defines the parameter, which ones the limits, where the programmer put
        # check functions of his own): the limits in force are the values the limit parameters had before the write
        for k, (op, s) in enumerate(zip(ops, steps)):
            before = obs['init'] if k == 0 else steps[k - 1]['snap']
            if op[0] == 'writeA' and 'ok' in s['res']:
                v = op[1]
                out = []
                if li_has(L, 'min') and li_has(L, 'max') and before[1][0] > before[2][0]:
                    out.append(f'inverted pair a_min={before[1][0]} > a_max={before[2][0]}')
                if li_has(L, 'lim') and before[3][0] > before[3][1]:
                    out.append(f'inverted pair a_limits={before[3]}')
                if not L['lo'] <= v <= L['hi']:
                    out.append('datatype range')
                if li_has(L, 'min') and v < before[1][0]:
                    out.append(f'a_min={before[1][0]}')
                if li_has(L, 'max') and v > before[2][0]:
                    out.append(f'a_max={before[2][0]}')
                if li_has(L, 'lim') and not before[3][0] <= v <= before[3][1]:
                    out.append(f'a_limits={before[3]}')
                if out:
                    fail('limits-respected', f'op {k}: write a={v} accepted although outside ' + ', '.join(out), k,
                         outside=out)
                if s['snap'][0] != [v]:
                    fail('limits-respected', f'op {k}: accepted write a={v} but a is {s["snap"][0]}', k, outside=['stored'])
            if op[0] == 'writeA' and 'err' in s['res'] and s['snap'] != before:
                fail('limits-respected', f'op {k}: refused write changed the parameters', k, outside=['refused-changed'])
            if op[0] == 'writeRng' and 'ok' in s['res'] and op[2] < op[1]:
                fail('inverted-refused', f'op {k}: inverted pair {op[1:3]} accepted by the LimitsType parameter', k)
            if s['snap'][4][1] < s['snap'][4][0] and not before[4][1] < before[4][0]:
                fail('inverted-refused', f'op {k}: LimitsType parameter holds the inverted pair {s["snap"][4]}', k)

    elif kind == 'co':
        names = L['names']
        stream = [list(x) for x in obs['init']]
        was_bad = {'module': False, 'stream': False}      # a violation is reported when it arises
        for k in range(-1, len(steps)):
            snap = obs['init'] if k < 0 else steps[k]['snap']
            if k >= 0:
                for e in steps[k]['events']:
                    if len(e) > 2:
                        continue
                    if e[0] == 0:
                        stream[0] = list(e[1])
                    elif e[0] >= 10 and e[0] % 2 == 0:
                        stream[1][(e[0] - 10) // 2] = e[1][0]
            for view, sn in (('module', snap), ('stream', stream)):
                active = [j for j, a in enumerate(sn[1]) if a]
                named = obs['members'] if k < 0 else steps[k]['members']
                byname = {v: nm for nm, v in named.items()}.get(sn[0][0])
                label = f'after op {k} ({ops[k] if k >= 0 else "init"}) [{view}]'
                what = None
                if len(active) > 1:
                    what = f'{label}: {[names[j] for j in active]} are all marked as controlling'
                elif len(active) == 1 and byname != names[active[0]]:
                    what = f'{label}: {names[active[0]]} is marked as controlling but the output names {byname}'
                elif not active and byname != 'self':
                    what = f'{label}: nobody is marked as controlling but the output names {byname}'
                if what and not was_bad[view] and not (view == 'stream' and was_bad['module']):
                    fail('single-controller', what, k, view=view, marked=active)
                was_bad[view] = bool(what)
            if k >= 0 and ops[k][0] == 'writeT' and 'ok' in steps[k]['res']:
                j = ops[k][1]
                if not snap[1][j] or any(a for i, a in enumerate(snap[1]) if i != j):
                    fail('single-controller', f'after op {k}: {names[j]} took over but control flags are {snap[1]}', k)
    elif kind == 'mo':
        # property text, per output: at most one of ITS controllers is marked as controlling and the output names
        # exactly that one ('self' when none is)
        outs_l = L['outs']
        was_bad = [False] * len(outs_l)
        for k in range(-1, len(steps)):
            snap = obs['init'] if k < 0 else steps[k]['snap']
            for o, ol in enumerate(outs_l):
                names = ol['names']
                by, acts = snap[4 * o][0], snap[4 * o + 1]
                byname = {v: nm for nm, v in obs['members'][o].items()}.get(by)
                active = [j for j, a in enumerate(acts) if a]
                label = f'after op {k} ({ops[k] if k >= 0 else "init"}) out{o}'
                what = None
                if len(active) > 1:
                    what = f'{label}: {[names[j] for j in active]} are all marked as controlling'
                elif len(active) == 1 and byname != names[active[0]]:
                    what = f'{label}: {names[active[0]]} is marked as controlling but the output names {byname}'
                elif not active and byname != 'self':
                    what = f'{label}: nobody is marked as controlling but the output names {byname}'
                if what and not was_bad[o]:
                    fail('single-controller', what, k, output=o, marked=active,
                         touched_other_output=bool(k >= 0 and ops[k][1] != o))
                was_bad[o] = bool(what)
    elif kind == 'cs':
        # property text at quiescence (both threads finished): struct and members agree member by member - on the module
        # and in the update stream a client has seen
        if obs['status'] != 'ok' or obs['error'] or obs['thread_errors']:
            fail('concurrent-run', f'the two threads did not finish: {obs["status"]} {obs["error"]} {obs["thread_errors"]}', -1)
        else:
            st, mem = obs['final'][0], obs['final'][1]
            stream = [list(obs['init'][0]), list(obs['init'][1])]
            for e in obs['events']:
                if len(e) == 2 and e[0] == 0:
                    stream[0] = list(e[1])
                elif len(e) == 2 and 1 <= e[0] <= L['n']:
                    stream[1][e[0] - 1] = e[1][0]
            for view, (a, b) in (('module', (st, mem)), ('stream', stream)):
                bad = [i for i in range(L['n']) if a[i] != b[i]]
                if bad:
                    i = bad[0]
                    fail('struct-agree', f'at quiescence [{view}]: struct member {MEMBERS[i]} is {a[i]} but parameter '
                         f'{L["prefix"] + MEMBERS[i]} is {b[i]} (thread A {case["pa"]}, thread B {case["pb"]}, lock order '
                         f'{obs["order"]}, preemption {case["preempt"]})', -1, view=view, concurrent=True)
                    break
    for k, s in enumerate(steps):
        if any(len(e) > 2 for e in s['events']):
            fail('error-state', f'op {k} ({ops[k]}) produced an error update that no scripted fault explains', k)
    return fails


def _onset(failure):
    """index of the operation at which the reported inconsistency arose"""
    return failure.get('origin', failure.get('op_index', -2))


def _onset_op(case, failure):
    k = _onset(failure)
    return case['ops'][k] if 0 <= k < len(case['ops']) else None


def _cls_struct_assign(case, obs, failure):
    """driver assignment to the struct in a layout without combined read_/write_: members are not updated"""
    op = _onset_op(case, failure)
    return (case['kind'] == 'st' and failure['class'] == 'struct-agree' and not case['layout']['rw']
            and op is not None and op[0] == 'setS')


def _cls_member_assign(case, obs, failure):
    """driver assignment to a member in the combined layout: the struct is not updated"""
    op = _onset_op(case, failure)
    return (case['kind'] == 'st' and failure['class'] == 'struct-agree' and case['layout']['rw']
            and op is not None and op[0] == 'setM')


def _cls_fe_initial(case, obs, failure):
    """cached float value of a fresh module is the datatype default, not the value of the initial index"""
    return (case['kind'] == 'fe' and failure['class'] == 'floatenum-value' and failure.get('op_index') == -1
            and failure.get('view') == 'cache')


def _cls_fe_assign(case, obs, failure):
    """driver assignment to the float parameter itself stores a value unrelated to the index"""
    op = _onset_op(case, failure)
    return (case['kind'] == 'fe' and failure['class'] == 'floatenum-value' and failure.get('view') == 'cache'
            and op is not None and op[0] == 'setF')


def _cls_struct_write_partial(case, obs, failure):
    """generated write_<struct> aborted by a raising member write after earlier members were written: the struct keeps the
    old values of those members (the disagreement arises at the failing struct write itself)"""
    op = _onset_op(case, failure)
    return (case['kind'] == 'st' and failure['class'] == 'struct-agree' and not case['layout']['rw']
            and op is not None and op[0] == 'writeS' and 'err' in obs['steps'][_onset(failure)]['res'])


def _cls_struct_read_partial(case, obs, failure):
    """generated read_<struct> aborted by a raising member read after earlier members were refreshed: struct (in error
    state) and member differ since that read; it shows when a later member update republishes the stale struct"""
    op = _onset_op(case, failure)
    return (case['kind'] == 'st' and failure['class'] == 'struct-agree' and not case['layout']['rw']
            and op is not None and op[0] == 'readS' and 'err' in obs['steps'][_onset(failure)]['res'])


def _cls_co_switch_off_fails(case, obs, failure):
    """write of the output's own target while the controlling module's set_control_active(False) raises: self_controlled has
    already set controlled_by = self"""
    op = _onset_op(case, failure)
    k = failure.get('op_index', -2)
    if not (case['kind'] == 'co' and failure['class'] == 'single-controller' and op is not None and op[0] == 'writeO'
            and 'err' in obs['steps'][k]['res']):
        return False
    kinds = case['layout'].get('kinds') or []
    flags = []
    for o in case['ops'][:k]:
        if o[0] == 'cfault':
            flags = o[1]
    marked = [j for j, a in enumerate(obs['steps'][k]['snap'][1]) if a]
    return (len(marked) == 1 and marked[0] < len(kinds) and kinds[marked[0]] == 2 and marked[0] < len(flags)
            and bool(flags[marked[0]]) and obs['steps'][k]['snap'][0] == [0])


FINDING_CLASSIFIERS = {
    'struct_write_partial_failure': _cls_struct_write_partial,
    'struct_read_partial_failure': _cls_struct_read_partial,
    'self_controlled_switch_off_fails': _cls_co_switch_off_fails,
    'struct_assign_without_combined_methods': _cls_struct_assign,
    'member_assign_with_combined_methods': _cls_member_assign,
    'floatenum_initial_cache': _cls_fe_initial,
    'floatenum_assign_float': _cls_fe_assign,
}


def nontrivial_key(case, obs):
    if case['kind'] == 'cs':
        if not obs.get('events'):
            return None
        return repr(('cs', case['layout'], case['pa'], case['pb'], obs.get('decisions')))
    if not any(s['events'] for s in obs['steps']):
        return None
    return repr((case['kind'], case['layout'], case['ops']))


def outcome_labels(case, obs):
    labs = {case['kind']}
    if case['kind'] == 'cs':
        labs.add('cs:lock-order:' + ''.join(obs.get('order', [])))
        # did a thread get the lock while the other one was between two of its operations / wait for it
        sw = obs.get('switches', [])
        if any(a[0] != b[0] and 'A' in (a[0], b[0]) and 'B' in (a[0], b[0]) for a, b in zip(sw, sw[1:])):
            labs.add('cs:interleaved')
        return sorted(labs)
    for op, s in zip(case['ops'], obs['steps']):
        labs.add(f'{case["kind"]}:{op[0]}:' + ('ok' if 'ok' in s['res'] else s['res']['err']))
    return sorted(labs)


def sample_repr(case, obs):
    if case['kind'] == 'cs':
        return {'case': case, 'init': obs['init'], 'final': obs['final'], 'events': obs['events'], 'order': obs['order'],
                'decisions': obs['decisions'], 'results': obs['results']}
    return {'case': case, 'init': obs['init'], 'steps': [{'res': s['res'], 'events': s['events'], 'snap': s['snap']}
                                                          for s in obs['steps'][:4]]}


# ------------------------------------------------------------------ generators
def _by(rng):
    return 'c' if rng.random() < 0.6 else 'd'


def _val(rng):
    return rng.choice([rng.randint(-9, 9), rng.randint(ST_LO, ST_HI), ST_LO, ST_HI, ST_HI + 1, ST_LO - 1, 0])


def gen_st_layout(rng):
    n = rng.randint(1, 3)
    rw = rng.random() < 0.5
    if rw:
        sr, sw = rng.choice([(True, True), (True, True), (True, False), (False, True)])
        mr, mw = [False] * n, [False] * n
    else:
        sr = sw = False
        mr = [rng.random() < 0.7 for _ in range(n)]
        mw = [rng.random() < 0.7 for _ in range(n)]
    return {'n': n, 'prefix': rng.choice(['', 'p_']), 'rw': rw, 'sr': sr, 'sw': sw, 'mr': mr, 'mw': mw}


def gen_st_op(rng, L, allow_unsafe=True, ctx=None):
    """ctx (one dict per history) remembers the coercion script in force, so that writes ask for values the hardware coerces"""
    n = L['n']
    ctx = {} if ctx is None else ctx
    coercing = L['rw'] and L['sw']
    k = rng.choice(['readS', 'readS', 'readM', 'writeS', 'writeS', 'writeM', 'writeM', 'setS', 'setM', 'hw', 'fault', 'fault']
                   + (['coerce', 'coerce', 'writeM', 'writeM', 'readM'] if coercing else []))
    if ctx.get('csc') and rng.random() < 0.3:
        k = 'writeM'
    if k == 'coerce':
        # the hardware rounds / clamps: requested value a of member i is stored as b (seldom outside the member range)
        if rng.random() < 0.15:
            ctx['csc'] = []
            return ['coerce', []]
        scr = []
        for _ in range(rng.randint(1, 4)):
            i = rng.randrange(n)
            a = rng.choice([rng.randint(-9, 9), rng.randint(-9, 9), rng.randint(ST_LO, ST_HI), ST_HI, ST_LO])
            b = rng.choice([a + rng.choice([-2, -1, 1, 2]), a - a % 5, rng.randint(-9, 9), max(-50, min(50, a)),
                            ST_HI + 1 if rng.random() < 0.3 else a + 1])
            scr.append([i, a, b])
        ctx['csc'] = scr
        return ['coerce', scr]

    def wval(i):
        keys = [a for j, a, b in ctx.get('csc', []) if j == i]
        if keys and rng.random() < 0.6:
            return rng.choice(keys)
        return _val(rng)

    if k == 'fault':
        r = rng.random()
        rd, wr = [False] * n, [False] * n
        if r < 0.35:
            rd[rng.randrange(n)] = True
        elif r < 0.7:
            wr[rng.randrange(n)] = True
        elif r < 0.8:
            rd = [rng.random() < 0.5 for _ in range(n)]
            wr = [rng.random() < 0.5 for _ in range(n)]
        return ['fault', rd, wr]
    if k == 'readS':
        return ['readS', _by(rng)]
    if k == 'readM':
        return ['readM', rng.randrange(n), _by(rng)]
    if k == 'writeS':
        return ['writeS', [wval(i) for i in range(n)], _by(rng)]
    if k == 'writeM':
        i = rng.randrange(n)
        if ctx.get('csc') and rng.random() < 0.6:
            i = rng.choice(ctx['csc'])[0]
        return ['writeM', i, wval(i), _by(rng)]
    inr = lambda: rng.randint(-20, 20)
    if k == 'setS':
        if not L['rw'] and (not allow_unsafe or rng.random() < 0.7):
            return ['setM', rng.randrange(n), inr()]
        return ['setS', [inr() for _ in range(n)]]
    if k == 'setM':
        if L['rw'] and (not allow_unsafe or rng.random() < 0.7):
            return ['setS', [inr() for _ in range(n)]]
        return ['setM', rng.randrange(n), inr()]
    return ['hw', [inr() for _ in range(n)]]


def _half_label(h):
    return '%g' % (h / 2)


def gen_fe_layout(rng):
    nl = rng.randint(1, 5)
    style = rng.choice(['asc', 'desc', 'rand', 'ties'])
    pool = list(range(-6, 41))
    vals = rng.sample(pool, nl)
    if style == 'asc':
        vals.sort()
    elif style == 'desc':
        vals.sort(reverse=True)
    elif style == 'ties' and nl > 1:
        vals[rng.randrange(1, nl)] = vals[0]
    if rng.random() < 0.6:
        vals = [abs(v) + 1 for v in vals]          # the usual case: positive ranges
    labels = []
    nxt = 0
    seen = set()
    for j, h in enumerate(vals):
        idx = None
        if rng.random() < 0.3:
            idx = nxt + rng.randint(0, 3)
        explicit = rng.random() < 0.4
        text = f'L{j}' if explicit else _half_label(h)
        if text in seen:                            # labels must be distinct
            explicit, text = True, f'L{j}'
        seen.add(text)
        labels.append({'idx': idx, 'label': text, 'val': h if explicit else None, 'pval': None if explicit else h})
        nxt = (nxt if idx is None else idx) + 1
    ri = rng.random() < 0.5
    wi = rng.choice([0, 1, 2, 3, 3, 3])
    return {'labels': labels, 'ri': ri, 'wi': wi}


def gen_fe_op(rng, L, allow_unsafe=True):
    table = fe_table(L)
    keys = list(table)
    vals = list(table.values())
    k = rng.choice(['writeF', 'writeF', 'writeI', 'readF', 'readI', 'setI', 'setF', 'hwI']
                   + (['script', 'script', 'writeF'] if L['wi'] >= 3 else []))
    if k == 'script':
        # the script of the fake driver: some indices are locked out (another index is set instead) or refused (it raises)
        scr = []
        r = rng.random()
        if r < 0.15:
            return ['script', []]
        for key in keys:
            if rng.random() < (0.5 if r < 0.8 else 0.9):
                scr.append([key, None if rng.random() < 0.3 else rng.choice(keys)])
        rng.shuffle(scr)
        return ['script', scr]
    if k == 'writeF':
        lo, hi = min(vals), max(vals)
        v = rng.choice([rng.randint(lo - 2, hi + 2), rng.choice(vals), rng.choice(vals) + rng.choice([-1, 1]),
                        (rng.choice(vals) + rng.choice(vals)) // 2, lo - 1, hi + 1])
        return ['writeF', v, _by(rng)]
    if k == 'writeI':
        return ['writeI', rng.choice(keys), _by(rng)]
    if k == 'readF':
        return ['readF', _by(rng)]
    if k == 'readI':
        return ['readI', _by(rng)]
    if k == 'setI':
        return ['setI', rng.choice(keys)]
    if k == 'setF':
        if not allow_unsafe or rng.random() < 0.6:
            return ['setI', rng.choice(keys)]
        return ['setF', rng.choice(vals + [min(vals) + 1])]
    return ['hwI', rng.choice(keys)]


def _li_cls(acc=True, param=False, user=0, mn=False, mx=False, lim=False):
    return {'acc': acc, 'param': param, 'user': user, 'min': mn, 'max': mx, 'lim': lim}


def gen_li_layout(rng):
    """class layouts: everything in one class; parameter (with / without a check_a of the programmer) in an ancestor and the
    limits in a subclass; limits in a plain mixin; limits split over several classes; random hierarchies of 2..3 classes.
    A limit parameter never stands deeper in the MRO than the parameter (frappy refuses the module then), and a check_a
    written in a class that defines a limit parameter calls checkLimits itself (it replaces the generated check by design)"""
    lo, hi = rng.choice([(-10, 10), (-5, 5), (0, 8), (-8, 0), (-3, 12)])
    while True:
        mn, mx, lim = rng.random() < 0.5, rng.random() < 0.5, rng.random() < 0.4
        if mn or mx or lim:
            break
    shape = rng.choice(['same', 'same', 'sub', 'sub', 'sub', 'mixin', 'mixin', 'split', 'random', 'random'])
    if shape == 'same':
        classes = [_li_cls(True, True, rng.choice([0, 0, 0, 2]), mn, mx, lim)]
    elif shape == 'sub':
        # the layout of seeded change C18-5: ancestor with the parameter and (mostly) its own check, subclass adds the limits
        classes = [_li_cls(True, False, rng.choice([0, 0, 0, 2]), mn, mx, lim),
                   _li_cls(True, True, rng.choice([1, 1, 1, 2, 0]))]
        if rng.random() < 0.3:
            classes.insert(1, _li_cls(rng.random() < 0.6, False, rng.choice([0, 1])))
    elif shape == 'mixin':
        # test_limit_inheritance: class Mod(Mixin, Base)
        classes = [_li_cls(True, False, rng.choice([0, 1, 1])), _li_cls(False, False, rng.choice([0, 0, 0, 2]), mn, mx, lim),
                   _li_cls(True, True, rng.choice([0, 1, 1]))]
        if rng.random() < 0.3:
            classes = classes[1:]
            classes.insert(0, _li_cls(True, False, 0))
    elif shape == 'split':
        if not (mn and mx) and not lim:
            mn = mx = True
        top = _li_cls(True, False, rng.choice([0, 0, 2]), mn and not lim, False, lim)
        classes = [top, _li_cls(rng.random() < 0.7, False, rng.choice([0, 0, 2]), mn and lim, mx, False),
                   _li_cls(True, True, rng.choice([0, 1, 1]))]
        if rng.random() < 0.4:
            classes[1]['param'], classes[1]['acc'] = True, True
            classes.pop()
    else:
        n = rng.randint(2, 3)
        ppos = rng.randrange(n)
        classes = []
        for j in range(n):
            c = _li_cls(j == 0 or rng.random() < 0.6, j == ppos, 0)
            if j <= ppos:
                c['min'], c['max'], c['lim'] = mn and rng.random() < 0.5, mx and rng.random() < 0.5, lim and rng.random() < 0.5
            has = c['min'] or c['max'] or c['lim']
            c['user'] = rng.choice([0, 0, 2] if has else [0, 0, 1, 1, 2])
            classes.append(c)
        if not any(c['min'] or c['max'] or c['lim'] for c in classes):
            classes[0].update(min=mn, max=mx, lim=lim)
            if classes[0]['user'] == 1:
                classes[0]['user'] = 2
    return {'base': rng.choice(['int', 'float']), 'lo': lo, 'hi': hi, 'classes': classes}


def gen_li_op(rng, L):
    lo, hi = L['lo'], L['hi']
    v = lambda: rng.choice([rng.randint(lo - 1, hi + 1), rng.randint(lo, hi), lo, hi, 0])
    kinds = ['writeA', 'writeA', 'writeA', 'writeRng']
    if li_has(L, 'min'):
        kinds += ['writeMin', 'writeMin', 'setMin']
    if li_has(L, 'max'):
        kinds += ['writeMax', 'writeMax', 'setMax']
    if li_has(L, 'lim'):
        kinds += ['writeLim', 'writeLim', 'setLim']
    k = rng.choice(kinds)
    if k in ('writeA', 'writeMin', 'writeMax'):
        return [k, v(), _by(rng)]
    if k in ('writeLim', 'writeRng'):
        return [k, v(), v(), _by(rng)]
    if k in ('setMin', 'setMax'):
        return [k, rng.randint(lo - 3, hi + 3)]
    return ['setLim', rng.randint(lo - 3, hi + 3), rng.randint(lo - 3, hi + 3)]


CO_NAMES = ['zeta', 'alpha', 'mid', 'loop1', 'b2']


def gen_co_layout(rng):
    names = rng.sample(CO_NAMES, rng.randint(1, 3))
    return {'names': names, 'kinds': [rng.choice([0, 0, 1, 1, 2, 2]) for _ in names]}


def gen_co_op(rng, L):
    n = len(L['names'])
    k = rng.choice(['writeT', 'writeT', 'writeT', 'writeO', 'writeO', 'updT', 'cfault'])
    if k == 'cfault':
        kinds = L.get('kinds') or [0] * n
        return ['cfault', [kd == 2 and rng.random() < 0.7 for kd in kinds]]
    if k == 'writeT':
        return ['writeT', rng.randrange(n), rng.randint(-9, 9), _by(rng)]
    if k == 'writeO':
        return ['writeO', rng.randint(-9, 9), _by(rng)]
    return ['updT', rng.randrange(n), rng.randint(-9, 9)]


MO_NAMES = ['a1', 'zz', 'b1', 'loop', 'm2', 'c3', 'aa', 'x9']


def gen_mo_layout(rng):
    names = rng.sample(MO_NAMES, len(MO_NAMES))
    outs = []
    for _ in range(rng.choice([2, 2, 2, 3])):
        k = rng.randint(1, 2)
        outs.append({'names': [names.pop() for _ in range(k)], 'kinds': [rng.choice([0, 0, 1]) for _ in range(k)]})
    return {'outs': outs}


def gen_mo_op(rng, L):
    o = rng.randrange(len(L['outs']))
    n = len(L['outs'][o]['names'])
    k = rng.choice(['writeT', 'writeT', 'writeT', 'writeO', 'writeO', 'updT'])
    if k == 'writeT':
        return ['writeT', o, rng.randrange(n), rng.randint(-9, 9), _by(rng)]
    if k == 'writeO':
        return ['writeO', o, rng.randint(-9, 9), _by(rng)]
    return ['updT', o, rng.randrange(n), rng.randint(-9, 9)]


def cs_cases(rng, count, max_step=24):
    """two-thread cases: thread A reads (struct / member), thread B writes (member / struct); ONE preemption at a step
    chosen over the whole run (the run is non-preemptive otherwise), so every switch point is hit by some case"""
    out = []
    while len(out) < count:
        n = rng.randint(1, 3)
        L = {'n': n, 'prefix': rng.choice(['', 'p_']), 'rw': False, 'sr': False, 'sw': False,
             'mr': [True] * n, 'mw': [rng.random() < 0.8 for _ in range(n)]}
        pa = [rng.choice([['readS', _by(rng)], ['readS', 'd'], ['readM', rng.randrange(n), _by(rng)]])
              for _ in range(rng.randint(1, 2))]
        pb = [rng.choice([['writeM', rng.randrange(n), rng.randint(1, 9), _by(rng)],
                          ['writeM', rng.randrange(n), rng.randint(1, 9), 'd'],
                          ['writeS', [rng.randint(1, 9) for _ in range(n)], _by(rng)]])
              for _ in range(rng.randint(1, 2))]
        if rng.random() < 0.3:
            pa, pb = pb, pa
        for step in rng.sample(range(max_step), min(max_step, 6)):
            out.append({'kind': 'cs', 'layout': L, 'ops': [], 'pa': pa, 'pb': pb, 'preempt': {str(step): rng.randrange(3)}})
    return out[:count]


def cs_systematic(max_step=24):
    """read_st against write_a: a preemption at EVERY step of the run, each enabled thread"""
    for n, pa, pb in ((2, [['readS', 'd']], [['writeM', 0, 9, 'd']]), (3, [['readS', 'c']], [['writeM', 1, 7, 'c']]),
                      (1, [['readS', 'd'], ['readM', 0, 'd']], [['writeS', [5], 'c']])):
        L = {'n': n, 'prefix': 'p_', 'rw': False, 'sr': False, 'sw': False, 'mr': [True] * n, 'mw': [True] * n}
        for step in range(max_step):
            for idx in (0, 1):
                yield {'kind': 'cs', 'layout': L, 'ops': [], 'pa': pa, 'pb': pb, 'preempt': {str(step): idx}}


GEN = {'st': (gen_st_layout, gen_st_op), 'fe': (gen_fe_layout, gen_fe_op), 'li': (gen_li_layout, gen_li_op),
       'co': (gen_co_layout, gen_co_op), 'mo': (gen_mo_layout, gen_mo_op)}


def gen_ops(rng, kind, L, count):
    go = GEN[kind][1]
    if kind == 'st':
        ctx = {}
        return [go(rng, L, ctx=ctx) for _ in range(count)]
    return [go(rng, L) for _ in range(count)]


def rand_case(rng, kind):
    L = GEN[kind][0](rng)
    return {'kind': kind, 'layout': L, 'ops': gen_ops(rng, kind, L, rng.randint(1, 8))}


def exhaustive_cases(depth):
    """all histories up to the given depth over small alphabets on representative layouts"""
    # struct: both layouts, 2 members
    for L in ({'n': 2, 'prefix': '', 'rw': True, 'sr': True, 'sw': True, 'mr': [False] * 2, 'mw': [False] * 2},
              {'n': 2, 'prefix': 'p_', 'rw': True, 'sr': True, 'sw': False, 'mr': [False] * 2, 'mw': [False] * 2},
              {'n': 2, 'prefix': '', 'rw': True, 'sr': False, 'sw': True, 'mr': [False] * 2, 'mw': [False] * 2},
              {'n': 2, 'prefix': '', 'rw': False, 'sr': False, 'sw': False, 'mr': [True, False], 'mw': [True, True]},
              {'n': 2, 'prefix': 'p_', 'rw': False, 'sr': False, 'sw': False, 'mr': [True, True], 'mw': [False, True]}):
        safe_set = ['setS', [5, 6]] if L['rw'] else ['setM', 1, 7]
        alpha = [['readS', 'c'], ['readM', 0, 'd'], ['writeS', [1, 2], 'c'], ['writeM', 1, 3, 'c'], ['writeM', 0, 101, 'c'],
                 safe_set, ['hw', [8, 9]]]
        for d in range(1, depth + 1):
            for ops in itertools.product(alpha, repeat=d):
                yield {'kind': 'st', 'layout': L, 'ops': [list(o) for o in ops]}
    # struct with faults of the fake driver
    T, F = True, False
    for L, alpha in (
            ({'n': 2, 'prefix': '', 'rw': False, 'sr': False, 'sw': False, 'mr': [True, True], 'mw': [True, True]},
             [['readS', 'c'], ['writeS', [1, 2], 'c'], ['writeM', 0, 3, 'c'], ['readM', 1, 'c'], ['hw', [8, 9]],
              ['fault', [F, T], [F, F]], ['fault', [F, F], [F, T]], ['fault', [F, F], [T, F]], ['fault', [F, F], [F, F]]]),
            ({'n': 2, 'prefix': 'p_', 'rw': True, 'sr': True, 'sw': True, 'mr': [False] * 2, 'mw': [False] * 2},
             [['readS', 'c'], ['readM', 0, 'd'], ['writeM', 1, 3, 'c'], ['writeS', [1, 2], 'c'], ['hw', [8, 9]],
              ['fault', [T, F], [F, F]], ['fault', [F, F], [T, F]], ['fault', [F, F], [F, F]]])):
        for d in range(1, depth + 1):
            for ops in itertools.product(alpha, repeat=d):
                yield {'kind': 'st', 'layout': L, 'ops': [list(o) for o in ops]}
    # struct with combined methods whose hardware coerces what write_<struct> is given (both methods / write only)
    for L in ({'n': 2, 'prefix': 'p_', 'rw': True, 'sr': True, 'sw': True, 'mr': [False] * 2, 'mw': [False] * 2},
              {'n': 2, 'prefix': '', 'rw': True, 'sr': False, 'sw': True, 'mr': [False] * 2, 'mw': [False] * 2}):
        alpha = [['writeM', 0, 7, 'c'], ['writeM', 1, 3, 'd'], ['writeS', [7, 2], 'c'], ['readM', 0, 'c'], ['readS', 'c'],
                 ['coerce', [[0, 7, 5], [1, 3, 4]]], ['coerce', [[0, 7, 101]]], ['coerce', []], ['hw', [8, 9]]]
        for d in range(1, min(depth, 3) + 1):
            for ops in itertools.product(alpha, repeat=d):
                yield {'kind': 'st', 'layout': L, 'ops': [list(o) for o in ops]}
    # control: 3 plain controllers; then a safe-value writer, a possibly failing one and a plain one
    L = {'names': ['zeta', 'alpha', 'mid'], 'kinds': [0, 0, 0]}
    alpha = [['writeT', 0, 1, 'c'], ['writeT', 1, 2, 'd'], ['writeT', 2, 3, 'c'], ['writeO', 4, 'c'], ['updT', 0, 5], ['updT', 2, 6]]
    for d in range(1, depth + 1):
        for ops in itertools.product(alpha, repeat=d):
            yield {'kind': 'co', 'layout': L, 'ops': [list(o) for o in ops]}
    L = {'names': ['zeta', 'alpha', 'mid'], 'kinds': [1, 2, 0]}
    alpha = [['writeT', 0, 1, 'c'], ['writeT', 1, 2, 'd'], ['writeT', 2, 3, 'c'], ['writeO', 4, 'c'], ['updT', 0, 5],
             ['cfault', [F, T, F]], ['cfault', [F, F, F]]]
    for d in range(1, depth + 1):
        for ops in itertools.product(alpha, repeat=d):
            yield {'kind': 'co', 'layout': L, 'ops': [list(o) for o in ops]}
    # limits: min+max and limits
    for L in ({'base': 'float', 'lo': -10, 'hi': 10, 'min': True, 'max': True, 'lim': False},
              {'base': 'int', 'lo': -10, 'hi': 10, 'min': False, 'max': False, 'lim': True}):
        if li_has(L, 'lim'):
            alpha = [['writeA', 3, 'c'], ['writeA', -4, 'c'], ['writeA', 11, 'c'], ['writeLim', -3, 3, 'c'], ['writeLim', 4, -4, 'c'],
                     ['setLim', 0, 12], ['writeRng', 2, 1, 'c'], ['writeRng', 1, 2, 'c']]
        else:
            alpha = [['writeA', 3, 'c'], ['writeA', -4, 'c'], ['writeA', 11, 'c'], ['writeMin', 4, 'c'], ['writeMax', 2, 'c'],
                     ['writeMin', -5, 'd'], ['setMax', 12], ['writeRng', 2, 1, 'd']]
        for d in range(1, depth + 1):
            for ops in itertools.product(alpha, repeat=d):
                yield {'kind': 'li', 'layout': L, 'ops': [list(o) for o in ops]}
    # limits added in a subclass of a class that has the parameter and its own check_a; limits in a plain mixin
    S = _li_cls
    for L in ({'base': 'float', 'lo': -10, 'hi': 10, 'classes': [S(True, False, 0, True, True, False), S(True, True, 1)]},
              {'base': 'int', 'lo': -10, 'hi': 10,
               'classes': [S(True, False, 1), S(False, False, 0, False, True, True), S(True, True, 1)]}):
        if li_has(L, 'lim'):
            alpha = [['writeA', 2, 'c'], ['writeA', -4, 'c'], ['writeA', 3, 'c'], ['writeLim', -3, 3, 'c'], ['writeLim', 4, -4, 'c'],
                     ['writeMax', 1, 'c'], ['setLim', 0, 12], ['writeA', 9, 'd']]
        else:
            alpha = [['writeA', 2, 'c'], ['writeA', -4, 'c'], ['writeA', 3, 'c'], ['writeMin', 4, 'c'], ['writeMax', 1, 'c'],
                     ['writeMin', -5, 'd'], ['setMax', 12], ['writeA', 9, 'd']]
        for d in range(1, min(depth, 3) + 1):
            for ops in itertools.product(alpha, repeat=d):
                yield {'kind': 'li', 'layout': L, 'ops': [list(o) for o in ops]}
    # float/enum: a descending table with a tie
    L = {'labels': [{'idx': 1, 'label': 'L0', 'val': 8, 'pval': None}, {'idx': None, 'label': '2', 'val': None, 'pval': 4},
                    {'idx': 5, 'label': 'L2', 'val': 16, 'pval': None}, {'idx': None, 'label': '4', 'val': None, 'pval': 8}],
         'ri': True, 'wi': 2}
    alpha = [['writeF', 6, 'c'], ['writeF', 12, 'd'], ['writeF', 17, 'c'], ['writeI', 5, 'c'], ['readF', 'c'], ['readI', 'c'],
             ['setI', 2], ['hwI', 6]]
    for d in range(1, depth + 1):
        for ops in itertools.product(alpha, repeat=d):
            yield {'kind': 'fe', 'layout': L, 'ops': [list(o) for o in ops]}
    # float/enum with a scripted write_<idx>: ranges locked out (another index is set) or refused (raises)
    L = {'labels': [{'idx': None, 'label': '0.5', 'val': None, 'pval': 1}, {'idx': None, 'label': '5', 'val': None, 'pval': 10},
                    {'idx': None, 'label': '50', 'val': None, 'pval': 100}, {'idx': 7, 'label': 'L3', 'val': 40, 'pval': None}],
         'ri': True, 'wi': 3}
    alpha = [['writeF', 90, 'c'], ['writeF', 12, 'd'], ['writeF', 30, 'c'], ['writeI', 2, 'c'], ['setI', 7], ['readI', 'c'],
             ['script', [[2, 1], [7, 0]]], ['script', [[2, None], [1, 1]]], ['script', []]]
    for d in range(1, depth + 1):
        for ops in itertools.product(alpha, repeat=d):
            yield {'kind': 'fe', 'layout': L, 'ops': [list(o) for o in ops]}


def gen_cases(seed, tier):
    rng = random.Random(seed * 1000003 + 18)
    per_kind = {'quick': 1000, 'thorough': 10000, 'search': 10000}[tier]
    cases = []
    for kind in ('st', 'fe', 'li', 'co'):
        cases.extend(rand_case(rng, kind) for _ in range(per_kind))
    cases.extend(rand_case(rng, 'mo') for _ in range(per_kind * 2 // 5))
    cases.extend(cs_systematic())
    cases.extend(cs_cases(rng, per_kind // 5))
    cases.extend(exhaustive_cases(2 if tier == 'quick' else 4))
    return cases


def shrink(case):
    if case['kind'] == 'cs':
        for key in ('pa', 'pb'):
            for i in range(len(case[key]) - 1, -1, -1):
                if len(case[key]) > 1:
                    yield dict(case, **{key: case[key][:i] + case[key][i + 1:]})
        return
    ops = case['ops']
    for i in range(len(ops) - 1, -1, -1):
        yield dict(case, ops=ops[:i] + ops[i + 1:])


def search_cases(seed, mismatching):
    """targeted search after a broken obligation: every prefix and every single-op deletion of the disagreeing cases,
    the same layouts with fresh histories, and a fresh random budget"""
    rng = random.Random(seed * 7919 + 18)
    out = []
    for c in mismatching[:50]:
        if c['kind'] == 'cs':
            continue
        ops = c['ops']
        for i in range(1, len(ops) + 1):
            out.append(dict(c, ops=ops[:i]))
        for i in range(len(ops)):
            out.append(dict(c, ops=ops[:i] + ops[i + 1:]))
        for _ in range(40):
            out.append(dict(c, ops=gen_ops(rng, c['kind'], c['layout'], rng.randint(1, 8))))
    out.extend(cs_systematic())
    out.extend(rand_case(rng, 'mo') for _ in range(3000))
    out.extend(cs_cases(rng, 1500))
    for kind in ('st', 'fe', 'li', 'co'):
        out.extend(rand_case(rng, kind) for _ in range(4000))
    out.extend(exhaustive_cases(3))
    return out
